"""
C10 - BlockMean returns (weighted) means and (0, 1] weights by the documented rule;
variance_to_weights maps variances to min-positive/variance without touching its input.

Monitors on the real ``BlockMean.filter`` and ``variance_to_weights`` (direct calls and the ones
nested in ``BlockMean.filter`` / ``Chain.fit``) judge every return *or raise*:

* argument digests (``core.digest``: bytes, dtype, shape, write flag) before and after the call;
* ``BlockMean.filter`` must return normally for valid input (an exception is a refutation) and must
  reject ``uncertainty=True`` without weights;
* means / coordinates as in C09 (pandas-free recomputation from the nested ``block_split`` labels,
  themselves validated against the reference geometry);
* weights: all in (0, 1], one exactly 1, and equal to the rule selected by the inputs
  (variance with one ddof convention for all blocks | sum of weights | weighted variance);
* ``variance_to_weights``: shape, dtype, NaN -> 1, <= tol -> 1, min{v > tol}/v, per array for tuples.
"""
import collections
import math
import warnings

import numpy as np

from .. import core, gen
from . import _c09_blocks as blk

ID = "C10"
LEVEL = "exploration"
RULE = (
    "cases = one BlockMean.filter call (seeded clouds of 1..150 points in 1..49 blocks with 1..150 members, 1..3 components with "
    "distinct fields incl. plateaus that give zero-variance blocks, weights none / per-component 10^[-3,3], uncertainty on/off, "
    "spacing|shape, region inferred/padded/shrunk, centre/drop flags, arrays 1-D/2-D/Fortran/strided/read-only and pandas Series with "
    "shuffled index, data components float64/float32/int16/int32/int64 uniform or mixed in both orders, integer weights; histories on ONE "
    "instance with region=None or given: cloud A, another cloud, a subset, other data, A again, clones after the calls, and the same "
    "ndarrays modified in place between calls; re-configuration histories: built with P1, optionally used, then 1..3 of uncertainty / "
    "spacing / shape<->spacing / region None<->given / adjust / center_coordinates / drop_coords changed by set_params, attribute "
    "assignment or clone().set_params and used with the weights the rule in force needs - judged with the get_params snapshot taken "
    "just before the call; equivalent spellings of spacing / shape / region / flags (Python and numpy integers, 0-d arrays, lists, "
    "ndarrays, np.bool_, 1/0) with falsy-but-valid values (extra coordinate 0 everywhere, weights exactly 1); large-offset data with "
    "|mean| = 1e4..2e6 spreads for all three rules; calls with 130 000 / 230 000 / 262 145 points - unweighted over thousands of blocks with "
    "singletons, weighted / uncertainty over a few hundred - with the variance convention required to be the same for the whole run; weights exactly 0.0 in all components on points ON the "
    "bounding box of the cloud with the region not given (control: given), both uncertainty settings, every block keeping a positive weight, and weights exactly 0.0 on different points in different components (2-3 components, 10-30 % of the points, positive in the other components)) "
    "or one variance_to_weights call (2-D and 3-D variances spelled as nested lists or lists of arrays = ONE array, tuples = components; (tol as Python/numpy int or float, np.float32, 0-d "
    "array; dtype as str / type / np.dtype; bare Python and numpy scalars, all-zero variances; arrays of 1..40 variances 10^[-6,6] with zeros, 1e-300, NaNs, negatives, values "
    "at / beside tol, 1-D/2-D/0-d, tuples of 1..3 arrays, lists, Series, read-only, float32/int input, tol in {default,0,1e-3,10}, "
    "dtype float64/float32). Non-trivial BlockMean case = at least 2 blocks with >= 2 members whose rule quantity (variance, sum of "
    "weights, weighted variance) differs; non-trivial variance_to_weights case = at least 2 distinct variances above tol plus a "
    "NaN / zero / below-tol entry; distinct = hash of inputs and configuration."
)
ASSUMPTIONS = [
    "block membership of points within 1e-9 block sizes of a block edge is taken from the nested block_split event (C08: either neighbour)",
    "means compared with tolerance 64*eps*n_members*max|value|; reference sums use math.fsum",
    "a block variance carries an absolute error bound 64*eps*n*(max|d|*sigma + sigma^2) (the conditioning of the shift-invariant variance, "
    "what a two-pass algorithm achieves): weights are compared with the propagated relative tolerance, "
    "components whose tolerance exceeds 1e-3 or whose variance lies within that bound of the 1e-15 cutoff are skipped (counted)",
    "the unweighted block variance may follow ddof=0 or ddof=1 provided one convention explains every block of a component AND the same "
    "convention explains every decidable result of the run (per worker process): it may not depend on the size of the input",
    "variances at or below variance_to_weights' documented default tol=1e-15 (single-member and constant blocks) get weight 1",
    "variance_to_weights: values within 1e-9*tol of tol but not equal to it are either-way (array skipped); +-inf is not judged",
    "the reference works on float64(values); a component handed over as float32 uses the float32 epsilon in its bounds and is called "
    "uninformative from a weight tolerance of 2e-2 (float64: 1e-3); constant float32 blocks are skipped",
    "constant blocks (single weighted members included: x*w/w may be one ulp off x) whose rounding noise 4*(n*eps*|x|)^2 can reach the "
    "absolute 1e-15 cutoff are skipped and counted, not judged",
    "arguments a caller leaves out are judged with the DOCUMENTED defaults (tap documented=): block_split, filter(weights=None), "
    "variance_to_weights(tol=1e-15, dtype='float64'), constructor parameters (compared with the stored ones after every __init__)",
    "the configuration of a call is the get_params() snapshot taken before the call; get_params() must be the same afterwards",
    "a block whose weights sum to zero makes np.average raise ZeroDivisionError on the unchanged code: the workload never builds one; "
    "members of weight exactly 0 count for the block geometry and the coordinates, not for mean, variance or sum of weights",
]
FLOORS = {
    "quick": {
        "eval:blockmean_returns": 770, "eval:blockmean_layout": 770, "eval:labels_vs_reference_geometry": 770,
        "eval:params_unchanged_by_filter": 790, "eval:block_mean_value": 11700, "eval:block_coordinate": 16000,
        "eval:block_weight_rule": 1200, "eval:block_weight_range": 1300, "eval:blockmean_inputs_unmodified": 790,
        "eval:uncertainty_without_weights_rejected": 17, "eval:v2w_values": 2200, "eval:v2w_input_unmodified": 2000,
        "eval:v2w_returns": 2000, "eval:series_backing_store_unmodified": 32, "distinct_nontrivial": 1400,
        "class:rule:variance": 240, "class:rule:uncertainty": 230, "class:rule:weighted_variance": 250,
        "v2w_class:readonly": 1000, "v2w_class:has_nan": 460, "class:data_dtype_present:int16": 66,
        "class:data_dtype_present:int32": 81, "class:data_dtype_present:int64": 79, "class:data_dtype_present:float32": 110,
        "block_weight_rule_judged:data_dtype:int16": 92, "block_weight_rule_judged:data_dtype:int32": 100,
        "block_weight_rule_judged:data_dtype:int64": 96, "block_weight_rule_judged:data_dtype:float32": 100,
        "class:mixed_data_dtypes:integer_then_float64": 27, "class:mixed_data_dtypes:float64_then_integer": 25,
        "class:mixed_data_dtypes:float32_then_float64": 18, "class:mixed_data_dtypes:float64_then_float32": 19,
        "class:weights_dtype_present:int32": 62, "class:weights_dtype_present:int64": 66, "class:history:reuse_calls": 110,
        "class:history:reuse_calls:region_none": 78, "class:history:reuse_calls:region_given": 11,
        "class:history:reuse_calls:rule_variance": 30, "class:history:reuse_calls:rule_uncertainty": 22,
        "class:history:reuse_calls:rule_weighted_variance": 22, "class:history:inplace_calls": 57,
        "class:history:inplace_calls:region_none": 35, "class:history:clone_after_filter_calls": 32,
        "class:reconfigured_calls": 48, "class:reconfigured:how:set_params": 13,
        "class:reconfigured:how:attribute_assignment": 11, "class:reconfigured:how:clone_then_set_params": 13,
        "class:reconfigured:used_before": 22, "class:reconfigured:never_used_before": 22,
        "class:reconfigured:uncertainty_False_to_True_with_weights": 12,
        "class:reconfigured:uncertainty_True_to_False_with_weights": 8,
        "class:reconfigured:rejected_without_weights_after_switching_uncertainty_on": 4,
        "class:reconfigured:rule_in_force:uncertainty": 22, "class:reconfigured:rule_in_force:weighted_variance": 13,
        "class:reconfigured:param:uncertainty": 25, "class:reconfigured:param:spacing": 11,
        "class:reconfigured:param:shape_vs_spacing": 8, "class:reconfigured:param:region": 9,
        "class:reconfigured:param:adjust": 10, "class:reconfigured:param:center_coordinates": 11,
        "class:reconfigured:param:drop_coords": 11, "class:spelling_group:spacing:scalar_as_python_int": 6,
        "class:spelling_group:spacing:scalar_as_numpy_integer": 4, "class:spelling_group:spacing:scalar_as_numpy_floating": 4,
        "class:spelling_group:spacing:scalar_as_0d_array": 5, "class:spelling_group:spacing:as_list": 4,
        "class:spelling_group:spacing:as_ndarray": 8, "class:spelling_group:spacing:elements_integers": 13,
        "class:spelling_group:shape:as_list": 2, "class:spelling_group:shape:as_ndarray": 7,
        "class:spelling_group:shape:elements_numpy_scalars": 2, "class:spelling_group:region:as_tuple": 110,
        "class:spelling_group:region:as_ndarray": 12, "class:spelling_group:region:elements_integers": 19,
        "class:spelling_group:flag_as_int=True": 29, "class:spelling_group:flag_as_int=False": 45,
        "class:spelling_group:flag_as_numpy_bool=True": 32, "class:spelling_group:flag_as_numpy_bool=False": 40,
        "class:falsy:extra_coordinate_exactly_0_everywhere": 28, "class:falsy:weights_exactly_1": 19,
        "class:large_offset_data(|mean|>1e4*spread):rule:variance": 13,
        "class:large_offset_data(|mean|>1e4*spread):rule:uncertainty": 9,
        "class:large_offset_data(|mean|>1e4*spread):rule:weighted_variance": 12,
        "block_weight_rule_judged:large_offset_data:rule:variance": 19,
        "block_weight_rule_judged:large_offset_data:rule:uncertainty": 16,
        "block_weight_rule_judged:large_offset_data:rule:weighted_variance": 20, "v2w_class:all_variances_exactly_0": 140,
        "v2w_class:bare_scalar:float": 18, "v2w_class:bare_scalar:int": 7, "v2w_class:bare_scalar:np.float64": 8,
        "v2w_class:tol_spelled_as:int": 35, "v2w_class:tol_spelled_as:np.int64": 35, "v2w_class:tol_spelled_as:np.float32": 68,
        "v2w_class:tol_spelled_as:np.float64": 100, "v2w_class:tol_spelled_as:ndarray0d(float64)": 100,
        "v2w_class:dtype_spelled_as:type:float32": 18, "v2w_class:dtype_spelled_as:np.dtype(float32)": 18,
        "v2w_class:dtype_spelled_as:'float32'": 14, "v2w_class:dtype_spelled_as:type:float": 15,
        "class:more_than_100000_points": 1, "class:more_than_100000_points:rule:variance": 1,
        "eval:variance_convention_consistent": 300, "blocks_judged_in_calls_with_more_than_100000_points": 1300,
        "single_member_blocks_in_calls_with_more_than_100000_points": 85, "v2w_class:list_of_rows_as_list(2-D)": 20,
        "v2w_class:list_of_rows_as_array(2-D)": 23, "v2w_class:list_of_rows_as_list(3-D)": 4, "v2w_class:container:list": 110,
        "class:weights_exactly_0_in_all_components_on_some_points": 21,
        "class:zero_weight_point_on_the_bounding_box:region_inferred": 13,
        "class:zero_weight_point_on_the_bounding_box:region_given": 5,
        "zero_weight_border_calls:points_on_the_box_with_weight_0": 86, "zero_weight_border_calls:uncertainty=True": 8,
        "zero_weight_border_calls:uncertainty=False": 10, "eval:constructor_parameters_as_documented": 710,
        "eval:defaults_equal_documented_defaults_spelled_out": 48, "defaulted_argument:BlockMean.filter.weights": 4,
        "defaulted_argument:BlockMean.__init__.adjust": 490, "defaulted_argument:BlockMean.__init__.center_coordinates": 290,
        "defaulted_argument:BlockMean.__init__.drop_coords": 410, "defaulted_argument:BlockMean.__init__.region": 290,
        "defaulted_argument:BlockMean.__init__.uncertainty": 350, "defaulted_argument:variance_to_weights.tol": 1600,
        "defaulted_argument:variance_to_weights.dtype": 1900, "class:weight_exactly_0_in_some_but_not_all_components": 21,
        "class:weight_exactly_0_in_some_but_not_all_components:2_components": 10,
        "class:weight_exactly_0_in_some_but_not_all_components:3_components": 8,
        "zero_weight_per_component_calls:uncertainty=True": 8, "zero_weight_per_component_calls:uncertainty=False": 9,
    },
    "thorough": {
        "eval:blockmean_returns": 11600, "eval:blockmean_layout": 11600, "eval:labels_vs_reference_geometry": 11600,
        "eval:params_unchanged_by_filter": 11800, "eval:block_mean_value": 178000, "eval:block_coordinate": 241900,
        "eval:block_weight_rule": 19500, "eval:block_weight_range": 19900, "eval:blockmean_inputs_unmodified": 11800,
        "eval:uncertainty_without_weights_rejected": 180, "eval:v2w_values": 33000, "eval:v2w_input_unmodified": 31300,
        "eval:v2w_returns": 31300, "eval:series_backing_store_unmodified": 240, "distinct_nontrivial": 22400,
        "class:rule:variance": 3900, "class:rule:uncertainty": 3600, "class:rule:weighted_variance": 3900,
        "v2w_class:readonly": 15900, "v2w_class:has_nan": 7000, "class:data_dtype_present:int16": 1200,
        "class:data_dtype_present:int32": 1300, "class:data_dtype_present:int64": 1300, "class:data_dtype_present:float32": 1900,
        "block_weight_rule_judged:data_dtype:int16": 1500, "block_weight_rule_judged:data_dtype:int32": 1700,
        "block_weight_rule_judged:data_dtype:int64": 1600, "block_weight_rule_judged:data_dtype:float32": 1800,
        "class:mixed_data_dtypes:integer_then_float64": 550, "class:mixed_data_dtypes:float64_then_integer": 500,
        "class:mixed_data_dtypes:float32_then_float64": 400, "class:mixed_data_dtypes:float64_then_float32": 380,
        "class:weights_dtype_present:int32": 1100, "class:weights_dtype_present:int64": 1200, "class:history:reuse_calls": 1600,
        "class:history:reuse_calls:region_none": 1200, "class:history:reuse_calls:region_given": 390,
        "class:history:reuse_calls:rule_variance": 560, "class:history:reuse_calls:rule_uncertainty": 520,
        "class:history:reuse_calls:rule_weighted_variance": 530, "class:history:inplace_calls": 860,
        "class:history:inplace_calls:region_none": 640, "class:history:clone_after_filter_calls": 480,
        "class:reconfigured_calls": 720, "class:reconfigured:how:set_params": 220,
        "class:reconfigured:how:attribute_assignment": 240, "class:reconfigured:how:clone_then_set_params": 220,
        "class:reconfigured:used_before": 350, "class:reconfigured:never_used_before": 350,
        "class:reconfigured:uncertainty_False_to_True_with_weights": 230,
        "class:reconfigured:uncertainty_True_to_False_with_weights": 160,
        "class:reconfigured:rejected_without_weights_after_switching_uncertainty_on": 93,
        "class:reconfigured:rule_in_force:uncertainty": 350, "class:reconfigured:rule_in_force:weighted_variance": 250,
        "class:reconfigured:param:uncertainty": 460, "class:reconfigured:param:spacing": 200,
        "class:reconfigured:param:shape_vs_spacing": 190, "class:reconfigured:param:region": 200,
        "class:reconfigured:param:adjust": 200, "class:reconfigured:param:center_coordinates": 200,
        "class:reconfigured:param:drop_coords": 200, "class:spelling_group:spacing:scalar_as_python_int": 110,
        "class:spelling_group:spacing:scalar_as_numpy_integer": 100,
        "class:spelling_group:spacing:scalar_as_numpy_floating": 110, "class:spelling_group:spacing:scalar_as_0d_array": 100,
        "class:spelling_group:spacing:as_list": 96, "class:spelling_group:spacing:as_ndarray": 130,
        "class:spelling_group:spacing:elements_integers": 230, "class:spelling_group:shape:as_list": 62,
        "class:spelling_group:shape:as_ndarray": 140, "class:spelling_group:shape:elements_numpy_scalars": 69,
        "class:spelling_group:region:as_tuple": 1800, "class:spelling_group:region:as_ndarray": 230,
        "class:spelling_group:region:elements_integers": 390, "class:spelling_group:flag_as_int=True": 530,
        "class:spelling_group:flag_as_int=False": 760, "class:spelling_group:flag_as_numpy_bool=True": 520,
        "class:spelling_group:flag_as_numpy_bool=False": 730, "class:falsy:extra_coordinate_exactly_0_everywhere": 500,
        "class:falsy:weights_exactly_1": 330, "class:large_offset_data(|mean|>1e4*spread):rule:variance": 210,
        "class:large_offset_data(|mean|>1e4*spread):rule:uncertainty": 180,
        "class:large_offset_data(|mean|>1e4*spread):rule:weighted_variance": 210,
        "block_weight_rule_judged:large_offset_data:rule:variance": 350,
        "block_weight_rule_judged:large_offset_data:rule:uncertainty": 300,
        "block_weight_rule_judged:large_offset_data:rule:weighted_variance": 360, "v2w_class:all_variances_exactly_0": 2200,
        "v2w_class:bare_scalar:float": 310, "v2w_class:bare_scalar:int": 150, "v2w_class:bare_scalar:np.float64": 150,
        "v2w_class:tol_spelled_as:int": 600, "v2w_class:tol_spelled_as:np.int64": 590,
        "v2w_class:tol_spelled_as:np.float32": 1000, "v2w_class:tol_spelled_as:np.float64": 1600,
        "v2w_class:tol_spelled_as:ndarray0d(float64)": 1600, "v2w_class:dtype_spelled_as:type:float32": 300,
        "v2w_class:dtype_spelled_as:np.dtype(float32)": 310, "v2w_class:dtype_spelled_as:'float32'": 310,
        "v2w_class:dtype_spelled_as:type:float": 250, "class:more_than_100000_points": 6,
        "class:more_than_100000_points:rule:variance": 3, "eval:variance_convention_consistent": 4800,
        "blocks_judged_in_calls_with_more_than_100000_points": 36500,
        "single_member_blocks_in_calls_with_more_than_100000_points": 12500, "v2w_class:list_of_rows_as_list(2-D)": 380,
        "v2w_class:list_of_rows_as_array(2-D)": 420, "v2w_class:list_of_rows_as_list(3-D)": 120,
        "v2w_class:container:list": 1900, "class:weights_exactly_0_in_all_components_on_some_points": 320,
        "class:zero_weight_point_on_the_bounding_box:region_inferred": 240,
        "class:zero_weight_point_on_the_bounding_box:region_given": 81,
        "zero_weight_border_calls:points_on_the_box_with_weight_0": 1200, "zero_weight_border_calls:uncertainty=True": 160,
        "zero_weight_border_calls:uncertainty=False": 160, "eval:constructor_parameters_as_documented": 10500,
        "eval:defaults_equal_documented_defaults_spelled_out": 570, "defaulted_argument:BlockMean.filter.weights": 68,
        "defaulted_argument:BlockMean.__init__.adjust": 7200, "defaulted_argument:BlockMean.__init__.center_coordinates": 4300,
        "defaulted_argument:BlockMean.__init__.drop_coords": 6000, "defaulted_argument:BlockMean.__init__.region": 4400,
        "defaulted_argument:BlockMean.__init__.uncertainty": 5200, "defaulted_argument:variance_to_weights.tol": 25000,
        "defaulted_argument:variance_to_weights.dtype": 29400, "class:weight_exactly_0_in_some_but_not_all_components": 310,
        "class:weight_exactly_0_in_some_but_not_all_components:2_components": 160,
        "class:weight_exactly_0_in_some_but_not_all_components:3_components": 150,
        "zero_weight_per_component_calls:uncertainty=True": 160, "zero_weight_per_component_calls:uncertainty=False": 160,
    },
}
JOBS = {"quick": 1, "thorough": 16}
CASE_TIMEOUT_S = 120
CALLS_PER_CASE = 6
DEFAULT_TOL = 1e-15
EPS = blk.EPS


def plan(tier):
    if tier == "quick":
        return collections.OrderedDict(blockmean=105, plateau=26, series=30, reject=8, nested=6, v2w=45, v2w_nested_readonly=8, reuse=20, inplace=12, reconfigure=30, spellings=36, large_offset=18, zero_weights=18, defaults=5, large=2)
    return collections.OrderedDict(blockmean=1580, plateau=390, series=450, reject=60, nested=80, v2w=680, v2w_nested_readonly=60, reuse=300, inplace=180, reconfigure=450, spellings=540, large_offset=270, zero_weights=270, defaults=60, large=16)


# ----------------------------------------------------------------------
# reference: variance -> weights
# ----------------------------------------------------------------------
def ref_v2w(var, tol):
    """min{v > tol}/v ; 1 for NaN and for v <= tol. float64 in, float64 out."""
    var = np.asarray(var, dtype="float64")
    out = np.ones(var.shape, dtype="float64")
    with np.errstate(invalid="ignore"):
        big = var > tol  # False for NaN
    if big.any():
        out[big] = var[big].min() / var[big]
    return out


def _judge_v2w_array(var_in, out, tol, dtype):
    """One array of a variance_to_weights call. Returns (problem or None, status, worst error/tolerance)."""
    try:
        a = np.asarray(var_in)
        a64 = np.array(a, dtype="float64")
    except (TypeError, ValueError):
        return None, "skipped:not_numeric", 0.0
    want_shape = np.atleast_1d(a64).shape
    if not isinstance(out, np.ndarray):
        return "result is a %s, not an array" % type(out).__name__, "judged", 0.0
    if out.shape != want_shape and not (a64.ndim == 0 and out.shape == ()):
        return "weights have shape %s, the variances %s" % (out.shape, want_shape), "judged", 0.0
    if out.dtype != np.dtype(dtype):
        return "weights have dtype %s, requested %s" % (out.dtype, np.dtype(dtype)), "judged", 0.0
    a64 = np.atleast_1d(a64)
    if np.isinf(a64).any():
        return None, "skipped:infinite_variance", 0.0
    tol = float(tol)
    eps_in = float(np.finfo(a.dtype).eps) if a.dtype.kind == "f" else EPS
    margin = max(1e-9, 4 * eps_in) * abs(tol)
    with np.errstate(invalid="ignore"):
        near = (np.abs(a64 - tol) <= margin) & (a64 != tol)
    if eps_in > EPS:  # a narrower float compares with tol rounded to its own precision
        with np.errstate(invalid="ignore"):
            near = np.abs(a64 - tol) <= margin
    if near.any():
        return None, "either_way:variance_within_1e-9_of_tol", 0.0
    want = ref_v2w(a64, tol)
    rel = 4 * max(eps_in, float(np.finfo(np.dtype(dtype)).eps) if np.dtype(dtype).kind == "f" else EPS)
    # results below the smallest normal number of the narrowest float involved underflow (gradually or to zero)
    floats = [np.dtype(t) for t in (a.dtype, np.dtype(dtype)) if np.dtype(t).kind == "f"]
    underflow = max([float(np.finfo(t).tiny) for t in floats] + [blk.TINY])
    bound = rel * want + underflow
    got = np.asarray(out, dtype="float64").reshape(want.shape)
    err = np.abs(got - want)
    bad = ~(err <= bound)
    worst = float(np.max(np.where(bad, 0.0, err / bound))) if err.size else 0.0
    if bad.any():
        k = int(np.flatnonzero(bad.ravel())[0])
        v = a64.ravel()[k]
        why = "NaN" if np.isnan(v) else ("<= tol" if v <= tol else "> tol")
        return ("weight[%d] = %.17g for variance %.17g (%s, tol=%g): expected %.17g (min positive variance %s)"
                % (k, got.ravel()[k], v, why, tol, want.ravel()[k],
                   ("%.17g" % a64[a64 > tol].min()) if (a64 > tol).any() else "none")), "judged", worst
    return None, "judged", worst


# ----------------------------------------------------------------------
# reference: block weights
# ----------------------------------------------------------------------
def _block_statistics(d, w, members):
    """(n, mean, sum of squared deviations about the (weighted) mean, sum of weights, max|d|, all members equal)."""
    v = d[members]
    n = v.size
    if w is None:
        m = math.fsum(v.tolist()) / n
        ss = math.fsum(((v - m) ** 2).tolist())
        sw = float(n)
    else:
        ww = w[members]
        sw = math.fsum(ww.tolist())
        m = math.fsum((v * ww).tolist()) / sw
        ss = math.fsum((ww * (v - m) ** 2).tolist())
        # members with weight exactly 0 do not take part: a block whose positive-weight members are all equal has variance 0
        live = v[ww > 0]
        if live.size:
            return n, m, ss, sw, float(np.max(np.abs(v))), bool(live.min() == live.max())
    return n, m, ss, sw, float(np.max(np.abs(v))), bool(v.min() == v.max())


def _expected_from_variances(variances, bounds, constant, noise, eps_out=EPS):
    """
    Weights of the variance rules for one component under one convention, or a skip reason.
    ``variances`` may hold NaN (ddof=1, one member); ``bounds`` = absolute error bounds; ``constant`` = all members equal
    (true variance 0; ``noise`` bounds what a computed mean that is off by n*eps can leave behind).
    Returns (expected, relative tolerance per block) or (None, reason).
    """
    variances = np.asarray(variances, dtype="float64")
    bounds = np.asarray(bounds, dtype="float64")
    constant = np.asarray(constant, dtype=bool) | np.isnan(variances)
    decided_zero = constant & ((noise < DEFAULT_TOL / 4) | np.isnan(variances))
    if np.any(constant & ~decided_zero):
        return None, "skipped:constant_block_whose_rounding_noise_may_exceed_the_cutoff"
    live = ~constant
    undecided = live & (np.abs(variances - DEFAULT_TOL) <= bounds + 1e-9 * DEFAULT_TOL)
    if undecided.any():
        return None, "skipped:block_variance_within_error_of_the_1e-15_cutoff"
    clean = np.where(constant, 0.0, variances)
    want = ref_v2w(clean, DEFAULT_TOL)
    positive = clean > DEFAULT_TOL
    rel = np.zeros(clean.shape)
    if positive.any():
        relv = np.where(positive, bounds / np.where(positive, clean, 1.0), 0.0)
        # the smallest positive variance may be any block whose variance is within its error of the minimum
        vmin = clean[positive].min()
        rel_min = float(np.max(relv[positive & (clean <= vmin * (1 + 2 * np.max(relv[positive])))]))
        rel = np.where(positive, 16 * eps_out + 2 * (relv + rel_min), 0.0)
    return (want, rel), None


def _judge_block_weights(call, comp, observed, rule):
    """
    Decide the weights of one component. Returns dict(status=..., problem=..., convention=..., worst=...).
    """
    d = call.data[comp]
    w = None if rule == "variance" else call.weights[comp]
    stats = [_block_statistics(d, w, members) for _, members in call.groups]
    eps = call.data_eps[comp]  # float64 unless this component's data (or weights) were handed over as float32
    narrow = eps > EPS
    nmem = np.array([s[0] for s in stats])
    got = np.asarray(observed, dtype="float64")
    out = {"status": "judged", "problem": None, "convention": None, "worst": 0.0, "expected": None, "informative": False}
    if rule == "uncertainty":
        sums = np.array([s[3] for s in stats])
        if sums.max() > 1e14 or sums.min() <= 0:
            out["status"] = "skipped:sum_of_weights_out_of_range"
            return out
        want = sums / sums.max()
        rel = np.full(want.shape, 64 * eps * (call.npoints + 1))
        candidates = [("sum_of_weights", want, rel)]
        big = sums[nmem >= 2]
        out["informative"] = big.size >= 2 and big.min() != big.max()
    else:
        ss = np.array([s[2] for s in stats])
        maxabs = np.array([s[4] for s in stats])
        const = np.array([s[5] for s in stats])
        # error bound of a block variance: the variance is shift invariant, so its condition number with respect to the data is
        # max|d|/sigma (not its square): 64*eps*n*(max|d|*sigma + sigma^2). A one-pass "mean of squares minus squared mean"
        # loses max|d|^2*eps and is outside this bound as soon as the mean dominates the spread.
        sigma = np.sqrt(np.maximum(ss / np.maximum(nmem if rule == "variance" else np.array([s[3] for s in stats]), blk.TINY), 0.0))
        bounds = 64 * eps * nmem * (maxabs * sigma + sigma ** 2) + blk.TINY
        # an unweighted single member deviates from its own mean (x/1) by exactly zero in any arithmetic; a weighted one
        # does not (x*w/w may be one ulp off x), and squared that ulp exceeds the absolute 1e-15 cutoff for |x| > ~1e8
        noise = 4 * (nmem * eps * maxabs) ** 2
        if rule == "variance":
            noise = np.where(nmem == 1, 0.0, noise)
        candidates = []
        reasons = []
        if rule == "variance":
            with np.errstate(invalid="ignore", divide="ignore"):
                conventions = [("ddof0", ss / nmem), ("ddof1", np.where(nmem > 1, ss / np.maximum(nmem - 1, 1), np.nan))]
        else:
            sw = np.array([s[3] for s in stats])
            conventions = [("weighted_variance", ss / sw)]
        for name, variances in conventions:
            res, reason = _expected_from_variances(variances, bounds, const, noise, eps)
            if res is None:
                reasons.append(reason)
            else:
                candidates.append((name, res[0], res[1]))
        if not candidates:
            out["status"] = reasons[0]
            return out
        base = np.where(const, 0.0, conventions[0][1])
        big = base[(nmem >= 2) & (base > DEFAULT_TOL)]
        out["informative"] = big.size >= 2 and big.min() != big.max()
    # float32 operands: the bound is built on the float32 epsilon, so "uninformative" starts later (2e-2 instead of 1e-3)
    if max(float(np.max(rel)) for _, _, rel in candidates) > (2e-2 if narrow else 1e-3):
        out["status"] = "skipped:ill_conditioned_variance(float32 operand, tolerance>2e-2)" if narrow else "skipped:ill_conditioned_variance(tolerance>1e-3)"
        return out
    matched, ratios = [], []
    for name, want, rel in candidates:
        bound = rel * want + blk.TINY
        err = np.abs(got - want)
        if np.all(err <= bound):
            matched.append(name)
            ratios.append(float(np.max(err / bound)))
    if ratios:
        out["worst"] = min(ratios)  # error relative to tolerance under the convention that explains the result best
    out["expected"] = {name: want for name, want, _ in candidates}
    if matched:
        out["convention"] = "+".join(matched)
    else:
        name, want, rel = candidates[0]
        k = int(np.argmax(np.abs(got - want) - (rel * want + blk.TINY)))
        label, members = call.groups[k]
        out["problem"] = ("weight of entry %d (block %d, %d members) is %.17g; rule '%s' gives %.17g%s"
                          % (k, label, members.size, got[k], name, want[k],
                             "" if len(candidates) == 1 else " and no single ddof convention explains all %d blocks" % got.size))
        out["entry"] = k
    return out


# ----------------------------------------------------------------------
# monitors
# ----------------------------------------------------------------------
def install(tap, run):
    import verde
    import verde.coordinates as vc
    import verde.utils as vu

    # ---- variance_to_weights ------------------------------------------
    def pre_v2w(ev):
        return core.digest(ev.args["variance"])

    def post_v2w(ev):
        a = ev.args
        variance, tol, dtype = a["variance"], a["tol"], a["dtype"]
        nested = ev.parent is not None
        arrays = list(variance) if isinstance(variance, tuple) else [variance]
        tag = "nested" if nested else "direct"
        run.count("v2w_calls:" + tag)
        classes = set()
        for arr in arrays:
            kind = blk.container_kind(arr)
            classes.add("container:" + kind)
            if isinstance(arr, np.ndarray) and not arr.flags.writeable:
                classes.add("readonly")
            try:
                a64 = np.atleast_1d(np.array(np.asarray(arr), dtype="float64"))
            except (TypeError, ValueError):
                continue
            if np.isnan(a64).any():
                classes.add("has_nan")
            if (a64 == 0).any():
                classes.add("has_zero")
            with np.errstate(invalid="ignore"):
                if ((a64 > 0) & (a64 <= float(tol))).any():
                    classes.add("has_positive_at_or_below_tol")
                if (a64 == float(tol)).any():
                    classes.add("has_value_equal_to_tol")
                if (a64 < 0).any():
                    classes.add("has_negative")
            if a64.ndim > 1:
                classes.add("2d")
            if np.asarray(arr).dtype != np.dtype("float64"):
                classes.add("input_dtype:" + str(np.asarray(arr).dtype))
        if isinstance(variance, tuple):
            classes.add("tuple_of_%d" % len(variance))
        if type(tol) is not float:
            classes.add("tol_spelled_as:" + blk.describe(tol))
        if not (isinstance(dtype, str) and dtype == "float64"):
            classes.add("dtype_spelled_as:" + (repr(dtype) if isinstance(dtype, str) else blk.describe(dtype) if not isinstance(dtype, np.dtype) else "np.dtype(%s)" % dtype))
        for arr in arrays:
            if isinstance(arr, (int, float, np.generic)):
                classes.add("bare_scalar:" + blk.describe(arr))
            if isinstance(arr, list) and arr and isinstance(arr[0], (list, np.ndarray)):
                kinds = set("array" if isinstance(row, np.ndarray) else "list" for row in arr)
                classes.add("list_of_%s(%d-D)" % ("rows_as_" + "_and_".join(sorted(kinds)), np.ndim(np.asarray(arr))))
            try:
                flat = np.atleast_1d(np.array(np.asarray(arr), dtype="float64"))
                if flat.size and not np.any(flat != 0):
                    classes.add("all_variances_exactly_0")
            except (TypeError, ValueError):
                pass
        if float(tol) != DEFAULT_TOL:
            classes.add("custom_tol")
        if np.dtype(dtype) != np.dtype("float64"):
            classes.add("dtype:" + str(np.dtype(dtype)))
        for cls in classes:
            run.count("v2w_class:" + cls)
        witness = {"variance": variance, "tol": tol, "dtype": str(dtype), "nested_in": ev.parent.name if nested else None}

        # purity: judged on return and on raise
        run.evaluated("v2w_input_unmodified")
        if core.digest(variance) != ev.pre:
            run.violation("v2w_input_unmodified", "variance_to_weights changed its input array (values, dtype, shape or write flag)",
                          dict(witness, variance_after=variance), key="v2w:input_modified")
        run.evaluated("v2w_returns")
        if ev.exc is not None:
            run.violation("v2w_returns", "variance_to_weights raised %s: %s" % (type(ev.exc).__name__, ev.exc), witness,
                          key="v2w:raised:" + type(ev.exc).__name__)
            return
        result = ev.result
        if isinstance(variance, tuple) and len(variance) > 1:
            if not isinstance(result, tuple) or len(result) != len(variance):
                run.evaluated("v2w_values")
                run.violation("v2w_values", "a tuple of %d variance arrays did not give a tuple of %d weight arrays" % (len(variance), len(variance)),
                              dict(witness, result=result), key="v2w:tuple")
                return
            outs = list(result)
        else:
            outs = [result[0] if isinstance(result, tuple) and len(result) == 1 else result]
        nontrivial = False
        for k, (arr, out) in enumerate(zip(arrays, outs)):
            problem, status, worst = _judge_v2w_array(arr, out, tol, dtype)
            if status != "judged":
                run.count("v2w_" + status)
                continue
            run.evaluated("v2w_values")
            run.observe_max("v2w_error_over_tolerance", worst)
            if problem:
                run.violation("v2w_values", "array %d: %s" % (k, problem), dict(witness, result=result), key="v2w:values:" + problem.split(" ")[0][:12])
                continue
            a64 = np.atleast_1d(np.array(np.asarray(arr), dtype="float64"))
            with np.errstate(invalid="ignore"):
                above = a64[a64 > float(tol)]
                special = np.isnan(a64).any() or (a64 <= float(tol)).any()
            if np.unique(above).size >= 2 and special:
                nontrivial = True
        if nontrivial:
            run.mark_nontrivial("v2w", [np.asarray(x) for x in arrays], float(tol), str(dtype))

    # ---- BlockMean.filter ---------------------------------------------
    def pre_filter(ev):
        a = ev.args
        return {"digest": core.digest([list(a["coordinates"]) if isinstance(a["coordinates"], (tuple, list)) else a["coordinates"], a["data"], a["weights"]]),
                "params": blk.snapshot_params(a["self"])}

    conventions_seen = {}  # convention that alone explains a result -> description of the first call that showed it

    def convention_observed(convention, call, witness):
        """
        ddof=0 or ddof=1 is accepted, but it has to be ONE convention for the whole run: a result that only the sample variance
        explains next to results that only the population variance explains (e.g. above a size threshold) is a refutation.
        """
        run.evaluated("variance_convention_consistent")
        here = "%d points in %d occupied blocks" % (call.npoints, len(call.groups))
        conventions_seen.setdefault(convention, here)
        other = "ddof1" if convention == "ddof0" else "ddof0"
        if other in conventions_seen:
            run.violation("variance_convention_consistent",
                          "this result (%s) is explained only by %s, an earlier one of the same run (%s) only by %s: the unweighted block "
                          "variance does not follow one convention" % (here, convention, conventions_seen[other], other),
                          witness(convention_here=convention, convention_before=other), key="convention:" + convention + "-after-" + other)

    def post_filter(ev):
        a = ev.args
        est = a["self"]
        wts = blk.as_tuple(a["weights"])
        weighted = wts is not None and not any(w is None for w in wts)
        params = ev.pre["params"]
        cfg = blk.types.SimpleNamespace(**params)  # the configuration the call was handed (before the call)
        uncertainty = bool(cfg.uncertainty)
        run.evaluated("params_unchanged_by_filter")
        changed = blk.params_changed(params, est)
        if changed:
            run.violation("params_unchanged_by_filter", "BlockMean.filter rewrote constructor parameter(s) %s" % changed,
                          {"before": {k: (getattr(v, "__name__", repr(v)) if callable(v) else v) for k, v in params.items()},
                           "after": {k: (getattr(v, "__name__", repr(v)) if callable(v) else v) for k, v in est.get_params(deep=False).items()}},
                          key="params:" + ",".join(changed))
        est = cfg
        witness_in = {"coordinates": list(a["coordinates"]), "data": a["data"], "weights": a["weights"],
                      "config": {"spacing": est.spacing, "shape": est.shape, "region": est.region, "adjust": est.adjust,
                                 "center_coordinates": est.center_coordinates, "drop_coords": est.drop_coords, "uncertainty": uncertainty}}
        # purity first: it holds for returns and raises alike
        run.evaluated("blockmean_inputs_unmodified")
        after = core.digest([list(a["coordinates"]) if isinstance(a["coordinates"], (tuple, list)) else a["coordinates"], a["data"], a["weights"]])
        if after != ev.pre["digest"]:
            run.violation("blockmean_inputs_unmodified", "BlockMean.filter changed one of its input arrays", witness_in, key="filter:input_modified")

        if uncertainty and not weighted:
            run.evaluated("uncertainty_without_weights_rejected")
            if ev.exc is None:
                run.violation("uncertainty_without_weights_rejected",
                              "BlockMean(uncertainty=True).filter without weights returned normally instead of rejecting the call",
                              dict(witness_in, result=ev.result), key="filter:uncertainty_not_rejected")
            elif not isinstance(ev.exc, ValueError):
                run.count("rejected_with:" + type(ev.exc).__name__)
            return
        run.evaluated("blockmean_returns")
        if ev.exc is not None:
            run.violation("blockmean_returns", "BlockMean.filter raised %s: %s for valid input (%s)" % (
                type(ev.exc).__name__, str(ev.exc)[:300], "weights given, uncertainty=%s" % uncertainty if weighted else "no weights"),
                witness_in, key="filter:raised:" + type(ev.exc).__name__)
            return

        call = blk.Call(ev, params)
        rule = "variance" if not weighted else ("uncertainty" if uncertainty else "weighted_variance")
        run.count("class:rule:" + rule)
        if call.npoints > 100000:
            run.count("class:more_than_100000_points:rule:" + rule)
            run.count("blocks_judged_in_calls_with_more_than_100000_points", len(call.groups))
            run.count("single_member_blocks_in_calls_with_more_than_100000_points", sum(1 for _, m in call.groups if m.size == 1))
        for cls in call.classes():
            run.count("class:" + cls)
        witness = call.witness
        if call.label_source is None:
            run.count("skipped:no_block_split_event_and_points_on_edges")
            return
        run.evaluated("labels_vs_reference_geometry")
        run.count("points_labelled_strictly_inside_a_block", call.n_sure)
        run.count("either_way:points_within_1e-9_of_a_block_edge", call.n_either)
        if call.problem:
            run.violation("labels_vs_reference_geometry", call.problem, witness(), key="labels")
            return
        sizes = [m.size for _, m in call.groups]
        run.observe_max("largest_block_members", max(sizes))
        run.count("blocks_with_1_member", sum(1 for s in sizes if s == 1))
        run.count("blocks_with_2_to_9_members", sum(1 for s in sizes if 2 <= s <= 9))
        run.count("blocks_with_10_or_more_members", sum(1 for s in sizes if s >= 10))
        run.count("constant_blocks_with_2_or_more_members(zero variance)",
                  sum(1 for _, m in call.groups if m.size >= 2 and call.data[0][m].min() == call.data[0][m].max()))

        result = ev.result
        run.evaluated("blockmean_layout")
        if not isinstance(result, tuple) or len(result) != 3:
            run.violation("blockmean_layout", "filter did not return (coordinates, mean, weights)", witness(result=repr(result)[:400]), key="layout:tuple")
            return
        out_coords, out_mean, out_weights = result
        problem, comps = blk.check_layout(call, out_coords, [("mean", out_mean), ("weights", out_weights)], "BlockMean.filter")
        if problem:
            run.violation("blockmean_layout", problem, witness(result=result), key="layout:entries")
            return
        means, bweights = comps

        failures, judged, _, worst = blk.check_block_values(call, means, blk.ref_average, True)
        run.evaluated("block_mean_value", judged)
        run.observe_max("block_mean_error_over_tolerance", worst)
        if failures:
            f = failures[0]
            run.violation("block_mean_value", "component %d of entry %d (block %d, %d members) is %.17g, the %smean of its members is %.17g (tolerance %.3g)"
                          % (f["component"], f["entry"], f["block_label"], len(f["members"]), f["observed"], "weighted " if weighted else "",
                             f["expected"], f["tolerance"]), witness(failure=f, result=result), key="mean:" + rule)
        failures, judged, worst = blk.check_block_coordinates(call, out_coords, blk.ref_mean)
        run.evaluated("block_coordinate", judged)
        run.observe_max("block_coordinate_error_over_tolerance", worst)
        if failures:
            f = failures[0]
            run.violation("block_coordinate", "coordinate %d of entry %d (block %d) is %.17g, expected the %s = %.17g (tolerance %.3g)"
                          % (f["coordinate"], f["entry"], f["block_label"], f["observed"], f["kind"], f["expected"], f["tolerance"]),
                          witness(failure=f, result=result), key="coordinate")

        informative = False
        offsets = []
        for c in range(call.ncomp):
            spread = float(np.std(call.data[c]))
            offsets.append(call.npoints > 1 and spread > 0 and abs(float(np.mean(call.data[c]))) > 1e4 * spread)
        if any(offsets):
            run.count("class:large_offset_data(|mean|>1e4*spread):rule:" + rule)
        for c in range(call.ncomp):
            got = bweights[c]
            run.evaluated("block_weight_range")
            if not (np.all(got > 0) and np.all(got <= 1) and np.any(got == 1)):
                run.violation("block_weight_range", "weights of component %d are not all in (0, 1] with at least one equal to 1: min %.17g max %.17g"
                              % (c, float(np.min(got)), float(np.max(got))), witness(result=result, rule=rule), key="weights:range:" + rule)
            verdict = _judge_block_weights(call, c, got, rule)
            if verdict["status"] != "judged":
                run.count(verdict["status"])
                if offsets[c]:
                    run.count("skipped:large_offset_component:" + verdict["status"].split(":", 1)[1][:40])
                continue
            run.evaluated("block_weight_rule")
            run.count("block_weight_rule_judged:data_dtype:" + call.data_dtypes[c])
            if offsets[c]:
                run.count("block_weight_rule_judged:large_offset_data:rule:" + rule)
            run.count("block_weights_judged", got.size)
            informative = informative or verdict["informative"]
            if verdict["problem"]:
                run.violation("block_weight_rule", "component %d: %s" % (c, verdict["problem"]),
                              witness(result=result, rule=rule, expected_weights=verdict["expected"], entry=verdict.get("entry")),
                              key="weights:rule:" + rule)
            else:
                run.observe_max("block_weight_error_over_tolerance:" + rule, verdict["worst"])
                kind = "monitor_comparison:" + rule
                if verdict["informative"] and kind not in run.sample_keys:
                    run.sample(kind, {"config": witness()["config"], "labels_from": call.label_source, "component": c,
                                      "occupied_block_labels": [lab for lab, _ in call.groups],
                                      "members_per_block": [int(m.size) for _, m in call.groups],
                                      "mean_observed": means[c], "weights_observed": got, "weights_reference": verdict["expected"],
                                      "rule_or_convention_that_explains_all_blocks": verdict["convention"]})
                if rule == "variance" and verdict["convention"] in ("ddof0", "ddof1"):
                    convention_observed(verdict["convention"], call, witness)
                    if call.npoints > 100000:
                        run.count("variance_convention_decided_on_more_than_100000_points:" + verdict["convention"])
                if rule == "variance":
                    run.count("variance_convention:" + ("undecidable(ddof0 and ddof1 agree)" if "+" in verdict["convention"] else verdict["convention"]))
        if informative:
            run.mark_nontrivial("blockmean", [np.asarray(x) for x in call.raw_coordinates], call.data, call.weights, rule,
                                repr((est.spacing, est.shape, est.region, est.adjust, est.center_coordinates, est.drop_coords)))

    def post_init(ev):
        blk.judge_constructor(run, ev, "BlockMean.__init__")

    # arguments the caller leaves out are judged with the DOCUMENTED defaults, not with the signature of the tree under test
    tap.function(vc, "block_split", documented=blk.BLOCK_SPLIT_DEFAULTS)  # recorded only: the filter monitor reads the nested event
    tap.function(vu, "variance_to_weights", pre=pre_v2w, post=post_v2w, documented=blk.V2W_DEFAULTS)
    tap.method(verde.BlockMean, "__init__", post=post_init, documented=blk.INIT_DEFAULTS)
    tap.method(verde.BlockMean, "filter", pre=pre_filter, post=post_filter, documented=blk.FILTER_DEFAULTS)


# ----------------------------------------------------------------------
# workload
# ----------------------------------------------------------------------
def _weights(rng, size, ncomp):
    weights = [blk.integer_weights(rng, size) if rng.random() < 0.2 else 10 ** rng.uniform(-3, 3, size) for _ in range(ncomp)]
    if rng.random() < 0.15:  # the same uncertainty everywhere in one component
        weights[0] = np.full(size, 10 ** rng.uniform(-3, 3))
    return weights


def _large_offset_fields(rng, east, ncomp):
    """mean >> spread (1e4 .. 2e6 spreads, |values| <= ~2e7), spreads differing from place to place; float64 or wide integers."""
    out = []
    for _ in range(ncomp):
        spread = 10 ** rng.uniform(0.5, 1.0)
        offset = spread * 10 ** rng.uniform(4.0, 6.3) * rng.choice([-1.0, 1.0])
        local = 10 ** (rng.uniform(0.3, 1.0) * (east - east.min()) / (np.ptp(east) or 1.0))
        d = offset + spread * local * rng.normal(size=east.size)
        if rng.random() < 0.25:
            d = np.round(d).astype(str(rng.choice(["int32", "int64"])))
        out.append(d)
    return out


def _fields(rng, east, north, ncomp, plateau=False, dtypes=None):
    out = []
    amplitude = gen.log_uniform(rng, 1e-3, 1e3 if plateau else 1e6)
    for k in range(ncomp):
        pick = rng.random()
        if pick < 0.5:
            d = gen.smooth_field(rng, east, north, amplitude=amplitude * rng.uniform(0.2, 5))
        elif pick < 0.85:
            d = amplitude * (rng.normal(size=east.size) * 10 ** rng.uniform(-2, 0) + rng.choice([0.0, 1.0, 5.0]))
        else:  # very different spreads from place to place
            d = amplitude * rng.normal(size=east.size) * 10 ** (3 * (east - east.min()) / (np.ptp(east) or 1.0) - 2)
        if plateau:
            step = amplitude * rng.choice([0.5, 2.0, 10.0])
            d = np.round(d / step) * step  # many equal values: constant (zero-variance) blocks
        if dtypes is not None:
            if dtypes[k] == "float32" and rng.random() < 0.7:
                # float32 operands put the float32 epsilon into the variance bound: keep those fields well conditioned
                d = amplitude * rng.normal(size=east.size)
            d = blk.retype(rng, d, dtypes[k])
        out.append(d)
    return out


def _one_call(run, rng, verde, layout=None, rule=None, plateau=False, npoints=None, spelled=False, large_offset=False):
    if npoints is None:
        npoints = int(rng.choice([1, 2, 4, 8, 14, 22, 35, 60, 100, 150], p=[.02, .03, .06, .1, .15, .2, .18, .14, .08, .04]))
    if spelled:  # integral spacings / region bounds, so that every argument can also be spelled with integers
        east, north, kwargs = blk.integer_friendly(rng)
    else:
        east, north = blk.make_points(rng, n=npoints)
        kwargs = blk.make_blocks(rng, east, north, want_empty=rng.random() < 0.3)
    if rng.random() < 0.08:
        east, north = blk.snap_to_edges(rng, east, north, kwargs, fraction=0.3)
    ncomp = int(rng.choice([1, 2, 3], p=[.4, .35, .25]))
    if rule is None:
        rule = str(rng.choice(["variance", "uncertainty", "weighted_variance"]))
    dtypes = blk.choose_dtypes(rng, ncomp)
    if plateau:  # constant blocks of float32 data are undecidable (rounding noise of a float32 mean may exceed the 1e-15 cutoff)
        dtypes = ["float64" if d == "float32" else d for d in dtypes]
    data = _large_offset_fields(rng, east, ncomp) if large_offset else _fields(rng, east, north, ncomp, plateau, dtypes)
    weights = None
    if rule != "variance":
        weights = _weights(rng, east.size, ncomp)
    if rule == "uncertainty":
        kwargs["uncertainty"] = True
    n_extra = int(rng.choice([0, 1, 2], p=[.6, .3, .1]))
    extras = [gen.smooth_field(rng, east, north, amplitude=rng.uniform(1, 1e3)) for _ in range(n_extra)]
    if rng.random() < 0.4:
        kwargs["center_coordinates"] = True
    if n_extra and rng.random() < 0.7:
        kwargs["drop_coords"] = False
    if spelled:
        # falsy-but-valid values: an extra coordinate that is 0 everywhere, weights that are exactly 1
        if rng.random() < 0.4:
            extras = [np.zeros(east.size)] + extras[1:]
            kwargs["drop_coords"] = False
        if weights is not None and rng.random() < 0.4:
            weights[int(rng.integers(0, ncomp))] = np.ones(east.size, dtype=str(rng.choice(["float64", "int64"])))
        kwargs.setdefault("center_coordinates", False)
        kwargs.setdefault("drop_coords", True)
        kwargs.setdefault("uncertainty", False)
        kwargs = blk.respell(rng, kwargs)
    if layout is None:
        layout = str(rng.choice(blk.LAYOUTS))
    coords = blk.wrap_all([east, north] + extras, layout, rng)
    data_in = blk.wrap_all(data, layout, rng)
    data_arg = data_in[0] if (ncomp == 1 and rng.random() < 0.7) else tuple(data_in)
    weights_arg = None
    if weights is not None:
        weights_in = blk.wrap_all(weights, layout, rng)
        weights_arg = weights_in[0] if not isinstance(data_arg, tuple) else tuple(weights_in)
    elif ncomp > 1 and rng.random() < 0.15:
        weights_arg = tuple([None] * ncomp)
    with warnings.catch_warnings():
        warnings.simplefilter("ignore")
        result = verde.BlockMean(**kwargs).filter(tuple(coords), data_arg, weights_arg)
    return {"rule": rule, "kwargs": kwargs, "layout": layout, "easting": east, "northing": north, "data": data, "weights": weights,
            "result_coordinates": result[0], "result_mean": result[1], "result_weights": result[2]}


def _history(run, rng, verde, inplace):
    """
    Several filter calls on ONE BlockMean instance (and on clones taken after a call); each return is judged against its own
    arguments (region=None: the blocks of that call's bounding box) and the constructor parameters must survive every call.
    """
    import sklearn.base

    east, north = blk.make_points(rng, n=int(rng.integers(10, 60)), kind=str(rng.choice(["uniform", "jitter", "clusters"])))
    kwargs = blk.history_blocks(rng, east, north)
    rule = str(rng.choice(["variance", "uncertainty", "weighted_variance"]))
    if rule == "uncertainty":
        kwargs["uncertainty"] = True
    ncomp = int(rng.choice([1, 2]))
    dtypes = blk.choose_dtypes(rng, ncomp)

    def arguments(e, n):
        data = _fields(rng, e, n, ncomp, False, dtypes)
        wts = None if rule == "variance" else _weights(rng, e.size, ncomp)
        return (e, n), (data[0] if ncomp == 1 else tuple(data)), (None if wts is None else (wts[0] if ncomp == 1 else tuple(wts)))

    reducer = verde.BlockMean(**kwargs)
    tag = "inplace" if inplace else "reuse"
    with warnings.catch_warnings():
        warnings.simplefilter("ignore")
        if not inplace:
            first = arguments(east, north)
            reducer.filter(*first)
            second = arguments(*blk.other_cloud(rng, east, north))
            reducer.filter(*second)
            keep = np.sort(rng.permutation(east.size)[: max(1, east.size // 2)])
            reducer.filter(*arguments(east[keep].copy(), north[keep].copy()))
            shifted = arguments(east, north)
            reducer.filter(first[0], shifted[1], shifted[2])
            reducer.filter(*first)
            twin = sklearn.base.clone(reducer)
            twin.filter(*second)
            twin.filter(*first)
            calls = 7
            run.count("class:history:clone_after_filter_calls", 2)
        else:
            coords, data, wts = arguments(east.copy(), north.copy())
            originals = [c.copy() for c in coords]
            reducer.filter(coords, data, wts)
            for step in range(3):  # the very same ndarrays (and tuple), modified in place between the calls
                if step == 0:
                    coords[0][:] = coords[0] * rng.uniform(1.3, 2.5) + (np.ptp(originals[0]) or 1.0) * rng.uniform(-1, 1)
                    coords[1][:] = coords[1] * rng.uniform(0.3, 0.8) - (np.ptp(originals[1]) or 1.0) * rng.uniform(-1, 1)
                elif step == 1:
                    perm = rng.permutation(east.size)
                    for c in coords:
                        c[:] = c[perm]
                else:
                    for c, o in zip(coords, originals):
                        c[:] = o
                fresh = arguments(coords[0], coords[1])
                for target, source in zip(data if isinstance(data, tuple) else (data,), fresh[1] if isinstance(fresh[1], tuple) else (fresh[1],)):
                    target[:] = source
                if wts is not None:
                    for target in (wts if isinstance(wts, tuple) else (wts,)):
                        target[:] = rng.integers(1, 60, target.size) if target.dtype.kind in "iu" else 10 ** rng.uniform(-3, 3, target.size)
                reducer.filter(coords, data, wts)
            calls = 4
    run.count("class:history:%s_calls" % tag, calls)
    run.count("class:history:%s_calls:%s" % (tag, "region_given" if kwargs.get("region") is not None else "region_none"), calls)
    run.count("class:history:%s_calls:rule_%s" % (tag, rule), calls)
    if kwargs["center_coordinates"]:
        run.count("class:history:%s_calls:center_coordinates" % tag, calls)


def _reconfigured(run, rng, verde):
    """
    Built with P1, optionally used, then re-configured to P2 on the same object (set_params / attribute assignment) or on a clone
    (clone().set_params) and used with the weights the rule in force needs: judged with the get_params snapshot taken just before the call.
    """
    east, north = blk.make_points(rng, n=int(rng.integers(10, 60)), kind=str(rng.choice(["uniform", "jitter", "clusters"])))
    kwargs = blk.history_blocks(rng, east, north)
    kwargs["drop_coords"] = bool(rng.random() < 0.5)
    kwargs["uncertainty"] = bool(rng.random() < 0.5)
    ncomp = int(rng.choice([1, 2]))
    dtypes = blk.choose_dtypes(rng, ncomp)

    def arguments(with_weights):
        data = _fields(rng, east, north, ncomp, False, dtypes)
        wts = _weights(rng, east.size, ncomp) if with_weights else None
        coords = (east, north, gen.smooth_field(rng, east, north, amplitude=50.0))
        return coords, (data[0] if ncomp == 1 else tuple(data)), (None if wts is None else (wts[0] if ncomp == 1 else tuple(wts)))

    reducer = verde.BlockMean(**kwargs)
    with warnings.catch_warnings():
        warnings.simplefilter("ignore")
        used = bool(rng.random() < 0.5)
        if used:
            reducer.filter(*arguments(kwargs["uncertainty"] or rng.random() < 0.5))
        kinds = ["uncertainty", "spacing", "shape_vs_spacing", "region", "adjust", "center_coordinates", "drop_coords"]
        changes, names = blk.pick_changes(rng, reducer.get_params(deep=False), east, north, kinds)
        if "uncertainty" not in changes and rng.random() < 0.5:
            changes["uncertainty"] = not kwargs["uncertainty"]
            names.append("uncertainty")
        reducer, how = blk.reconfigure(rng, reducer, changes)
        now_uncertain = bool(reducer.uncertainty)
        with_weights = now_uncertain or rng.random() < 0.75
        reducer.filter(*arguments(with_weights))
        if now_uncertain and "uncertainty" in changes and rng.random() < 0.4:
            try:  # uncertainty switched on after construction: a call without weights must be rejected like on a fresh object
                reducer.filter(*arguments(False))
            except ValueError:
                run.count("class:reconfigured:rejected_without_weights_after_switching_uncertainty_on")
    rule = "uncertainty" if now_uncertain else ("weighted_variance" if with_weights else "variance")
    run.count("class:reconfigured_calls")
    run.count("class:reconfigured:how:" + how)
    run.count("class:reconfigured:rule_in_force:" + rule)
    run.count("class:reconfigured:" + ("used_before" if used else "never_used_before"))
    for name in names:
        run.count("class:reconfigured:param:" + name)
    if "uncertainty" in changes and with_weights:
        run.count("class:reconfigured:uncertainty_%s_with_weights" % ("False_to_True" if now_uncertain else "True_to_False"))
    return {"constructed_with": kwargs, "used_before_the_change": used, "how": how, "changed_to": changes, "rule_in_force": rule}


def _defaults(run, rng, verde):
    """
    BlockMean(spacing=s) with NO other argument behaves like the documented defaults spelled out (region=None, adjust='spacing',
    center_coordinates=False, drop_coords=True, uncertainty=False); variance_to_weights(v) / (v, dtype='float32') like tol=1e-15 spelled out.
    """
    def check(what, bare, spelled, witness):
        run.evaluated("defaults_equal_documented_defaults_spelled_out")
        if not blk.same_output(bare, spelled):
            run.violation("defaults_equal_documented_defaults_spelled_out", what + " differs from the call with the documented defaults spelled out",
                          dict(witness, bare=bare, spelled_out=spelled), key="defaults:" + what.split("(")[0])

    for _ in range(CALLS_PER_CASE):
        east, north = blk.make_points(rng, n=int(rng.integers(8, 50)))
        spacing = float(max(np.ptp(east), np.ptp(north), 1e-3) / rng.uniform(1.3, 5.5))
        coords = (east, north, gen.smooth_field(rng, east, north, amplitude=30.0))
        data = gen.smooth_field(rng, east, north, amplitude=float(10 ** rng.uniform(-1, 3)))
        weights = None if rng.random() < 0.5 else 10 ** rng.uniform(-2, 2, east.size)
        with warnings.catch_warnings():
            warnings.simplefilter("ignore")
            if weights is None:
                bare = verde.BlockMean(spacing=spacing).filter(coords, data)
            else:
                bare = verde.BlockMean(spacing=spacing).filter(coords, data, weights)
            spelled = verde.BlockMean(spacing=spacing, region=None, adjust="spacing", center_coordinates=False, uncertainty=False, shape=None,
                                      drop_coords=True).filter(coords, data, weights=weights)
        check("BlockMean(spacing=s).filter", bare, spelled, {"spacing": spacing, "coordinates": list(coords), "data": data, "weights": weights})
        var, _ = _variance_array(rng)
        var[int(rng.integers(0, var.size))] = 5e-14  # between the documented tolerance and a slacker one
        var[int(rng.integers(0, var.size))] = 2e-16
        check("variance_to_weights(v)", verde.variance_to_weights(var), verde.variance_to_weights(var, tol=1e-15, dtype="float64"), {"variance": var})
        check("variance_to_weights(v, dtype='float32')", verde.variance_to_weights(var, dtype="float32"),
              verde.variance_to_weights(var, tol=1e-15, dtype="float32"), {"variance": var})
        check("variance_to_weights(v, tol=...)", verde.variance_to_weights(var, tol=1e-3), verde.variance_to_weights(var, tol=1e-3, dtype="float64"), {"variance": var})


def _zero_weight_border(run, rng, verde):
    """
    Weights given, exactly 0.0 in all components on points ON the bounding box of the cloud (westernmost / northernmost ...), region NOT
    given (control: given), both uncertainty settings, 1-2 components: the blocks are those block_split defines for ALL given points.
    """
    ncomp = int(rng.choice([1, 2]))
    east, north, kwargs, weights, on_box = blk.zero_weight_border_case(rng, ncomp, region_given=bool(rng.random() < 0.25))
    kwargs["uncertainty"] = bool(rng.random() < 0.5)
    kwargs["center_coordinates"] = bool(rng.random() < 0.4)
    data = _fields(rng, east, north, ncomp)
    run.count("zero_weight_border_calls:points_on_the_box_with_weight_0", on_box)
    run.count("zero_weight_border_calls:uncertainty=%s" % kwargs["uncertainty"])
    with warnings.catch_warnings():
        warnings.simplefilter("ignore")
        verde.BlockMean(**kwargs).filter((east, north), data[0] if ncomp == 1 else tuple(data), weights[0] if ncomp == 1 else tuple(weights))


def _zero_weight_per_component(run, rng, verde):
    """
    2-3 components whose weights are exactly 0.0 on different points in different components (positive in the others), both
    uncertainty settings: weighted mean, variance / sum of weights and the [0, 1] normalisation are per component, with ITS OWN weights.
    """
    ncomp = int(rng.choice([2, 3]))
    east, north = blk.make_points(rng, n=int(rng.integers(12, 70)))
    kwargs = blk.make_blocks(rng, east, north)
    weights = blk.per_component_zero_weights(rng, east, north, kwargs, ncomp)
    kwargs["uncertainty"] = bool(rng.random() < 0.5)
    data = _fields(rng, east, north, ncomp)
    run.count("zero_weight_per_component_calls:uncertainty=%s" % kwargs["uncertainty"])
    with warnings.catch_warnings():
        warnings.simplefilter("ignore")
        verde.BlockMean(**kwargs).filter((east, north), tuple(data), tuple(weights))


def _large_call(run, rng, verde, index):
    """
    More than 100 000 points in one BlockMean.filter call. Without weights: many blocks of very different populations, singletons
    included - the block variances must follow the same (population) convention as for small inputs, which the run-wide
    'variance_convention_consistent' monitor decides. With weights (weighted variance / uncertainty): a few hundred blocks.
    """
    quick = run.tier == "quick"
    rule = "variance" if index % 2 == 0 else str(rng.choice(["weighted_variance", "uncertainty"]))
    n = blk.LARGE_COUNTS[(index // 2 + run.seed) % 3] if not quick else blk.LARGE_COUNTS[0 if index == 0 else 1 + (run.seed % 2)]
    east, north = blk.large_cloud(rng, n)
    if rule == "variance":
        n_blocks = int(rng.integers(2500, 6000)) if quick else int(rng.integers(6000, 40000))
    else:
        n_blocks = int(rng.integers(60, 400))
    kwargs = blk.large_blocks(rng, east, north, n_blocks)
    ncomp = 1 if quick else int(rng.choice([1, 2]))
    data = [blk.large_field(rng, east, north, amplitude=float(10 ** rng.uniform(-1, 3))) for _ in range(ncomp)]
    weights = None
    if rule != "variance":
        weights = [10 ** rng.uniform(-2, 2, n) for _ in range(ncomp)]
        if rule == "uncertainty":
            kwargs["uncertainty"] = True
    with warnings.catch_warnings():
        warnings.simplefilter("ignore")
        result = verde.BlockMean(**kwargs).filter((east, north), data[0] if ncomp == 1 else tuple(data),
                                                  None if weights is None else (weights[0] if ncomp == 1 else tuple(weights)))
    run.sample("more_than_100000_points:" + rule, {"points": n, "rule": rule, "kwargs": kwargs, "blocks_with_data": int(np.size(result[0][0])),
                                                   "last_points": {"easting": east[-3:], "northing": north[-3:], "data": data[0][-3:]}})


def _variance_array(rng, size=None):
    if size is None:
        size = int(rng.integers(1, 41))
    scale = 10 ** rng.uniform(-6, 6)
    var = scale * 10 ** rng.uniform(-3, 3, size)
    tol = float(rng.choice([DEFAULT_TOL, DEFAULT_TOL, DEFAULT_TOL, 0.0, 1e-3, 10.0]))
    if rng.random() < 0.3:
        tol = float(np.float32(tol))  # a value np.float32 can spell exactly (see _spell_tol)
    specials = [0.0, 1e-300, np.nan, 1e-16, tol, tol * (1 + 1e-6), tol * (1 - 1e-6), np.nextafter(tol, np.inf), -abs(scale), 5e-324]
    probs = [.2, .1, .25, .1, .1, .07, .07, .03, .05, .03]
    for k in range(size):
        if rng.random() < 0.3:
            var[k] = specials[int(rng.choice(len(specials), p=probs))]
    if rng.random() < 0.1:
        var[:] = rng.choice([0.0, np.nan, 1e-20])  # nothing above tol at all
    if rng.random() < 0.15 and size > 2:
        var[int(rng.integers(0, size))] = var[int(rng.integers(0, size))]  # tied minimum / duplicates
    return var, tol


def _wrap_variance(rng, var):
    import pandas as pd

    kind = str(rng.choice(["1d", "readonly", "2d", "fortran", "strided", "series", "list", "float32", "int", "0d"],
                          p=[.18, .16, .11, .05, .07, .09, .15, .07, .04, .08]))
    if kind == "list":
        pick = rng.random()
        if var.size >= 4 and pick < 0.55:
            # two (or three) dimensions spelled with lists: ONE array normalised by its global minimum, unlike a tuple (= components)
            rows = 2 if var.size % 2 == 0 else (3 if var.size % 3 == 0 else 1)
            grid = var[: (var.size // rows) * rows].reshape(rows, -1)
            if pick < 0.2:
                return grid.tolist(), "nested_list"
            if pick < 0.4:
                return [row.copy() for row in grid], "list_of_arrays"
            if pick < 0.48:
                return [row.tolist() if k % 2 else row.copy() for k, row in enumerate(grid)], "list_of_lists_and_arrays"
            return grid.reshape(rows, 1, -1).tolist(), "nested_list_3d"
        return [float(v) for v in var], kind
    if kind == "float32":
        return var.astype("float32"), kind
    if kind == "int":
        clean = np.where(np.isnan(var), 0.0, var)
        return np.clip(np.round(clean), -1000, 10 ** 9).astype("int64"), kind
    if kind == "0d":
        pick = rng.random()
        if pick < 0.3:
            return float(var[0]), "python_float"  # a bare Python number (0.0 and nan included)
        if pick < 0.45:
            return 0, "python_int_0"  # falsy but valid: a variance that is exactly zero
        if pick < 0.6:
            return np.float64(var[0]), "numpy_scalar"
        return np.array(float(var[0])), kind
    if kind == "series":
        return pd.Series(var.copy(), index=rng.permutation(var.size) + 7), kind
    return blk.wrap(var, kind, rng), kind


def _spell_tol(rng, tol):
    """The same tolerance as Python float / int, numpy float64 / float32 / integer scalar or 0-d array (only exact spellings)."""
    options = ["float", "np.float64", "ndarray0d"]
    if float(np.float32(tol)) == tol:
        options.append("np.float32")
    if float(tol).is_integer():
        options += ["int", "np.int64"]
    kind = str(rng.choice(options))
    return {"float": float(tol), "np.float64": np.float64(tol), "ndarray0d": np.array(tol), "np.float32": np.float32(tol),
            "int": int(tol), "np.int64": np.int64(tol)}[kind]


DTYPE_SPELLINGS = {"float32": ["float32", np.float32, np.dtype("float32"), "f4", "<f4"],
                   "float64": ["float64", np.float64, np.dtype("float64"), float, "f8", "d"]}


def _v2w_calls(run, rng, verde):
    for _ in range(40):
        var, tol = _variance_array(rng)
        kwargs = {}
        if tol != DEFAULT_TOL or rng.random() < 0.1:
            kwargs["tol"] = _spell_tol(rng, tol)
        if rng.random() < 0.3:
            spellings = DTYPE_SPELLINGS[str(rng.choice(["float32", "float64"]))]
            kwargs["dtype"] = spellings[int(rng.integers(0, len(spellings)))]
        if rng.random() < 0.25:
            parts = []
            for _ in range(int(rng.integers(1, 4))):
                other, _ = _variance_array(rng, size=int(rng.integers(1, 30)))
                parts.append(_wrap_variance(rng, other)[0])
            arg, kind = tuple(parts), "tuple"
        else:
            arg, kind = _wrap_variance(rng, var)
        with warnings.catch_warnings():
            warnings.simplefilter("ignore")
            out = verde.variance_to_weights(arg, **kwargs)
    run.sample("variance_to_weights", {"variance": arg, "kwargs": {k: str(v) for k, v in kwargs.items()}, "container": kind, "weights": out})


def run_case(run, tap, stream, index, rng):
    import pandas as pd
    import verde

    if stream == "large":
        _large_call(run, rng, verde, index)
    elif stream == "defaults":
        _defaults(run, rng, verde)
    elif stream == "zero_weights":
        for k in range(CALLS_PER_CASE):
            if k % 2:
                _zero_weight_border(run, rng, verde)
            else:
                _zero_weight_per_component(run, rng, verde)
    elif stream == "spellings":
        for _ in range(CALLS_PER_CASE):
            _one_call(run, rng, verde, spelled=True, layout=str(rng.choice(["1d", "1d", "2d", "series", "readonly"])), npoints=0)
    elif stream == "large_offset":
        for _ in range(CALLS_PER_CASE):
            _one_call(run, rng, verde, large_offset=True, npoints=int(rng.choice([8, 14, 22, 35, 60])))
    elif stream == "reconfigure":
        for _ in range(4):
            info = _reconfigured(run, rng, verde)
    elif stream == "reuse":
        for _ in range(2):
            _history(run, rng, verde, inplace=False)
    elif stream == "inplace":
        for _ in range(3):
            _history(run, rng, verde, inplace=True)
    elif stream == "blockmean":
        for _ in range(CALLS_PER_CASE):
            info = _one_call(run, rng, verde)
        run.sample("blockmean_call", info)
    elif stream == "plateau":
        for _ in range(CALLS_PER_CASE):
            info = _one_call(run, rng, verde, plateau=True, rule=str(rng.choice(["variance", "weighted_variance"])))
    elif stream == "series":
        for _ in range(CALLS_PER_CASE):
            info = _one_call(run, rng, verde, layout=str(rng.choice(["series", "series_str", "mixed"])))
    elif stream == "reject":
        for _ in range(4):
            east, north = blk.make_points(rng, n=int(rng.integers(1, 40)))
            kwargs = blk.make_blocks(rng, east, north)
            data = tuple(_fields(rng, east, north, int(rng.integers(1, 4))))
            weights = None if rng.random() < 0.5 else tuple([None] * len(data))
            try:
                verde.BlockMean(uncertainty=blk.spell_flag(rng, True), **kwargs).filter((east, north), data if len(data) > 1 else data[0], weights if len(data) > 1 else None)
            except ValueError:
                run.count("rejected:uncertainty_without_weights(ValueError)")
    elif stream == "nested":
        for _ in range(3):
            east, north = blk.make_points(rng, n=int(rng.integers(25, 80)), kind="uniform")
            data = gen.smooth_field(rng, east, north, amplitude=10.0)
            spacing = float((east.max() - east.min()) / rng.uniform(2, 4))
            weights = 10 ** rng.uniform(-2, 2, east.size)
            with warnings.catch_warnings():
                warnings.simplefilter("ignore")
                for kwargs, wts in (({}, None), ({"uncertainty": True}, weights), ({}, weights)):
                    chain = verde.Chain([("mean", verde.BlockMean(spacing=spacing, **kwargs)), ("trend", verde.Trend(degree=1))])
                    chain.fit((east, north), data, wts)
                    run.count("nested:chain_fit")
    elif stream == "v2w":
        _v2w_calls(run, rng, verde)
    elif stream == "v2w_nested_readonly":
        # what BlockMean hands over under pandas copy-on-write: a read-only view of a Series, NaNs included
        for _ in range(10):
            var, tol = _variance_array(rng, size=int(rng.integers(2, 30)))
            series = pd.Series(var, index=rng.permutation(var.size))
            view = np.ravel(series)
            before = var.copy()
            out = verde.variance_to_weights(view)
            run.evaluated("series_backing_store_unmodified")
            same = np.array_equal(np.asarray(series), before, equal_nan=True)
            if not same:
                run.violation("series_backing_store_unmodified", "variance_to_weights(np.ravel(series)) changed the Series",
                              {"before": before, "after": np.asarray(series)}, key="v2w:series_modified")
            frozen = var.copy()
            frozen.setflags(write=False)
            verde.variance_to_weights((frozen, frozen[::-1]), tol=tol)
        run.sample("variance_to_weights_readonly_view", {"variance": view, "writeable": bool(view.flags.writeable), "weights": out})


LEVEL_TEXT = (
    "Every return or raise of BlockMean.filter and variance_to_weights produced by the seeded workload (direct, nested in each other and in "
    "Chain.fit) is judged: input digests before/after, normal return for valid input, rejection of uncertainty=True without weights, "
    "pandas-free recomputation of means, coordinates and of the weights under the rule selected by the inputs. Held means no refutation "
    "among the monitored executions."
)
LEVEL_NOTE = (
    "Trusted: numpy, math.fsum, the C07 reference geometry, core.digest; membership of points within 1e-9 block sizes of an edge is taken "
    "from the observed labels; either ddof convention is accepted for the unweighted variance if it explains all blocks."
)
TECHNIQUE = (
    "runtime pre/postcondition monitors (argument digests, reference recomputation) on the real BlockMean.filter and variance_to_weights "
    "with the nested block_split event from the recorded call tree; seeded hostile workload over the three weighting rules and variance arrays"
)
