"""
C14 - rolling and expanding windows select exactly the points inside each window.

Monitors sit on ``rolling_window`` and ``expanding_window`` and judge every normal
return with an O(points x windows) brute-force reference:

* ``rolling_window.centres``     window centres = the C07 reference grid (``ref.check_line``) of the region
                                 shrunk by size/2 (region given, or the bounding box of the points);
* ``rolling_window.index_form``  indices array has the centres' shape; every entry is a tuple of ndim 1-D
                                 integer arrays that indexes every input coordinate array (extra ones too),
                                 in bounds, no point twice; empty windows = empty integer arrays;
* ``rolling_window.membership``  per window: a point with both |delta| < size/2 - margin is selected, a point
                                 with one |delta| > size/2 + margin is not (infinity norm, closed square);
* ``rolling_window.coverage``    if every actual step between centres <= size: every point farther than the
                                 margin from the border of the windows' hull (= the region for
                                 adjust="spacing"/shape) is selected at least once;
* ``*.purity``                   core.digest of region / coordinates / centre / sizes is the same before and after the call
                                 (region, centre and sizes are judged from a snapshot taken BEFORE the call);
* ``history.region_object_unchanged``  one region object (list, tuple, float64/float32/integer ndarray, row view of a table)
                                 reused by consecutive calls still holds the caller's values;
* ``expanding_window.*``         one entry per size in the given order, same index form and membership around
                                 the given centre, larger windows contain the smaller ones.

The monitors are stateless: they read the argument arrays when the call returns, so in call histories on the same
ndarray objects (contents changed in place between calls) every return is judged against the current contents.

Margin (either way, counted, never failed): 1e-9 * size + 8 eps * max|coordinate|.
"""
import collections
import collections.abc
import warnings

import numpy as np

from .. import gen, ref
from ._c14_c15_views import share_a_table, table_views
from ..core import digest

ID = "C14"
LEVEL = "exploration"
RULE = (
    "cases = seeded point clouds (uniform / jittered grid / clusters / anisotropic; 1-D, 2-D C-order, Fortran-order and strided "
    "arrays; float64 and integer lattices; 0-2 extra coordinate arrays; 1..400 points; scales 1e-2..1e6, offsets up to 1e3 extents) "
    "with window size 0.02..1 of the region's smaller side, step given as scalar spacing, (south-north, west-east) spacing pair or "
    "shape, region inferred / padded / cutting through the cloud, adjust in {spacing, region}; 'edge' streams put points exactly on and "
    "1e-12..1e-3 sizes beside window edges of dyadic lattices; expanding windows use centres inside / on a point / outside the cloud "
    "and unsorted size lists with duplicates and empty windows; 'history' cases call both functions repeatedly on the SAME ndarray "
    "objects whose contents are changed in place in between (+=, *=, slice assignment, row/column overwrite of a 2-D array, shuffle, "
    "full overwrite), with the same and with other window parameters / centres on the same region, interleaved with a second "
    "coordinate set, and with ONE region object per set reused by all its rolling_window calls. Regions are passed as list, tuple, "
    "float64 ndarray, row view of a 2-D table, float32 ndarray or integer ndarray. Equivalent spellings: size / spacing as python "
    "int or float, numpy integer / floating (float32 too) and 0-d array; spacing and shape pairs as tuple, list, ndarray with python or "
    "numpy elements; centre as tuple, list, 1-D / (1,2) ndarray, numpy scalars, 0-d arrays; sizes as lists mixing all of these; falsy but "
    "valid values (size 0, an all-zero extra coordinate, points on the northing axis); extra coordinates with NaN / +-inf at points "
    "whose easting/northing are finite (border points of the cloud included), each such call twinned with the two-coordinate call; "
    "expanding sizes as one-shot iterables (reversed, map, generator, iter) declared to the monitor; a few large cases (more than 2048 "
    "windows in one call, e.g. shape (50, 60); expanding windows on >= 1e4 and >= 1e5 points); argument aliasing: easting and northing as "
    "column views of ONE table ((t[:,0], t[:,1]), (t[:,1], t[:,0]), northing, easting = t.T, reversed rows, columns of a wider table, "
    "Fortran-ordered tables, the last axis of a 3-D table), twinned with contiguous copies. Non-trivial rolling case = at least two windows with different "
    "selections, at least one decided inside and one decided outside (point, window) pair; non-trivial expanding case = at least two "
    "sizes with different selections. Distinct = hash of the coordinate arrays and the configuration."
)
ASSUMPTIONS = [
    "window centres are judged with the shared exact-rational C07 reference (ref.check_line) on the float bounds w+size/2, e-size/2",
    "membership is judged relative to the centres the function returned (statement: 'of the window centre'), which are themselves judged against the reference grid",
    "points within 1e-9*size + 8 eps*max|coordinate| of a window edge (or of the hull border for coverage) may go either way",
    "coordinates are finite numpy arrays of equal shape; a shape with a single row/column of windows is only exercised with numpy-float region bounds (python floats make verde raise ZeroDivisionError before any window exists)",
    "order of the indices inside one window is not part of the statement (compared as sets); duplicates are not allowed",
    "region, centre and sizes are the values the caller passed (snapshot taken before the call); a purity monitor compares core.digest of region / coordinates / centre / sizes before and after every call",
    "for a single-precision (float32) region verde's bounds and centres carry float32 round-off: centres are then judged with a tolerance of 16 float32 ulps of the largest bound instead of ref.check_line's 8 float64 ulps",
    "the monitors read the argument arrays at return time and keep nothing between calls, so every return of a call history is judged against the arrays' current contents",
]
FLOORS = {
    # about 40 percent of the smallest value seen on the unchanged tree over seeds 0..9 (thorough = 20 x the quick workload,
    # except the few 'large' cases whose number is fixed per tier)
    "quick": {
        "class:integer_coordinates_with_fractional_size": 28, "expanding:class:integer_coordinates_with_fractional_sizes": 32, "expanding:class:integer_coordinates_fractional_sizes_off_lattice_centre": 27,
        "eval:rolling_window.centres": 690, "eval:rolling_window.index_form": 690, "eval:rolling_window.membership": 690,
        "eval:rolling_window.coverage": 415, "eval:expanding_window.index_form": 415,
        "eval:expanding_window.order_membership": 415, "eval:expanding_window.nesting": 415, "distinct_nontrivial": 620,
        "windows_judged": 105000, "pairs_decided": 14000000, "pairs_decided_inside": 860000, "expanding:pairs_decided": 140000,
        "class:empty_windows": 60000, "expanding:class:empty_windows": 160, "class:input_1d": 190, "class:input_2d": 225,
        "class:input_2d_fortran_order": 60, "class:extra_coordinates": 210, "class:integer_coordinates": 18,
        "class:step_by_shape": 130, "class:step_by_scalar_spacing": 180, "class:step_by_spacing_pair": 100,
        "class:shape_with_single_row_or_column": 10, "class:adjust_region": 84, "class:region_inferred": 105,
        "class:region_given": 320, "class:points_outside_region": 215, "class:windows_do_not_overlap": 150,
        "coverage:hull_of_windows": 45, "coverage:points_required": 22000, "either_way:point_on_window_edge": 17000,
        "expanding:class:unsorted_sizes": 200, "expanding:class:input_2d": 135, "history:rolling_calls": 250,
        "history:expanding_calls": 150, "history:rolling_call_on_arrays_modified_in_place": 160,
        "history:expanding_call_on_arrays_modified_in_place": 100, "history:rolling_same_parameters_after_inplace_change": 95,
        "history:expanding_same_parameters_after_inplace_change": 70, "history:rolling_same_region_other_size": 15,
        "history:rolling_same_region_other_step": 16, "history:rolling_same_region_other_adjust": 7,
        "history:inplace_iadd_shift": 16, "history:inplace_imul_scale": 13, "history:inplace_slice_assignment": 16,
        "history:inplace_partial_overwrite_2d": 7, "history:inplace_shuffle_one_coordinate": 15,
        "eval:rolling_window.purity": 700, "eval:expanding_window.purity": 415, "eval:history.region_object_unchanged": 230,
        "class:region_container_list": 160, "class:region_container_tuple": 65, "class:region_container_ndarray_float64": 110,
        "class:region_container_ndarray_float64_row_view_of_table": 65, "class:region_container_ndarray_float32": 70,
        "class:region_container_ndarray_integer": 29, "history:rolling_calls_reusing_the_region_object": 170,
        "history:region_object_reused_ndarray_float64": 30, "history:region_object_reused_ndarray_float64_row_view_of_table": 15,
        "history:region_object_reused_ndarray_float32": 16, "history:region_object_reused_ndarray_integer": 7,
        "expanding:class:sizes_container_ndarray_float64": 110, "class:size_spelled_python_int": 11,
        "class:size_spelled_numpy_int64": 4, "class:size_spelled_numpy_int32": 3, "class:size_spelled_numpy_float64": 88,
        "class:size_spelled_numpy_float32": 14, "class:size_spelled_ndarray0d_float64": 87,
        "class:size_spelled_ndarray0d_int64": 5, "class:spacing_spelled_tuple": 47, "class:spacing_spelled_list": 23,
        "class:spacing_spelled_ndarray1d_float64": 47, "class:spacing_spelled_ndarray0d_float64": 30,
        "class:spacing_spelled_numpy_float64": 27, "class:spacing_spelled_python_int": 3, "class:shape_spelled_tuple": 155,
        "class:shape_spelled_list": 45, "class:shape_spelled_ndarray1d_int64": 22, "class:shape_element_numpy_int64": 52,
        "class:shape_element_numpy_int32": 25, "class:extra_coordinate_all_zero": 100,
        "expanding:class:centre_spelled_tuple": 300, "expanding:class:centre_spelled_list": 33,
        "expanding:class:centre_spelled_ndarray1d_float64": 33, "expanding:class:centre_spelled_ndarray2d_float64": 35,
        "expanding:class:centre_element_numpy_float64": 48, "expanding:class:centre_element_ndarray0d_float64": 40,
        "expanding:class:centre_element_python_int": 2, "expanding:class:sizes_element_numpy_float64": 65,
        "expanding:class:sizes_element_ndarray0d_float64": 73, "expanding:class:sizes_element_python_int": 11,
        "expanding:class:sizes_element_numpy_int64": 6, "expanding:class:easting_or_northing_all_zero": 10,
        "expanding:class:extra_coordinate_all_zero": 56, "class:extra_coordinate_non_finite": 108,
        "class:extra_non_finite_at_a_border_point_of_the_cloud": 90, "expanding:class:extra_coordinate_non_finite": 66,
        "expanding:class:extra_non_finite_at_a_border_point_of_the_cloud": 55, "eval:extras_ignored.rolling_window": 110,
        "eval:extras_ignored.expanding_window": 66, "expanding:class:sizes_one_shot_iterable_generator": 14,
        "expanding:class:sizes_one_shot_iterable_list_iterator": 13,
        "expanding:class:sizes_one_shot_iterable_list_reverseiterator": 21, "expanding:class:sizes_one_shot_iterable_map": 16,
        "class:more_than_2048_windows_in_one_call": 13, "class:more_than_2048_windows_given_by_shape": 1,
        "expanding:class:at_least_10000_points": 2, "expanding:class:at_least_100000_points": 1,
        "class:easting_and_northing_are_views_of_one_table": 96, "class:table_views_with_reversed_rows": 7,
        "expanding:class:easting_and_northing_are_views_of_one_table": 56, "eval:aliasing_twin.rolling_window": 77,
        "eval:aliasing_twin.expanding_window": 33, "aliasing:columns_0_1": 7, "aliasing:columns_1_0_northing_stored_first": 13,
        "aliasing:columns_of_a_wider_table": 6, "aliasing:fortran_ordered_table": 6,
        "aliasing:fortran_ordered_table_northing_first": 6, "aliasing:last_axis_of_a_3d_table": 28, "aliasing:reversed_rows": 7,
        "aliasing:unpacked_transpose_northing_first": 7, "defaulted_argument:rolling_window.adjust": 349,
    },
    "thorough": {
        "class:integer_coordinates_with_fractional_size": 560, "expanding:class:integer_coordinates_with_fractional_sizes": 640, "expanding:class:integer_coordinates_fractional_sizes_off_lattice_centre": 540,
        "eval:rolling_window.centres": 13800, "eval:rolling_window.index_form": 13800, "eval:rolling_window.membership": 13800,
        "eval:rolling_window.coverage": 8300, "eval:expanding_window.index_form": 8300,
        "eval:expanding_window.order_membership": 8300, "eval:expanding_window.nesting": 8300, "distinct_nontrivial": 12400,
        "windows_judged": 2100000, "pairs_decided": 280000000, "pairs_decided_inside": 17200000,
        "expanding:pairs_decided": 2800000, "class:empty_windows": 1200000, "expanding:class:empty_windows": 3200,
        "class:input_1d": 3800, "class:input_2d": 4500, "class:input_2d_fortran_order": 1200, "class:extra_coordinates": 4200,
        "class:integer_coordinates": 360, "class:step_by_shape": 2600, "class:step_by_scalar_spacing": 3600,
        "class:step_by_spacing_pair": 2000, "class:shape_with_single_row_or_column": 200, "class:adjust_region": 1680,
        "class:region_inferred": 2100, "class:region_given": 6400, "class:points_outside_region": 4300,
        "class:windows_do_not_overlap": 3000, "coverage:hull_of_windows": 900, "coverage:points_required": 440000,
        "either_way:point_on_window_edge": 340000, "expanding:class:unsorted_sizes": 4000, "expanding:class:input_2d": 2700,
        "history:rolling_calls": 5000, "history:expanding_calls": 3000, "history:rolling_call_on_arrays_modified_in_place": 3200,
        "history:expanding_call_on_arrays_modified_in_place": 2000, "history:rolling_same_parameters_after_inplace_change": 1900,
        "history:expanding_same_parameters_after_inplace_change": 1400, "history:rolling_same_region_other_size": 300,
        "history:rolling_same_region_other_step": 320, "history:rolling_same_region_other_adjust": 140,
        "history:inplace_iadd_shift": 320, "history:inplace_imul_scale": 260, "history:inplace_slice_assignment": 320,
        "history:inplace_partial_overwrite_2d": 140, "history:inplace_shuffle_one_coordinate": 300,
        "eval:rolling_window.purity": 14000, "eval:expanding_window.purity": 8300, "eval:history.region_object_unchanged": 4600,
        "class:region_container_list": 3200, "class:region_container_tuple": 1300,
        "class:region_container_ndarray_float64": 2200, "class:region_container_ndarray_float64_row_view_of_table": 1300,
        "class:region_container_ndarray_float32": 1400, "class:region_container_ndarray_integer": 580,
        "history:rolling_calls_reusing_the_region_object": 3400, "history:region_object_reused_ndarray_float64": 600,
        "history:region_object_reused_ndarray_float64_row_view_of_table": 300,
        "history:region_object_reused_ndarray_float32": 320, "history:region_object_reused_ndarray_integer": 140,
        "expanding:class:sizes_container_ndarray_float64": 2200, "class:size_spelled_python_int": 220,
        "class:size_spelled_numpy_int64": 80, "class:size_spelled_numpy_int32": 60, "class:size_spelled_numpy_float64": 1760,
        "class:size_spelled_numpy_float32": 280, "class:size_spelled_ndarray0d_float64": 1740,
        "class:size_spelled_ndarray0d_int64": 100, "class:spacing_spelled_tuple": 940, "class:spacing_spelled_list": 460,
        "class:spacing_spelled_ndarray1d_float64": 940, "class:spacing_spelled_ndarray0d_float64": 600,
        "class:spacing_spelled_numpy_float64": 540, "class:spacing_spelled_python_int": 60, "class:shape_spelled_tuple": 3100,
        "class:shape_spelled_list": 900, "class:shape_spelled_ndarray1d_int64": 440, "class:shape_element_numpy_int64": 1040,
        "class:shape_element_numpy_int32": 500, "class:extra_coordinate_all_zero": 2000,
        "expanding:class:centre_spelled_tuple": 6000, "expanding:class:centre_spelled_list": 660,
        "expanding:class:centre_spelled_ndarray1d_float64": 660, "expanding:class:centre_spelled_ndarray2d_float64": 700,
        "expanding:class:centre_element_numpy_float64": 960, "expanding:class:centre_element_ndarray0d_float64": 800,
        "expanding:class:centre_element_python_int": 40, "expanding:class:sizes_element_numpy_float64": 1300,
        "expanding:class:sizes_element_ndarray0d_float64": 1460, "expanding:class:sizes_element_python_int": 220,
        "expanding:class:sizes_element_numpy_int64": 120, "expanding:class:easting_or_northing_all_zero": 200,
        "expanding:class:extra_coordinate_all_zero": 1120, "class:extra_coordinate_non_finite": 2160,
        "class:extra_non_finite_at_a_border_point_of_the_cloud": 1800, "expanding:class:extra_coordinate_non_finite": 1320,
        "expanding:class:extra_non_finite_at_a_border_point_of_the_cloud": 1100, "eval:extras_ignored.rolling_window": 2200,
        "eval:extras_ignored.expanding_window": 1320, "expanding:class:sizes_one_shot_iterable_generator": 280,
        "expanding:class:sizes_one_shot_iterable_list_iterator": 260,
        "expanding:class:sizes_one_shot_iterable_list_reverseiterator": 420, "expanding:class:sizes_one_shot_iterable_map": 320,
        "class:more_than_2048_windows_in_one_call": 260, "class:more_than_2048_windows_given_by_shape": 2,
        "expanding:class:at_least_10000_points": 8, "expanding:class:at_least_100000_points": 4,
        "class:easting_and_northing_are_views_of_one_table": 1920, "class:table_views_with_reversed_rows": 140,
        "expanding:class:easting_and_northing_are_views_of_one_table": 1120, "eval:aliasing_twin.rolling_window": 1540,
        "eval:aliasing_twin.expanding_window": 660, "aliasing:columns_0_1": 140,
        "aliasing:columns_1_0_northing_stored_first": 260, "aliasing:columns_of_a_wider_table": 120,
        "aliasing:fortran_ordered_table": 120, "aliasing:fortran_ordered_table_northing_first": 120,
        "aliasing:last_axis_of_a_3d_table": 560, "aliasing:reversed_rows": 140,
        "aliasing:unpacked_transpose_northing_first": 140, "defaulted_argument:rolling_window.adjust": 6980,
    },
}
JOBS = {"quick": 1, "thorough": 8}
CASE_TIMEOUT_S = 120

ALIAS_KIND = {}  # id(easting view) -> how the table views were made (workload bookkeeping for the counters)
ONE_SHOT_SIZES = {}  # id(iterator) -> the sizes it will yield (declared by the workload just before the call)
REL_MARGIN = 1e-9
MAX_PAIRS = 1_500_000  # points x windows per call (workload keeps below; the monitor chunks anyway)


def plan(tier):
    if tier == "quick":
        return collections.OrderedDict(rolling=140, rolling_edge=50, expanding=80, expanding_edge=30, history=40, integer_fractional=20, large=3)
    return collections.OrderedDict(rolling=2800, rolling_edge=1000, expanding=1600, expanding_edge=600, history=800, integer_fractional=400, large=18)


# ----------------------------------------------------------------------
# reference pieces
# ----------------------------------------------------------------------
def _finite(*vals):
    try:
        return all(v is None or np.all(np.isfinite(np.asarray(v, dtype="float64"))) for v in vals)
    except (TypeError, ValueError):
        return False


def index_form(idx, in_shape, arrays):
    """
    Is ``idx`` something that directly indexes arrays of shape ``in_shape`` and selects distinct points?
    Returns (flat C-order positions or None, problem or None).
    """
    ndim = len(in_shape)
    if not isinstance(idx, tuple):
        return None, "index object is a %s, not a tuple of index arrays" % type(idx).__name__
    if len(idx) != ndim:
        return None, "index tuple has %d entries for %d-D coordinate arrays" % (len(idx), ndim)
    for part in idx:
        if not isinstance(part, np.ndarray) or part.ndim != 1:
            return None, "index entry is not a 1-D array (%s)" % type(part).__name__
        if not np.issubdtype(part.dtype, np.integer):
            return None, "index entry has dtype %s, not an integer dtype" % part.dtype
    if len({part.size for part in idx}) != 1:
        return None, "index entries have different lengths"
    count = idx[0].size
    try:
        flat = np.ravel_multi_index(idx, in_shape)
    except (ValueError, TypeError) as exc:
        return None, "indices do not address an array of shape %s: %s" % (in_shape, exc)
    for k, arr in enumerate(arrays):
        try:
            picked = arr[idx]
        except Exception as exc:  # noqa: BLE001
            return None, "indexing coordinate array %d with the returned indices raised %s: %s" % (k, type(exc).__name__, exc)
        if np.shape(picked) != (count,):
            return None, "indexing coordinate array %d returned shape %s for %d indices" % (k, np.shape(picked), count)
        if count and not np.array_equal(np.asarray(picked), np.asarray(arr).ravel()[flat], equal_nan=True):
            return None, "indexing coordinate array %d does not return the addressed points" % k
    if count and np.unique(flat).size != count:
        return None, "a point is selected more than once in one window"
    return flat, None


EPS32 = float(np.finfo("float32").eps)


def region_is_single_precision(region):
    """A region held in float32 / float16 (ndarray or numpy scalars): verde's bounds and centres then carry that precision."""
    if isinstance(region, np.ndarray):
        return region.dtype.kind == "f" and region.dtype.itemsize < 8
    try:
        return any(isinstance(v, np.floating) and v.dtype.itemsize < 8 for v in region)
    except TypeError:
        return False


def region_container(region):
    if isinstance(region, np.ndarray):
        kind = "float64" if region.dtype == np.float64 else "float32" if region.dtype == np.float32 else \
            "integer" if region.dtype.kind in "iu" else str(region.dtype)
        view = "_row_view_of_table" if region.base is not None else ""
        return "ndarray_" + kind + view
    return type(region).__name__


def spelling(obj):
    """How the caller wrote a value: python_int, numpy_float64, ndarray0d_float64, list, ..."""
    if isinstance(obj, np.ndarray):
        return "ndarray%dd_%s" % (obj.ndim, obj.dtype)
    if isinstance(obj, np.generic):
        return "numpy_" + type(obj).__name__
    if isinstance(obj, (list, tuple)):
        return type(obj).__name__
    return "python_" + type(obj).__name__


def count_spellings(run, prefix, obj):
    """Counter for the container (or scalar spelling) and, for sequences, one per distinct element spelling."""
    run.count(prefix + "_spelled_" + spelling(obj))
    if isinstance(obj, (list, tuple)):
        for name in sorted({spelling(v) for v in obj}):
            run.count(prefix + "_element_" + name)


def is_single_precision(obj):
    """A float32/float16 scalar or array (or a sequence containing one): arithmetic with it runs in single precision."""
    if isinstance(obj, (np.ndarray, np.generic)):
        return obj.dtype.kind == "f" and obj.dtype.itemsize < 8
    if isinstance(obj, (list, tuple)):
        return any(is_single_precision(v) for v in obj)
    return False


def spell_number(rng, value, single_ok=False, zero_d=True):
    """The same number in another spelling: python int/float, numpy integer/floating, 0-d array (value-preserving)."""
    v = float(value)
    options = [v, v, np.float64(v)]
    if zero_d:
        options.append(np.array(v))
    if v == np.rint(v) and abs(v) < 2 ** 31:
        options += [int(v), int(v), np.int64(int(v)), np.int32(int(v))]
        if zero_d:
            options.append(np.array(int(v)))
    if single_ok and float(np.float32(v)) == v:
        options.append(np.float32(v))
    return options[int(rng.integers(0, len(options)))]


def check_centre_line(values, start, stop, size, spacing, adjust, loose_tol):
    """
    ref.check_line for float64 regions. For a single-precision region the same decision with a tolerance of a few float32
    ulps on the node positions and on the interval-count tie (never stricter than the precision the caller supplied).
    """
    if not loose_tol:
        return ref.check_line(values, start, stop, size, spacing, adjust, False)
    from fractions import Fraction

    values = np.asarray(values, dtype="float64")
    info = {"loose": True}
    if values.ndim != 1:
        return "result is not 1-D", info
    if spacing is not None:
        n = values.size - 1
        q = ref.interval_ratio(start, stop, spacing)
        ok, tie = ref.intervals_ok(n, q)
        if not ok:
            # single-precision bounds: the extent carries an absolute error of a few float32 ulps of the BOUNDS (offset clouds)
            slack = Fraction(1, 2) + abs(q) * Fraction(8 * EPS32) + Fraction(2 * loose_tol) / abs(ref.frac(spacing))
            ok = n >= 1 and (abs(Fraction(n) - q) <= slack or (n == 1 and q < slack))
            tie = ok
        info.update(q=float(q), n=int(n), tie=bool(tie))
        if not ok:
            return "number of intervals %d is not the integer nearest to extent/spacing=%.9g (at least one)" % (n, float(q)), info
        stop_eff = float(start) + n * float(spacing) if adjust == "region" else float(stop)
    else:
        n = int(size) - 1
        if values.size != int(size):
            return "expected exactly %d nodes, got %d" % (int(size), values.size), info
        stop_eff = float(stop)
    expected = ref.line_nodes(start, stop_eff, n, False)
    if expected.size != values.size:
        return "expected %d nodes, got %d" % (expected.size, values.size), info
    err = float(np.max(np.abs(values - expected))) if values.size else 0.0
    info["err_over_tol"] = err / loose_tol
    if not err <= loose_tol:
        return "nodes differ from the even subdivision by %.3g (single-precision tolerance %.3g)" % (err, loose_tol), info
    return None, info


def window_tables(x, y, cx, cy, half, margin):
    """Boolean (windows x points) tables: decided inside, decided outside."""
    dx = np.abs(x[None, :] - cx[:, None])
    dy = np.abs(y[None, :] - cy[:, None])
    inside = (dx < half - margin) & (dy < half - margin)
    outside = (dx > half + margin) | (dy > half + margin)
    near = (dx <= half + margin) & (dy <= half + margin)
    return inside, outside, near


def _margin(size, *arrays):
    mag = 0.0
    for arr in arrays:
        arr = np.asarray(arr, dtype="float64")
        if arr.size:
            mag = max(mag, float(np.max(np.abs(arr))))
    return REL_MARGIN * abs(float(size)) + 8 * ref.EPS * mag


def _describe_input(run, arrays, prefix=""):
    first = arrays[0]
    if first.ndim == 1:
        run.count(prefix + "class:input_1d")
    elif first.ndim == 2:
        run.count(prefix + "class:input_2d")
        if first.flags.f_contiguous and not first.flags.c_contiguous:
            run.count(prefix + "class:input_2d_fortran_order")
    else:
        run.count(prefix + "class:input_%dd" % first.ndim)
    if not first.flags.c_contiguous and not first.flags.f_contiguous:
        run.count(prefix + "class:input_strided_view")
    if share_a_table(arrays[0], arrays[1]):
        run.count(prefix + "class:easting_and_northing_are_views_of_one_table")
        if arrays[0].ndim == 1 and arrays[0].strides[0] < 0:
            run.count(prefix + "class:table_views_with_reversed_rows")
    if np.issubdtype(first.dtype, np.integer):
        run.count(prefix + "class:integer_coordinates")
    if len(arrays) > 2:
        run.count(prefix + "class:extra_coordinates")
        if any(not np.any(a) for a in arrays[2:]):
            run.count(prefix + "class:extra_coordinate_all_zero")
        bad = np.zeros(arrays[0].size, dtype=bool)
        for extra in arrays[2:]:
            if extra.dtype.kind == "f":
                bad |= ~np.isfinite(extra.ravel())
        if bad.any():
            run.count(prefix + "class:extra_coordinate_non_finite")
            x, y = arrays[0].ravel(), arrays[1].ravel()
            if np.isfinite(x.astype("float64")).all() and (bad & ((x == x.min()) | (x == x.max()) | (y == y.min()) | (y == y.max()))).any():
                run.count(prefix + "class:extra_non_finite_at_a_border_point_of_the_cloud")
    if not np.any(arrays[0]) or not np.any(arrays[1]):
        run.count(prefix + "class:easting_or_northing_all_zero")


# ----------------------------------------------------------------------
# monitors
# ----------------------------------------------------------------------
def install(tap, run):
    import verde.coordinates as vc

    def witness_base(a, arrays):
        return {"coordinates": [np.asarray(c) for c in arrays], "size": a.get("size"), "spacing": a.get("spacing"),
                "shape": a.get("shape"), "region": None if a.get("region") is None else [float(v) for v in a["region"]],
                "adjust": a.get("adjust")}

    def snapshot(ev, names):
        """Before the call: digests of the arguments (purity) and the caller's values of region / centre / sizes."""
        a = ev.args
        snap = {"digest": {name: digest(a.get(name)) for name in names}}
        for name in ("region", "center", "sizes"):
            if name in names and a.get(name) is not None:
                if name == "sizes" and isinstance(a[name], collections.abc.Iterator):
                    # a one-shot iterable cannot be read without consuming it: the workload declares what it yields
                    snap[name] = ONE_SHOT_SIZES.pop(id(a[name]), None)
                    snap["one_shot"] = type(a[name]).__name__
                    continue
                try:
                    snap[name] = [float(v) for v in np.asarray(a[name], dtype="float64").ravel()]
                except (TypeError, ValueError):
                    snap[name] = None
        return snap

    def purity(ev, monitor):
        """The call must leave region, coordinates, centre and sizes exactly as the caller passed them (also when it raises)."""
        run.evaluated(monitor)
        for name, before in ev.pre["digest"].items():
            arg = ev.args.get(name)
            if digest(arg) != before:
                now = arg
                try:
                    now = [float(v) for v in np.asarray(arg, dtype="float64").ravel()] if name != "coordinates" else [np.asarray(c) for c in arg]
                except (TypeError, ValueError):
                    pass
                run.violation(monitor, "argument %r was modified by the call (container %s): before %r, after %r"
                              % (name, region_container(arg) if name == "region" else type(arg).__name__, ev.pre.get(name), now if name != "coordinates" else "<arrays>"),
                              {"argument": name, "before": ev.pre.get(name), "after": now, "size": ev.args.get("size"),
                               "spacing": ev.args.get("spacing"), "shape": ev.args.get("shape")}, key="purity:" + name)

    def pre_rolling(ev):
        return snapshot(ev, ("region", "coordinates"))

    def pre_expanding(ev):
        return snapshot(ev, ("coordinates", "center", "sizes"))

    def post_rolling(ev):
        purity(ev, "rolling_window.purity")
        if ev.exc is not None:
            run.count("raised:rolling_window:" + type(ev.exc).__name__)
            return
        a = ev.args
        try:
            arrays = [np.asarray(c) for c in a["coordinates"]]
        except Exception:  # noqa: BLE001
            run.count("skipped:rolling_unreadable_input")
            return
        size, spacing, shape, region, adjust = a["size"], a["spacing"], a["shape"], a["region"], a["adjust"]
        if len(arrays) < 2 or not _finite(arrays[0], arrays[1], size, spacing, ev.pre.get("region")) or arrays[0].size == 0:
            run.count("skipped:rolling_nonfinite_or_empty")
            return
        in_shape = arrays[0].shape
        x = arrays[0].ravel().astype("float64")
        y = arrays[1].ravel().astype("float64")
        count_spellings(run, "class:size", size)
        if spacing is not None:
            count_spellings(run, "class:spacing", spacing)
        if shape is not None:
            count_spellings(run, "class:shape", shape)
        single = is_single_precision(size) or is_single_precision(spacing)
        size = float(size)
        half = size / 2
        loose_tol = 0.0
        if region is None:
            w, e, s, n = float(x.min()), float(x.max()), float(y.min()), float(y.max())
            run.count("class:region_inferred")
        else:
            # the values the caller passed (snapshot taken before the call), not whatever the object holds afterwards
            w, e, s, n = ev.pre["region"]
            run.count("class:region_given")
            run.count("class:region_container_" + region_container(region))
            if region_is_single_precision(region):
                loose_tol = 16 * EPS32 * max(abs(w), abs(e), abs(s), abs(n), size)
                run.count("class:region_single_precision(centres judged to float32 ulps)")
            if np.any((x < w) | (x > e) | (y < s) | (y > n)):
                run.count("class:points_outside_region")
        if single and not loose_tol:
            # a float32 size / spacing drags verde's bounds and centres into single precision (numpy promotion rules)
            loose_tol = 16 * EPS32 * max(abs(w), abs(e), abs(s), abs(n), size)
            run.count("class:size_or_spacing_single_precision(centres judged to float32 ulps)")
        _describe_input(run, arrays)
        base = witness_base(a, arrays)
        base["region_as_passed"] = ev.pre.get("region")
        base["region_container"] = None if region is None else region_container(region)
        res = ev.result

        # ---- centres ------------------------------------------------
        run.evaluated("rolling_window.centres")
        problem = None
        east_vec = north_vec = None
        if not isinstance(res, tuple) or len(res) != 2:
            problem = "result is not a (window_coordinates, indices) pair"
        else:
            centres, indices = res
            if not isinstance(centres, (tuple, list)) or len(centres) != 2:
                problem = "window_coordinates is not a pair of arrays"
            else:
                ce, cn = np.asarray(centres[0]), np.asarray(centres[1])
                if ce.ndim != 2 or ce.shape != cn.shape:
                    problem = "window centre arrays are not 2-D of equal shape: %s %s" % (ce.shape, cn.shape)
                elif not (ce == ce[0:1, :]).all() or not (cn == cn[:, 0:1]).all():
                    problem = "window centres are not a (northing, easting) mesh: easting must vary along axis 1 only, northing along axis 0 only"
                else:
                    east_vec, north_vec = ce[0, :], cn[:, 0]
        if problem is None:
            if shape is not None:
                run.count("class:step_by_shape")
                if 1 in (int(shape[0]), int(shape[1])):
                    run.count("class:shape_with_single_row_or_column")
                size_n, size_e, sp_n, sp_e = int(shape[0]), int(shape[1]), None, None
                eff_adjust = "spacing"
            else:
                sp = np.atleast_1d(np.asarray(spacing, dtype="float64"))
                if sp.size == 1:
                    run.count("class:step_by_scalar_spacing")
                    sp_n = sp_e = float(sp[0])
                else:
                    run.count("class:step_by_spacing_pair")
                    sp_n, sp_e = float(sp[0]), float(sp[1])
                size_n = size_e = None
                eff_adjust = adjust
                run.count("class:adjust_" + str(adjust))
            pe, info_e = check_centre_line(east_vec, w + half, e - half, size_e, sp_e, eff_adjust, loose_tol)
            pn, info_n = check_centre_line(north_vec, s + half, n - half, size_n, sp_n, eff_adjust, loose_tol)
            if info_e.get("tie") or info_n.get("tie"):
                run.count("either_way:centre_count_tie")
            for info in (info_e, info_n):
                if "err_over_tol" in info:
                    run.observe_max("centre_error_over_tolerance", info["err_over_tol"])
            if pe:
                problem = "window centre eastings are not the regular grid of the region shrunk by size/2: " + pe
            elif pn:
                problem = "window centre northings are not the regular grid of the region shrunk by size/2: " + pn
            elif shape is not None and ce.shape != (size_n, size_e):
                problem = "shape %s requested, centres have shape %s" % (tuple(shape), ce.shape)
        if problem:
            wit = dict(base)
            if isinstance(res, tuple) and len(res) == 2 and isinstance(res[0], (tuple, list)):
                wit["window_coordinates"] = [np.asarray(c) for c in res[0]]
            wit["expected_centre_bounds"] = [w + half, e - half, s + half, n - half]
            run.violation("rolling_window.centres", problem, wit, key="centres:" + problem.split(":")[0][:60])
        if east_vec is None:
            return  # nothing else can be judged without a centre mesh

        # ---- index form ---------------------------------------------
        run.evaluated("rolling_window.index_form")
        cx, cy = ce.ravel(), cn.ravel()
        n_win, n_pts = cx.size, x.size
        if not isinstance(indices, np.ndarray) or indices.dtype != object or indices.shape != ce.shape:
            run.violation("rolling_window.index_form",
                          "indices is not an object array with the centres' shape %s (got %s %s)"
                          % (ce.shape, type(indices).__name__, getattr(indices, "shape", None)),
                          dict(base, centres_shape=list(ce.shape)), key="index_form:container")
            return
        selected = np.zeros((n_win, n_pts), dtype=bool)
        form_problem = None
        for k, pos in enumerate(np.ndindex(*ce.shape)):
            flat, prob = index_form(indices[pos], in_shape, arrays)
            if prob:
                if form_problem is None:
                    form_problem = (pos, prob, indices[pos])
                continue
            selected[k, flat] = True
        if form_problem:
            pos, prob, idx = form_problem
            run.violation("rolling_window.index_form", "window %s: %s" % (pos, prob),
                          dict(base, window=list(pos), centre=[float(ce[pos]), float(cn[pos])], index=repr(idx)[:600]),
                          key="index_form:" + prob.split("(")[0][:50])
        counts = selected.sum(axis=1)
        n_empty = int((counts == 0).sum())
        run.count("windows_judged", n_win)
        if n_empty:
            run.count("class:empty_windows", n_empty)
            run.count("class:calls_with_empty_windows")

        # ---- membership ---------------------------------------------
        run.evaluated("rolling_window.membership")
        margin = _margin(size, x, y, cx, cy)
        covered_near = np.zeros(n_pts, dtype=bool)
        n_inside = n_outside = n_edge = 0
        first_bad = None
        chunk = max(1, MAX_PAIRS // max(n_pts, 1))
        for lo in range(0, n_win, chunk):
            hi = min(n_win, lo + chunk)
            inside, outside, near = window_tables(x, y, cx[lo:hi], cy[lo:hi], half, margin)
            sel = selected[lo:hi]
            n_inside += int(inside.sum())
            n_outside += int(outside.sum())
            n_edge += int((~inside & ~outside).sum())
            covered_near |= near.any(axis=0)
            if first_bad is None:
                missing = inside & ~sel
                extra = outside & sel
                if missing.any():
                    wk, pk = np.argwhere(missing)[0]
                    first_bad = ("missing", lo + int(wk), int(pk), int(missing.sum()))
                elif extra.any():
                    wk, pk = np.argwhere(extra)[0]
                    first_bad = ("extra", lo + int(wk), int(pk), int(extra.sum()))
        run.count("pairs_decided", n_inside + n_outside)
        run.count("pairs_decided_inside", n_inside)
        if n_edge:
            run.count("either_way:point_on_window_edge", n_edge)
        if first_bad and not form_problem:
            kind, wk, pk, total = first_bad
            pos = np.unravel_index(wk, ce.shape)
            msg = ("point %d (%r, %r) lies strictly inside window %s centred (%r, %r) of size %r but is not selected"
                   if kind == "missing" else
                   "point %d (%r, %r) lies strictly outside window %s centred (%r, %r) of size %r but is selected")
            run.violation("rolling_window.membership",
                          msg % (pk, float(x[pk]), float(y[pk]), tuple(int(v) for v in pos), float(cx[wk]), float(cy[wk]), size)
                          + " (%d such pairs)" % total,
                          dict(base, window=[int(v) for v in pos], centre=[float(cx[wk]), float(cy[wk])], point_index=pk,
                               point=[float(x[pk]), float(y[pk])], abs_delta=[abs(float(x[pk] - cx[wk])), abs(float(y[pk] - cy[wk]))],
                               half_size=half, margin=margin, returned_index=repr(indices[pos])[:600]),
                          key="membership:" + kind)

        # ---- coverage -----------------------------------------------
        step_e = float(np.max(np.diff(east_vec))) if east_vec.size > 1 else 0.0
        step_n = float(np.max(np.diff(north_vec))) if north_vec.size > 1 else 0.0
        if step_e <= size and step_n <= size:
            run.evaluated("rolling_window.coverage")
            if (shape is not None or adjust == "spacing") and east_vec.size > 1 and north_vec.size > 1:
                hull = (w, e, s, n)
                run.count("coverage:hull_is_region")
            else:  # adjust="region" moves the far border; a single row/column of windows (shape 1) spans one window only
                hull = (float(east_vec.min()) - half, float(east_vec.max()) + half,
                        float(north_vec.min()) - half, float(north_vec.max()) + half)
                run.count("coverage:hull_of_windows")
            rim = margin + loose_tol
            required = (x > hull[0] + rim) & (x < hull[1] - rim) & (y > hull[2] + rim) & (y < hull[3] - rim)
            uncovered = required & ~selected.any(axis=0)
            run.count("coverage:points_required", int(required.sum()))
            edge_only = uncovered & covered_near
            if edge_only.any():
                run.count("either_way:coverage_point_on_shared_edge", int(edge_only.sum()))
            bad = uncovered & ~covered_near
            if bad.any() and not form_problem:
                pk = int(np.flatnonzero(bad)[0])
                run.violation("rolling_window.coverage",
                              "steps between centres (%r east, %r north) do not exceed the size %r, yet point %d (%r, %r) inside "
                              "the windows' hull %s is in no window (%d such points)"
                              % (step_e, step_n, size, pk, float(x[pk]), float(y[pk]), [float(v) for v in hull], int(bad.sum())),
                              dict(base, point_index=pk, point=[float(x[pk]), float(y[pk])], hull=[float(v) for v in hull],
                                   centre_eastings=east_vec, centre_northings=north_vec), key="coverage")
        else:
            run.count("class:windows_do_not_overlap")

        # ---- non-triviality -----------------------------------------
        if n_inside and n_outside and n_win >= 2 and (selected != selected[0:1]).any():
            run.mark_nontrivial("rolling", arrays[0], arrays[1], size, spacing, shape, region, adjust)
        run.observe_max("largest_windows_per_call", n_win)
        if arrays[0].dtype.kind in "iu" and size != np.rint(size):
            run.count("class:integer_coordinates_with_fractional_size")
        if n_win > 2048:
            run.count("class:more_than_2048_windows_in_one_call")
            if shape is not None:
                run.count("class:more_than_2048_windows_given_by_shape")
        run.observe_max("largest_points_per_call", n_pts)

    def post_expanding(ev):
        purity(ev, "expanding_window.purity")
        if ev.exc is not None:
            run.count("raised:expanding_window:" + type(ev.exc).__name__)
            return
        a = ev.args
        try:
            arrays = [np.asarray(c) for c in a["coordinates"]]
            # the centre and sizes the caller passed (snapshot taken before the call)
            centre = np.asarray(ev.pre["center"], dtype="float64").ravel()
            if ev.pre.get("one_shot"):
                if ev.pre["sizes"] is None:
                    run.count("skipped:expanding_one_shot_sizes_not_declared")
                    return
                run.count("expanding:class:sizes_one_shot_iterable_" + ev.pre["one_shot"])
            sizes = [float(v) for v in ev.pre["sizes"]]
            count_spellings(run, "expanding:class:centre", a["center"])
            if not isinstance(a["sizes"], np.ndarray):
                count_spellings(run, "expanding:class:sizes", a["sizes"])
            run.count("expanding:class:sizes_container_" + (("ndarray_" + str(a["sizes"].dtype)) if isinstance(a["sizes"], np.ndarray) else type(a["sizes"]).__name__))
        except Exception:  # noqa: BLE001
            run.count("skipped:expanding_unreadable_input")
            return
        if len(arrays) < 2 or centre.size < 2 or not _finite(arrays[0], arrays[1], centre, sizes) or arrays[0].size == 0:
            run.count("skipped:expanding_nonfinite_or_empty")
            return
        in_shape = arrays[0].shape
        x = arrays[0].ravel().astype("float64")
        y = arrays[1].ravel().astype("float64")
        _describe_input(run, arrays, prefix="expanding:")
        base = {"coordinates": arrays, "center": centre, "sizes": sizes}
        res = ev.result
        run.evaluated("expanding_window.index_form")
        if not isinstance(res, list) or len(res) != len(sizes):
            run.violation("expanding_window.index_form", "result is not a list with one entry per size (%d sizes, got %s of length %s)"
                          % (len(sizes), type(res).__name__, len(res) if hasattr(res, "__len__") else None), base, key="expanding:container")
            return
        selected = np.zeros((len(sizes), x.size), dtype=bool)
        form_problem = None
        for k, idx in enumerate(res):
            flat, prob = index_form(idx, in_shape, arrays)
            if prob:
                if form_problem is None:
                    form_problem = (k, prob, idx)
                continue
            selected[k, flat] = True
        if form_problem:
            k, prob, idx = form_problem
            run.violation("expanding_window.index_form", "entry %d (size %r): %s" % (k, sizes[k], prob),
                          dict(base, entry=k, index=repr(idx)[:600]), key="expanding:index_form:" + prob.split("(")[0][:50])
            return
        n_empty = int((selected.sum(axis=1) == 0).sum())
        run.count("expanding:windows_judged", len(sizes))
        if n_empty:
            run.count("expanding:class:empty_windows", n_empty)
        if sizes != sorted(sizes):
            run.count("expanding:class:unsorted_sizes")
        if len(set(sizes)) != len(sizes):
            run.count("expanding:class:duplicate_sizes")

        # order + membership: entry k must be the window of sizes[k]
        run.evaluated("expanding_window.order_membership")
        dx, dy = np.abs(x - centre[0]), np.abs(y - centre[1])
        margins = []
        bad = None
        n_in = n_out = n_edge = 0
        for k, size in enumerate(sizes):
            half = size / 2
            margin = _margin(size, x, y, centre[:2])
            margins.append(margin)
            inside = (dx < half - margin) & (dy < half - margin)
            outside = (dx > half + margin) | (dy > half + margin)
            n_in += int(inside.sum())
            n_out += int(outside.sum())
            n_edge += int((~inside & ~outside).sum())
            if bad is None:
                missing, extra = inside & ~selected[k], outside & selected[k]
                if missing.any():
                    bad = ("missing", k, int(np.flatnonzero(missing)[0]), int(missing.sum()))
                elif extra.any():
                    bad = ("extra", k, int(np.flatnonzero(extra)[0]), int(extra.sum()))
        run.count("expanding:pairs_decided", n_in + n_out)
        if n_edge:
            run.count("either_way:expanding_point_on_window_edge", n_edge)
        if bad:
            kind, k, pk, total = bad
            other = [j for j, sz in enumerate(sizes) if j != k and
                     not ((dx < sz / 2 - margins[j]) & (dy < sz / 2 - margins[j]) & ~selected[k]).any() and
                     not (((dx > sz / 2 + margins[j]) | (dy > sz / 2 + margins[j])) & selected[k]).any()]
            hint = " (entry %d matches the window of sizes[%d]=%r instead: order of sizes not followed)" % (k, other[0], sizes[other[0]]) if other else ""
            run.violation("expanding_window.order_membership",
                          "entry %d for size %r around centre (%r, %r): point %d (%r, %r) is strictly %s the window but is %s (%d such points)%s"
                          % (k, sizes[k], float(centre[0]), float(centre[1]), pk, float(x[pk]), float(y[pk]),
                             "inside" if kind == "missing" else "outside", "not selected" if kind == "missing" else "selected", total, hint),
                          dict(base, entry=k, point_index=pk, point=[float(x[pk]), float(y[pk])],
                               abs_delta=[float(dx[pk]), float(dy[pk])], half_size=sizes[k] / 2, margin=margins[k],
                               returned_index=repr(res[k])[:600]),
                          key="expanding:" + ("order" if other else "membership:" + kind))

        # nesting, judged directly on the returned selections
        run.evaluated("expanding_window.nesting")
        nest_bad = None
        for i in range(len(sizes)):
            for j in range(len(sizes)):
                if i == j or sizes[i] > sizes[j]:
                    continue
                lost = selected[i] & ~selected[j]
                if not lost.any():
                    continue
                half, margin = sizes[j] / 2, margins[j]
                decided = lost & (dx < half - margin) & (dy < half - margin)
                if (lost & ~decided).any():
                    run.count("either_way:nesting_point_on_edge", int((lost & ~decided).sum()))
                if decided.any() and nest_bad is None:
                    nest_bad = (i, j, int(np.flatnonzero(decided)[0]))
        if nest_bad:
            i, j, pk = nest_bad
            run.violation("expanding_window.nesting",
                          "window of size %r (entry %d) selects point %d (%r, %r) that the larger window of size %r (entry %d) does not"
                          % (sizes[i], i, pk, float(x[pk]), float(y[pk]), sizes[j], j),
                          dict(base, entries=[i, j], point_index=pk, point=[float(x[pk]), float(y[pk])]), key="expanding:nesting")
        if len(sizes) >= 2 and (selected != selected[0:1]).any() and n_in and n_out:
            run.mark_nontrivial("expanding", arrays[0], arrays[1], centre, sizes)
        run.observe_max("largest_expanding_window_point_count", x.size)
        if arrays[0].dtype.kind in "iu" and any(v != np.rint(v) for v in sizes):
            run.count("expanding:class:integer_coordinates_with_fractional_sizes")
            if centre[0] != np.rint(centre[0]) or centre[1] != np.rint(centre[1]):
                run.count("expanding:class:integer_coordinates_fractional_sizes_off_lattice_centre")
        if x.size >= 10_000:
            run.count("expanding:class:at_least_10000_points")
        if x.size >= 100_000:
            run.count("expanding:class:at_least_100000_points")

    # defaults as documented in the docstrings: an argument the caller leaves out is judged by these, not by the tree's signature
    tap.function(vc, "rolling_window", post=post_rolling, pre=pre_rolling,
                 documented={"spacing": None, "shape": None, "region": None, "adjust": "spacing"})
    tap.function(vc, "expanding_window", post=post_expanding, pre=pre_expanding, documented={})


# ----------------------------------------------------------------------
# workloads
# ----------------------------------------------------------------------
def _layout(rng, flat_arrays, allow_2d=True):
    """Present the same point sequence as 1-D, 2-D (C / Fortran order) or strided arrays."""
    size = flat_arrays[0].size
    if rng.random() < 0.2 and flat_arrays[0].dtype.kind == "f" and flat_arrays[1].dtype.kind == "f":
        # argument aliasing: easting and northing are column views of one common table
        east, north = flat_arrays[0], flat_arrays[1]
        rest = list(flat_arrays[2:])
        if allow_2d and rng.random() < 0.3 and size >= 4:
            rows = [r for r in range(2, min(size, 40)) if size % r == 0]
            if rows:
                r = int(rng.choice(rows))
                east, north = east.reshape(r, -1), north.reshape(r, -1)
                rest = [a.reshape(r, -1) for a in rest]
        ev, nv, kind, _ = table_views(rng, east, north)
        ALIAS_KIND[id(ev)] = kind
        return (ev, nv) + tuple(np.ascontiguousarray(a) for a in rest)
    mode = int(rng.integers(0, 6))
    if allow_2d and mode in (1, 2, 3) and size >= 4:
        rows = [r for r in range(2, min(size, 40)) if size % r == 0 and size // r != r]
        if not rows:
            rows = [r for r in range(2, min(size, 40)) if size % r == 0]
        if rows:
            r = int(rng.choice(rows))
            out = [a.reshape(r, size // r) for a in flat_arrays]
            if mode == 2:
                out = [np.asfortranarray(a) for a in out]
            elif mode == 3:  # a strided 2-D view of a larger buffer
                views = []
                for a in out:
                    big = np.full((a.shape[0] * 2, a.shape[1] * 3), -777, dtype=a.dtype)
                    big[::2, 1::3] = a
                    views.append(big[::2, 1::3])
                out = views
            return tuple(out)
    if mode == 4:
        views = []
        for a in flat_arrays:
            big = np.full(size * 2, -777, dtype=a.dtype)
            big[::2] = a
            views.append(big[::2])
        return tuple(views)
    if mode == 5:
        out = []
        for a in flat_arrays:
            c = a.copy()
            c.setflags(write=False)
            out.append(c)
        return tuple(out)
    return tuple(np.ascontiguousarray(a) for a in flat_arrays)


def _extras(rng, east):
    k = int(rng.choice([0, 0, 1, 2]))
    out = [rng.normal(size=east.size) * 100 + 7 * j for j in range(k)]
    if out and rng.random() < 0.3:
        out[0] = np.zeros(east.size)  # falsy but valid: an extra coordinate equal to 0 everywhere
    return out


def _poison(rng, flat, rate=0.3):
    """
    Extra coordinates (3rd, 4th array: height, time) with NaN / +-inf at some points whose easting and northing are finite,
    the points on the border of the cloud included. Extras are documented as ignored. Returns (arrays, poisoned?).
    """
    if rng.random() >= rate:
        return flat, False
    east, north = np.asarray(flat[0]), np.asarray(flat[1])
    extras = [np.array(x, dtype="float64") for x in flat[2:]]
    if not extras:
        extras = [rng.normal(size=east.size) * 10 + 500.0]
    if len(extras) == 1 and rng.random() < 0.4:
        extras.append(rng.uniform(0, 1e3, east.size))
    border = [int(np.argmin(east)), int(np.argmax(east)), int(np.argmin(north)), int(np.argmax(north))]
    for extra in extras:
        where = list(rng.integers(0, east.size, int(rng.integers(1, 4))))
        if rng.random() < 0.7:
            where += [border[int(j)] for j in rng.integers(0, 4, int(rng.integers(1, 5)))]
        for j in where:
            extra[j] = float(rng.choice([np.nan, np.nan, np.inf, -np.inf]))
    return [flat[0], flat[1]] + extras, True


def _same_selection(a, b):
    """Two index objects (tuples of index arrays) select the same set of points."""
    if len(a) != len(b):
        return False
    return sorted(zip(*[np.asarray(p).tolist() for p in a])) == sorted(zip(*[np.asarray(p).tolist() for p in b]))


def _aliasing_twin(run, what, coords, result, call):
    """Table views of one array must give what contiguous copies of the same values give."""
    if share_a_table(coords[0], coords[1]):
        run.count("aliasing:" + ALIAS_KIND.get(id(coords[0]), "unknown"))
        copies = tuple(np.array(c, order="C", copy=True) for c in coords)
        _extras_ignored(run, what, result, call(copies), monitor="aliasing_twin", label="table views instead of contiguous copies")


def _extras_ignored(run, what, with_extras, without, monitor="extras_ignored", label="non-finite extra coordinates"):
    """Metamorphic twin: the call on (easting, northing, extras...) must equal the call on (easting, northing)."""
    run.evaluated(monitor + "." + what)
    problem = None
    if (with_extras is None) != (without is None):
        problem = "one of the two calls was refused"
    elif with_extras is not None:
        if what == "rolling_window":
            (c1, i1), (c2, i2) = with_extras, without
            if not all(np.array_equal(a, b) for a, b in zip(c1, c2)):
                problem = "window centres differ"
            elif i1.shape != i2.shape or not all(_same_selection(a, b) for a, b in zip(i1.ravel(), i2.ravel())):
                problem = "window indices differ"
        elif len(with_extras) != len(without) or not all(_same_selection(a, b) for a, b in zip(with_extras, without)):
            problem = "window indices differ"
    if problem:
        run.violation(monitor + "." + what, label + " changed the result: " + problem,
                      {"result": repr(with_extras)[:800], "twin_result": repr(without)[:800]}, key=monitor + ":" + what)


def _one_shot(rng, sizes):
    """The sizes as a one-shot iterable (declared to the monitor, which cannot read it without consuming it)."""
    intended = [float(v) for v in np.asarray(sizes, dtype="float64").ravel()]
    kind = int(rng.integers(0, 4))
    if kind == 0:
        obj = reversed(intended[::-1])
    elif kind == 1:
        obj = map(float, [repr(v) for v in intended])
    elif kind == 2:
        obj = (v for v in intended)
    else:
        obj = iter(intended)
    ONE_SHOT_SIZES[id(obj)] = intended
    return obj, intended


def _spell_pair(rng, pair, integers=False):
    """(south-north, west-east) spacing or shape as tuple / list / ndarray, elements python or numpy scalars."""
    a, b = (int(v) for v in pair) if integers else (float(v) for v in pair)
    form = int(rng.integers(0, 5))
    if form == 0:
        return (a, b)
    if form == 1:
        return [a, b]
    if form == 2:
        return np.array([a, b])
    if form == 3:
        return (np.int64(a), np.int32(b)) if integers else (np.float64(a), np.float64(b))
    return [np.int64(a), b] if integers else np.array([a, b], dtype="float64")


def _composite(rng, lo, hi):
    """A point count that factors as rows x cols with rows != cols most of the time."""
    r, c = int(rng.integers(2, 16)), int(rng.integers(2, 26))
    n = r * c
    return int(min(max(n, lo), hi))


def _call_rolling(run, vc, coords, **kwargs):
    """
    Call rolling_window, tolerating the two refusals at the size == smaller-side boundary:
    the documented one (size larger than the region) and, when the size equals the region's smaller side
    to within 1e-9 (boundary case, either way), the 'Invalid region' error that round-off in
    w + size/2 > e - size/2 provokes (counted, and reported as an observation, not as a C14 refutation:
    the statement is about returned indices).
    """
    try:
        with warnings.catch_warnings():
            warnings.simplefilter("ignore")
            return vc.rolling_window(coords, **kwargs)
    except ValueError as exc:
        region = kwargs.get("intended_region", kwargs.get("region"))
        tol = 8 * EPS32 if region is not None and region_is_single_precision(kwargs.get("region")) else REL_MARGIN
        if region is None:
            x, y = np.asarray(coords[0], dtype="float64"), np.asarray(coords[1], dtype="float64")
            region = [x.min(), x.max(), y.min(), y.max()]
        side = min(float(region[1]) - float(region[0]), float(region[3]) - float(region[2]))
        size = float(kwargs["size"])
        if "is larger than dimensions of the region" in str(exc) and size >= side * (1 - tol):
            run.count("refused:window_larger_than_region")
            return None
        if "Invalid region" in str(exc) and abs(size - side) <= tol * side:
            run.count("refused:size_equals_side_within_roundoff(either_way)")
            return None
        raise


def _region_object(rng, region):
    """
    The same bounds in one of the containers a caller may use. Returns (object to pass, the float values it holds, keep-alive):
    list, tuple, float64 ndarray, a row view of a 2-D table of regions, float32 ndarray, integer ndarray (bounds rounded
    outwards, only when the region is at least 40 units wide).
    """
    w, e, s, n = (float(v) for v in region)
    kind = int(rng.integers(0, 7))
    if kind == 5 and min(e - w, n - s) < 40:
        kind = 2
    if kind == 0:
        obj = [w, e, s, n]
    elif kind == 1:
        obj = (w, e, s, n)
    elif kind == 2:
        obj = np.array([w, e, s, n], dtype="float64")
    elif kind == 3:
        table = np.array([[w - 1, e + 1, s - 1, n + 1], [w, e, s, n], [0.0, 1.0, 0.0, 1.0]], dtype="float64")
        obj = table[1]
    elif kind == 4:
        obj = np.array([w, e, s, n], dtype="float32")
        if not (obj[0] < obj[1] and obj[2] < obj[3]):
            obj = np.array([w, e, s, n], dtype="float64")
    elif kind == 5:
        obj = np.array([np.floor(w), np.ceil(e), np.floor(s), np.ceil(n)], dtype="int64" if rng.random() < 0.6 else "int32")
    else:
        obj = [np.float64(w), np.float64(e), np.float64(s), np.float64(n)]
    return obj, [float(v) for v in obj]


def _rolling_case(run, vc, rng):
    n_pts = 1 if rng.random() < 0.03 else (_composite(rng, 2, 400) if rng.random() < 0.7 else int(rng.integers(2, 400)))
    east, north = gen.cloud(rng, n_pts)
    w0, e0, s0, n0 = float(east.min()), float(east.max()), float(north.min()), float(north.max())
    wid, hei = (e0 - w0) or abs(e0) or 1.0, (n0 - s0) or abs(n0) or 1.0
    mode = int(rng.integers(0, 4)) if n_pts > 1 else int(rng.integers(1, 4))
    if mode == 0:
        region = None
        w, e, s, n = w0, e0, s0, n0
    else:
        if mode == 1:  # padded bounding box
            pad = rng.uniform(0.0, 0.3, 4)
            w, e, s, n = w0 - pad[0] * wid, e0 + pad[1] * wid, s0 - pad[2] * hei, n0 + pad[3] * hei
        elif mode == 2:  # cuts through the cloud
            cut = rng.uniform(0.05, 0.4, 4)
            w, e, s, n = w0 + cut[0] * wid, e0 - cut[1] * wid, s0 + cut[2] * hei, n0 - cut[3] * hei
        else:  # shifted: partly beside the cloud
            sh = rng.uniform(-0.6, 0.6, 2)
            w, e, s, n = w0 + sh[0] * wid, e0 + sh[0] * wid, s0 + sh[1] * hei, n0 + sh[1] * hei
        region, (w, e, s, n) = _region_object(rng, [w, e, s, n])
    side = min(e - w, n - s)
    longer = max(e - w, n - s)
    pick = rng.random()
    if pick < 0.08:
        size = side
    elif pick < 0.5:
        size = side * gen.log_uniform(rng, 0.02, 1.0)
    else:
        size = side * rng.uniform(0.05, 1.0)
    if rng.random() < 0.02:
        size = side * 1.05  # documented refusal: window larger than the region
    size = float(size)
    if not size > 0:
        return
    # keep windows x points bounded: at most ~max_per_axis windows along the longer side
    max_per_axis = max(2, int(np.sqrt(MAX_PAIRS / max(n_pts, 50))))
    min_step = max(longer - size, size * 0.01) / max_per_axis
    kwargs = {"size": size}
    how = int(rng.integers(0, 3))
    if how == 0:
        kwargs["spacing"] = float(max(size * rng.uniform(0.2, 1.6), min_step))
    elif how == 1:
        kwargs["spacing"] = (float(max(size * rng.uniform(0.2, 1.6), min_step)), float(max(size * rng.uniform(0.2, 1.6), min_step)))
    else:
        top = min(max_per_axis, 40)
        kwargs["shape"] = (int(rng.integers(2, top + 1)), int(rng.integers(2, top + 1)))
        if rng.random() < 0.12:
            # a single row and/or column of windows. verde divides the extent by (n - 1): that only returns (with an
            # infinite 'spacing' and the no-overlap warning, as the pinned test_rolling_window_warnings expects) when the
            # region bounds are numpy floats - inferred regions are; python floats raise ZeroDivisionError instead.
            one = int(rng.integers(0, 3))
            kwargs["shape"] = (1 if one in (0, 2) else kwargs["shape"][0], 1 if one in (1, 2) else kwargs["shape"][1])
            if isinstance(region, (list, tuple)):
                region = [np.float64(v) for v in region]
    if region is not None:
        kwargs["region"] = region
    if rng.random() < 0.5:
        kwargs["adjust"] = str(rng.choice(["spacing", "region"]))
    # equivalent spellings of the same numbers (the size stays the very same value; float32 only away from the size == side boundary)
    kwargs["size"] = spell_number(rng, size, single_ok=size < 0.9 * side)
    if "spacing" in kwargs:
        kwargs["spacing"] = _spell_pair(rng, kwargs["spacing"]) if isinstance(kwargs["spacing"], tuple) else \
            spell_number(rng, kwargs["spacing"], single_ok=True)
    else:
        kwargs["shape"] = _spell_pair(rng, kwargs["shape"], integers=True)
    flat, poisoned = _poison(rng, [east, north] + _extras(rng, east))
    coords = _layout(rng, flat)
    out = _call_rolling(run, vc, coords, **kwargs)
    if poisoned:
        _extras_ignored(run, "rolling_window", out, _call_rolling(run, vc, coords[:2], **kwargs))
    _aliasing_twin(run, "rolling_window", coords, out, lambda c: _call_rolling(run, vc, c, **kwargs))
    if out is not None:
        run.sample("rolling", {"coordinates": coords[:2], "n_extra": len(coords) - 2, "kwargs": kwargs,
                               "centres_shape": list(out[0][0].shape), "first_window_index": repr(out[1].ravel()[0])[:300]})


def _edge_lattice(rng):
    """Points of a dyadic lattice plus points a tiny (decidable or not) distance beside lattice lines."""
    m, p = int(rng.integers(4, 14)), int(rng.integers(4, 14))
    step = float(2.0 ** int(rng.integers(-3, 4)))
    off = np.array([float(rng.integers(-64, 64)) * step, float(rng.integers(-64, 64)) * step])
    gx, gy = np.meshgrid(np.arange(m + 1.0), np.arange(p + 1.0))
    east = gx.ravel() * step + off[0]
    north = gy.ravel() * step + off[1]
    return m, p, step, off, east, north


def _rolling_edge_case(run, vc, rng):
    m, p, step, off, east, north = _edge_lattice(rng)
    region = [off[0], off[0] + m * step, off[1], off[1] + p * step]
    # window size an integer number (or half) of lattice steps: window edges fall on lattice lines
    size = float(rng.choice([1, 2, 3, 4, 1.5, 2.5, 0.5])) * step
    size = min(size, min(m, p) * step)
    kwargs = {"size": size, "region": _region_object(rng, region)[0] if rng.random() < 0.7 else None}
    if rng.random() < 0.7:
        kwargs["spacing"] = float(rng.choice([0.5, 1, 1.5, 2, 3])) * step
        kwargs["adjust"] = str(rng.choice(["spacing", "region"]))
    else:
        kwargs["shape"] = (int(rng.integers(2, 12)), int(rng.integers(2, 12)))
    integer = rng.random() < 0.35 and step >= 1
    if integer:
        flat = [east.astype("int64"), north.astype("int64")]
    else:
        # shift a subset of points beside the lattice lines by deltas around the either-way margin
        delta = rng.choice([0.0, 1e-12, 1e-10, 1e-8, 1e-6, 1e-3], east.size) * rng.choice([-1.0, 1.0], east.size) * size
        which = rng.random(east.size)
        east = np.where(which < 0.4, east + delta, east)
        north = np.where(which > 0.6, north + delta, north)
        flat = [east, north]
    flat, poisoned = _poison(rng, flat + _extras(rng, east), rate=0.2)
    if kwargs["region"] is None:
        del kwargs["region"]
    kwargs["size"] = spell_number(rng, size, single_ok=size < 0.9 * min(m, p) * step)
    if "spacing" in kwargs:
        kwargs["spacing"] = spell_number(rng, kwargs["spacing"], single_ok=True) if rng.random() < 0.7 else \
            _spell_pair(rng, (kwargs["spacing"], kwargs["spacing"]))
    else:
        kwargs["shape"] = _spell_pair(rng, kwargs["shape"], integers=True)
    coords = _layout(rng, flat)
    if coords[0].ndim == 1 and rng.random() < 0.5:
        coords = tuple(c.reshape(p + 1, m + 1) for c in coords)
    out = _call_rolling(run, vc, coords, **kwargs)
    if poisoned:
        _extras_ignored(run, "rolling_window", out, _call_rolling(run, vc, coords[:2], **kwargs))
    _aliasing_twin(run, "rolling_window", coords, out, lambda c: _call_rolling(run, vc, c, **kwargs))
    if out is not None:
        run.sample("rolling_edge", {"lattice": [m + 1, p + 1], "step": step, "offset": off, "integer_dtype": bool(integer), "kwargs": kwargs,
                                    "centres_shape": list(out[0][0].shape)})


def _spell_centre(rng, cx, cy):
    """One point written as tuple / list / ndarray / numpy scalars / 0-d arrays / a (1, 2) array (ints when integer-valued)."""
    cx, cy = float(cx), float(cy)
    form = int(rng.integers(0, 7))
    if form == 0:
        return (cx, cy)
    if form == 1:
        return [cx, cy]
    if form == 2:
        return np.array([cx, cy])
    if form == 3:
        return (np.float64(cx), np.float64(cy))
    if form == 4:
        return (np.array(cx), np.array(cy))
    if form == 5:
        return np.array([[cx, cy]])
    return (spell_number(rng, cx, zero_d=False), spell_number(rng, cy))


def _sizes_list(rng, extent, k=None):
    k = int(rng.integers(1, 9)) if k is None else k
    sizes = extent * rng.uniform(0.0, 2.5, k)
    if k > 2 and rng.random() < 0.4:
        sizes[int(rng.integers(0, k))] = sizes[int(rng.integers(0, k))]  # duplicate
    if rng.random() < 0.15:
        sizes[int(rng.integers(0, k))] = 0.0
    if rng.random() < 0.2:
        sizes[int(rng.integers(0, k))] = extent * 1e-6  # certainly empty unless centred on a point
    rng.shuffle(sizes)
    form = int(rng.integers(0, 4))
    if form == 3:  # a list mixing python and numpy scalars and 0-d arrays
        return [spell_number(rng, v) for v in sizes]
    if form == 0:
        return [float(v) for v in sizes]
    if form == 1:
        return tuple(float(v) for v in sizes)
    return np.asarray(sizes)


def _expanding_case(run, vc, rng):
    for _ in range(6):
        n_pts = _composite(rng, 2, 400) if rng.random() < 0.7 else int(rng.integers(1, 400))
        east, north = gen.cloud(rng, n_pts)
        w, e, s, n = float(east.min()), float(east.max()), float(north.min()), float(north.max())
        wid, hei = (e - w) or 1.0, (n - s) or 1.0
        extent = max(wid, hei)
        where = int(rng.integers(0, 4))
        if where == 0:
            centre = (rng.uniform(w, e), rng.uniform(s, n))
        elif where == 1:
            k = int(rng.integers(0, n_pts))
            centre = (east[k], north[k])
        elif where == 2:
            centre = (w - rng.uniform(0, 1) * wid, n + rng.uniform(0, 1) * hei)
        else:
            centre = (0.5 * (w + e), 0.5 * (s + n))
        centre = _spell_centre(rng, centre[0], centre[1])
        sizes = _sizes_list(rng, extent)
        flat = [east, north] + _extras(rng, east)
        if rng.random() < 0.06:
            # falsy but valid: every point on the northing axis (easting == 0), with a non-zero extra coordinate
            flat = [np.zeros(east.size), north, east]
            centre = _spell_centre(rng, 0.0, float(np.asarray(centre, dtype="float64").ravel()[1]))
        flat, poisoned = _poison(rng, flat)
        coords = _layout(rng, flat)
        declared = sizes
        if rng.random() < 0.3:
            sizes, declared = _one_shot(rng, sizes)
        out = vc.expanding_window(coords, center=centre, sizes=sizes)
        if poisoned:
            _extras_ignored(run, "expanding_window", out, vc.expanding_window(coords[:2], center=centre, sizes=declared))
        _aliasing_twin(run, "expanding_window", coords, out, lambda c: vc.expanding_window(c, center=centre, sizes=declared))
        sizes = declared
    run.sample("expanding", {"coordinates": coords[:2], "n_extra": len(coords) - 2, "center": centre, "sizes": sizes,
                             "selected_per_size": [int(np.size(i[0])) for i in out]})


def _expanding_edge_case(run, vc, rng):
    for _ in range(6):
        m, p, step, off, east, north = _edge_lattice(rng)
        half_node = rng.random() < 0.5
        cx = off[0] + (int(rng.integers(0, m + 1)) + (0.5 if half_node else 0.0)) * step
        cy = off[1] + (int(rng.integers(0, p + 1)) + (0.5 if half_node else 0.0)) * step
        k = int(rng.integers(2, 8))
        sizes = [float(v) * step for v in rng.integers(0, 2 * max(m, p), k)]
        if rng.random() < 0.5:
            sizes = [v + float(rng.choice([0.0, 1e-12, -1e-12, 1e-7, -1e-7, 1e-3])) * step for v in sizes]
            sizes = [max(v, 0.0) for v in sizes]
        integer = rng.random() < 0.35 and step >= 1
        flat = [east.astype("int64"), north.astype("int64")] if integer else [east, north]
        flat, poisoned = _poison(rng, flat + _extras(rng, east), rate=0.2)
        coords = _layout(rng, flat)
        if coords[0].ndim == 1 and rng.random() < 0.5:
            coords = tuple(c.reshape(p + 1, m + 1) for c in coords)
        if rng.random() < 0.5:
            sizes = [spell_number(rng, v) for v in sizes]
        declared = sizes
        if rng.random() < 0.3:
            sizes, declared = _one_shot(rng, sizes)
        centre = _spell_centre(rng, cx, cy)
        out = vc.expanding_window(coords, center=centre, sizes=sizes)
        if poisoned:
            _extras_ignored(run, "expanding_window", out, vc.expanding_window(coords[:2], center=centre, sizes=declared))
        sizes = declared
    run.sample("expanding_edge", {"lattice": [m + 1, p + 1], "step": step, "center": [float(cx), float(cy)], "sizes": sizes,
                                  "selected_per_size": [int(np.size(i[0])) for i in out]})


# ----------------------------------------------------------------------
# call histories: the SAME ndarray objects, modified in place between calls
# ----------------------------------------------------------------------
def _history_set(rng):
    n_pts = _composite(rng, 12, 260)
    east, north = gen.cloud(rng, n_pts, scale=gen.log_uniform(rng, 1.0, 1e4), offset_factor=float(rng.choice([0.0, 1.0, 30.0])))
    flat = [east, north] + _extras(rng, east)
    if rng.random() < 0.55:
        rows = [r for r in range(2, min(n_pts, 40)) if n_pts % r == 0]
        r = int(rng.choice(rows)) if rows else 1
        flat = [a.reshape(r, n_pts // r) for a in flat]
    arrays = tuple(np.array(a, dtype="float64", order="C", copy=True) for a in flat)  # own, writable, fresh objects
    w, e, s, n = float(east.min()), float(east.max()), float(north.min()), float(north.max())
    pad = rng.uniform(0.05, 0.3, 4)
    region = [w - pad[0] * (e - w), e + pad[1] * (e - w), s - pad[2] * (n - s), n + pad[3] * (n - s)]
    # ONE region object per set, passed to every rolling_window call on the set; "region" is the caller's own copy of its values
    region_obj, region = _region_object(rng, region)
    table = region_obj.base.copy() if isinstance(region_obj, np.ndarray) and region_obj.base is not None else None
    return {"arrays": arrays, "region": region, "region_obj": region_obj, "region_table": table, "box": (w, e, s, n), "dirty": False,
            "calls": [], "ids": tuple(id(a) for a in arrays), "region_uses": 0}


def _history_mutate(run, rng, hset):
    """Change the contents of the very same ndarray objects."""
    east, north = hset["arrays"][0], hset["arrays"][1]
    w, e, s, n = hset["box"]
    wid, hei = e - w, n - s
    op = int(rng.integers(0, 7))
    if op == 0:
        east += rng.uniform(-0.25, 0.25) * wid
        north += rng.uniform(-0.25, 0.25) * hei
        name = "iadd_shift"
    elif op == 1:  # rescale about the box centre, all in place
        f = rng.uniform(0.5, 1.2)
        for arr, mid in ((east, 0.5 * (w + e)), (north, 0.5 * (s + n))):
            arr -= mid
            arr *= f
            arr += mid
        name = "imul_scale"
    elif op == 2:  # slice assignment through the flat view
        k = int(rng.integers(1, east.size + 1))
        east.reshape(-1)[:k] = rng.uniform(w, e, k)
        north.reshape(-1)[:k] = rng.uniform(s, n, k)
        name = "slice_assignment"
    elif op == 3 and east.ndim == 2:  # partial overwrite of a 2-D array: one row or one column
        if rng.random() < 0.5:
            i = int(rng.integers(0, east.shape[0]))
            east[i, :] = rng.uniform(w, e, east.shape[1])
            north[i, :] = rng.uniform(s, n, east.shape[1])
        else:
            j = int(rng.integers(0, east.shape[1]))
            east[:, j] = rng.uniform(w, e, east.shape[0])
            north[:, j] = rng.uniform(s, n, east.shape[0])
        name = "partial_overwrite_2d"
    elif op == 4:  # shuffle one coordinate only: every point changes partner
        rng.shuffle(east.reshape(-1))
        name = "shuffle_one_coordinate"
    elif op == 5:  # exchange the contents of the two arrays
        tmp = east.copy()
        east[...] = w + (north - s) * (wid / hei if hei else 1.0)
        north[...] = s + (tmp - w) * (hei / wid if wid else 1.0)
        name = "contents_exchanged"
    else:  # everything replaced
        east[...] = rng.uniform(w, e, east.shape)
        north[...] = rng.uniform(s, n, east.shape)
        name = "full_overwrite"
    assert tuple(id(a) for a in hset["arrays"]) == hset["ids"]
    hset["dirty"] = True
    run.count("history:inplace_" + name)


def _history_rolling(run, vc, rng, hset, reuse=None):
    """reuse: None = new parameters, 'same' = identical to the previous rolling call on this set, or which part changes."""
    region = hset["region"]
    side = min(region[1] - region[0], region[3] - region[2])
    prev = hset.get("rolling")
    if reuse is not None and prev is not None:
        kwargs = dict(prev)
        if reuse == "other_size":
            kwargs["size"] = float(side * rng.uniform(0.1, 0.6))
        elif reuse == "other_step":
            if "shape" in kwargs:
                kwargs["shape"] = (int(rng.integers(2, 12)), int(rng.integers(2, 12)))
            else:
                kwargs["spacing"] = float(kwargs["size"] * rng.uniform(0.3, 1.4))
        elif reuse == "other_adjust" and "spacing" in kwargs:
            kwargs["adjust"] = "region" if kwargs.get("adjust", "spacing") == "spacing" else "spacing"
        elif reuse == "inferred_region":
            kwargs.pop("region", None)
            x, y = hset["arrays"][0], hset["arrays"][1]
            now = min(float(x.max() - x.min()), float(y.max() - y.min()))
            kwargs["size"] = float(min(kwargs["size"], now * rng.uniform(0.2, 0.9)))
            if not kwargs["size"] > 0:
                return
    else:
        size = float(side * rng.uniform(0.1, 0.6))
        kwargs = {"size": size, "region": hset["region_obj"]}
        if rng.random() < 0.6:
            kwargs["spacing"] = float(size * rng.uniform(0.3, 1.4))
            kwargs["adjust"] = str(rng.choice(["spacing", "region"]))
        else:
            kwargs["shape"] = (int(rng.integers(2, 12)), int(rng.integers(2, 12)))
    key = repr(sorted((k, v) for k, v in kwargs.items() if k != "region")) + repr("region" in kwargs)
    if hset["dirty"]:
        run.count("history:rolling_call_on_arrays_modified_in_place")
        if key in hset["calls"]:
            run.count("history:rolling_same_parameters_after_inplace_change")
    if prev is not None and reuse in ("other_size", "other_step", "other_adjust") and \
            any(kwargs.get(k) != prev.get(k) for k in ("size", "spacing", "shape", "adjust")):
        run.count("history:rolling_same_region_" + reuse)
    hset["calls"].append(key)
    if "region" in kwargs:
        hset["rolling"] = dict(kwargs)
    out = _call_rolling(run, vc, hset["arrays"], **kwargs)
    run.count("history:rolling_calls")
    if "region" in kwargs:
        # the caller's region object must still hold the caller's values, however often it has been passed
        hset["region_uses"] += 1
        if hset["region_uses"] > 1:
            run.count("history:rolling_calls_reusing_the_region_object")
            run.count("history:region_object_reused_" + region_container(hset["region_obj"]))
        run.evaluated("history.region_object_unchanged")
        now = [float(v) for v in hset["region_obj"]]
        table_ok = hset["region_table"] is None or np.array_equal(hset["region_obj"].base, hset["region_table"])
        if now != hset["region"] or not table_ok:
            run.violation("history.region_object_unchanged",
                          "after %d rolling_window calls with the same region object (%s) it holds %r, the caller put %r there"
                          % (hset["region_uses"], region_container(hset["region_obj"]), now, hset["region"]),
                          {"region_now": now, "region_intended": hset["region"], "container": region_container(hset["region_obj"]),
                           "uses": hset["region_uses"], "kwargs": {k: v for k, v in kwargs.items() if k != "region"}},
                          key="history:region_object")
            hset["region_obj"][...] = hset["region"] if isinstance(hset["region_obj"], np.ndarray) else hset["region_obj"]
    return out


def _history_expanding(run, vc, rng, hset, reuse=False):
    w, e, s, n = hset["box"]
    prev = hset.get("expanding")
    if reuse and prev is not None:
        centre, sizes = prev
    else:
        centre = (float(rng.uniform(w, e)), float(rng.uniform(s, n)))
        sizes = _sizes_list(rng, max(e - w, n - s) * 0.6, k=int(rng.integers(2, 6)))
        hset["expanding"] = (centre, sizes)
    key = repr((centre, np.asarray(sizes).tolist()))
    if hset["dirty"]:
        run.count("history:expanding_call_on_arrays_modified_in_place")
        if key in hset["calls"]:
            run.count("history:expanding_same_parameters_after_inplace_change")
    hset["calls"].append(key)
    run.count("history:expanding_calls")
    return vc.expanding_window(hset["arrays"], center=centre, sizes=sizes)


def _history_case(run, vc, rng):
    """
    rolling_window / expanding_window called repeatedly on the same coordinate objects whose contents change in place in
    between, interleaved with a second coordinate set and with the two functions alternating. Every return is judged by the
    monitors against the arrays' contents at return time, so anything cached on object identity (or on region/shape only)
    shows up as stale windows or stale centres.
    """
    sets = [_history_set(rng), _history_set(rng)]
    first = sets[0]
    # fixed backbone: call, change in place, call again with the same parameters
    _history_rolling(run, vc, rng, first)
    _history_expanding(run, vc, rng, first)
    _history_mutate(run, rng, first)
    _history_rolling(run, vc, rng, first, reuse="same")
    _history_expanding(run, vc, rng, first, reuse=True)
    _history_rolling(run, vc, rng, sets[1])
    for _ in range(int(rng.integers(8, 14))):
        hset = sets[0] if rng.random() < 0.65 else sets[1]
        action = rng.random()
        if action < 0.3:
            _history_mutate(run, rng, hset)
        elif action < 0.7:
            reuse = rng.choice(["same", "same", "other_size", "other_step", "other_adjust", "inferred_region", "new"])
            _history_rolling(run, vc, rng, hset, reuse=None if reuse == "new" else str(reuse))
        else:
            _history_expanding(run, vc, rng, hset, reuse=bool(rng.random() < 0.6))
    out = _history_rolling(run, vc, rng, first, reuse="same")
    run.count("history:cases")
    if out is not None:
        run.sample("history", {"coordinates_now": list(first["arrays"][:2]), "calls_on_this_set": len(first["calls"]),
                               "last_rolling_kwargs": first.get("rolling"), "centres_shape": list(out[0][0].shape)})


def _integer_fractional_case(run, vc, rng):
    """
    Integer-dtype coordinate arrays (int64 / int32 lattices and scatters) with window sizes that are not whole numbers and
    centres off the integer lattice: membership is a float64 question (a radius computed in the coordinates' dtype truncates).
    """
    for _ in range(4):
        dtype = str(rng.choice(["int64", "int32"]))
        if rng.random() < 0.5:
            m, p = int(rng.integers(5, 16)), int(rng.integers(5, 16))
            gx, gy = np.meshgrid(np.arange(m) + int(rng.integers(-50, 50)), np.arange(p) + int(rng.integers(-50, 50)))
            east, north = gx.ravel().astype(dtype), gy.ravel().astype(dtype)
            if rng.random() < 0.5:
                east, north = east.reshape(p, m), north.reshape(p, m)
        else:
            n_pts = int(rng.integers(20, 200))
            east = rng.integers(-40, 40, n_pts).astype(dtype)
            north = rng.integers(-30, 30, n_pts).astype(dtype)
        w, e, s, n = float(east.min()), float(east.max()), float(north.min()), float(north.max())
        # expanding windows: fractional sizes, centre off the lattice
        centre = (round(float(rng.uniform(w, e)), 1) + 0.03, round(float(rng.uniform(s, n)), 1) + 0.07)
        sizes = [float(v) for v in rng.choice([7.6, 3.3, 0.5, 1.5, 2.25, 11.1, 0.9, 4.0], int(rng.integers(2, 6)))]
        coords = (east, north) + ((rng.normal(size=east.shape),) if rng.random() < 0.3 else ())
        vc.expanding_window(coords, center=_spell_centre(rng, *centre), sizes=sizes if rng.random() < 0.6 else np.array(sizes))
        # rolling windows: float size and spacing on the integer arrays
        side = min(e - w, n - s)
        if side >= 2:
            size = float(rng.choice([0.5, 1.5, 2.3, 3.3, 0.9]))
            size = min(size, side * 0.9)
            kwargs = {"size": size, "spacing": float(size * rng.uniform(0.5, 1.3))}
            if rng.random() < 0.5:
                kwargs["region"] = [w - 0.25, e + 0.25, s - 0.4, n + 0.4]
            if rng.random() < 0.5:
                kwargs["adjust"] = str(rng.choice(["spacing", "region"]))
            _call_rolling(run, vc, coords, **kwargs)
    run.sample("integer_fractional", {"dtype": dtype, "coordinates": [east, north], "center": centre, "sizes": sizes})


def _large_case(run, vc, rng, index):
    """Large counts judged by the membership monitors: > 2048 windows in one call, expanding windows on 1e4 / 1e5 points."""
    kind = index % 3
    if kind == 0:
        n_pts = int(rng.integers(150, 450))
        east, north = gen.cloud(rng, n_pts, scale=gen.log_uniform(rng, 1.0, 1e4), offset_factor=float(rng.choice([0.0, 1.0, 30.0])))
        w, e, s, n = float(east.min()), float(east.max()), float(north.min()), float(north.max())
        side = min(e - w, n - s)
        size = float(side * rng.uniform(0.03, 0.12))
        kwargs = {"size": size}
        if index == 0 or rng.random() < 0.6:
            kwargs["shape"] = (50, 60) if index == 0 else (int(rng.integers(46, 70)), int(rng.integers(46, 70)))
        else:
            kwargs["spacing"] = float(max(e - w, n - s) / rng.uniform(50, 64))
            kwargs["adjust"] = str(rng.choice(["spacing", "region"]))
        if rng.random() < 0.5:
            kwargs["region"] = [w - 0.05 * (e - w), e + 0.05 * (e - w), s - 0.05 * (n - s), n + 0.05 * (n - s)]
        coords = _layout(rng, [east, north] + _extras(rng, east))
        out = _call_rolling(run, vc, coords, **kwargs)
        run.sample("large_rolling", {"n_points": n_pts, "kwargs": kwargs, "centres_shape": None if out is None else list(out[0][0].shape)})
    else:
        if kind == 1:
            rows, cols = int(rng.integers(100, 140)), int(rng.integers(100, 150))
        else:
            rows, cols = int(rng.integers(317, 340)), int(rng.integers(317, 330))
        n_pts = rows * cols
        scale = gen.log_uniform(rng, 1.0, 1e4)
        east = rng.uniform(0, 1.0, n_pts) * scale + float(rng.choice([0.0, 30.0])) * scale
        north = rng.uniform(0, 0.7, n_pts) * scale
        centre = (float(rng.uniform(east.min(), east.max())), float(rng.uniform(north.min(), north.max())))
        sizes = [float(v) for v in scale * rng.uniform(0.0, 1.6, int(rng.integers(3, 7)))]
        if rng.random() < 0.5:
            sizes.append(float(scale * 3))  # everything
        flat = [east, north] + ([rng.normal(size=n_pts)] if rng.random() < 0.4 else [])
        if rng.random() < 0.5:
            flat = [a.reshape(rows, cols) for a in flat]
        declared = sizes
        if rng.random() < 0.3:
            sizes, declared = _one_shot(rng, sizes)
        out = vc.expanding_window(tuple(flat), center=_spell_centre(rng, *centre), sizes=sizes)
        run.sample("large_expanding", {"n_points": n_pts, "shape": list(flat[0].shape), "center": centre, "sizes": declared,
                                       "selected_per_size": [int(np.size(i[0])) for i in out]})


def run_case(run, tap, stream, index, rng):
    import verde  # noqa: F401
    import verde.coordinates as vc

    if stream == "rolling":
        for _ in range(6):
            _rolling_case(run, vc, rng)
    elif stream == "rolling_edge":
        for _ in range(6):
            _rolling_edge_case(run, vc, rng)
    elif stream == "expanding":
        _expanding_case(run, vc, rng)
    elif stream == "expanding_edge":
        _expanding_edge_case(run, vc, rng)
    elif stream == "history":
        for _ in range(2):
            _history_case(run, vc, rng)
    elif stream == "integer_fractional":
        _integer_fractional_case(run, vc, rng)
    elif stream == "large":
        _large_case(run, vc, rng, index)
    else:
        raise ValueError(stream)


LEVEL_TEXT = (
    "Every normal return of rolling_window / expanding_window produced by the seeded workload is judged against an O(points x windows) "
    "brute-force reference: centres against the shared exact-rational regular-grid reference on the region shrunk by size/2, the index "
    "objects by actually indexing every input coordinate array, membership in the closed infinity-norm square with a 1e-9*size either-way "
    "margin, joint coverage of the region when the step does not exceed the size, order and nesting of expanding windows. Held means 'no "
    "refutation among the monitored executions', not a proof."
)
LEVEL_NOTE = (
    "Trusted: numpy float64 subtraction/comparison, ref.check_line (C07 reference). Points within the margin of an edge are counted as "
    "either-way and never decide. shape=(1, n) is exercised with numpy-float regions only (python-float regions raise ZeroDivisionError in verde)."
)
TECHNIQUE = "runtime postcondition monitors with a brute-force (points x windows) reference on every call; seeded random + exact dyadic edge workloads"
