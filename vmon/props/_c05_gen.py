"""
C05 helpers: the asymmetric analytic gridder, invertible non-symmetric projections and input generators.

Nothing here is an oracle of verde code: the analytic gridder and the projections are *inputs* of the workload whose
closed forms the monitors in c05.py evaluate themselves.
"""
import functools
import threading
import weakref

import numpy as np

EPS = float(np.finfo("float64").eps)

# What the workload knows about a gridder independently of verde: the bounding box of the data it was fitted on.
# gridder -> {"region": (W, E, S, N)}. Weak so that nothing is attached to the monitored objects.
EXPECT = weakref.WeakKeyDictionary()

_CLASSES = {}

# gridder -> Rendezvous: makes concurrent predict() calls of one gridder overlap (kept outside the monitored object)
SYNC = weakref.WeakKeyDictionary()


class Rendezvous:
    """
    A reusable meeting point with a timeout: a predict() call waits here until `parties` calls are inside predict at the same time
    (or the timeout passes, so an implementation that serialises the calls cannot deadlock).
    """

    def __init__(self, parties, timeout=0.05):
        self.parties, self.timeout = parties, timeout
        self.cond = threading.Condition()
        self.waiting = 0
        self.generation = 0
        self.met = 0

    def meet(self):
        with self.cond:
            generation = self.generation
            self.waiting += 1
            if self.waiting >= self.parties:
                self.generation += 1
                self.waiting = 0
                self.met += 1
                self.cond.notify_all()
                return
            self.cond.wait_for(lambda: self.generation != generation, timeout=self.timeout)
            if self.generation == generation:
                self.waiting -= 1


def analytic_classes():
    """The analytic gridder classes (created lazily: verde must be imported by the harness first)."""
    if _CLASSES:
        return _CLASSES
    from verde.base import BaseGridder

    class Analytic(BaseGridder):
        """
        predict = a*e + b*n + c*e*n per component, with different incommensurable (a, b, c) per component, so every value
        identifies the (easting, northing) pair it was evaluated at. ``fit`` only records the bounding box of the data.
        """

        c05_analytic = True

        def __init__(self, consts=((3.0, -2.0, 0.5),)):
            super().__init__()
            self.consts = consts

        def fit(self, coordinates, data=None, weights=None):  # noqa: U100
            east, north = np.asarray(coordinates[0], dtype="float64"), np.asarray(coordinates[1], dtype="float64")
            self.region_ = (float(east.min()), float(east.max()), float(north.min()), float(north.max()))
            return self

        def predict(self, coordinates):
            sync = SYNC.get(self)
            if sync is not None:
                sync.meet()
            east = np.asarray(coordinates[0], dtype="float64")
            north = np.asarray(coordinates[1], dtype="float64")
            out = tuple(a * east + b * north + c * east * north for a, b, c in self.consts)
            return out[0] if len(out) == 1 else out

    class AnalyticLatLon(Analytic):
        "class-level defaults for the dimension and extra-coordinate names"
        dims = ("latitude", "longitude")
        extra_coords_name = "upward"

    class AnalyticYX(Analytic):
        dims = ("y", "x")
        extra_coords_name = "level"

    _CLASSES.update(default=Analytic, latlon=AnalyticLatLon, yx=AnalyticYX)
    return _CLASSES


def analytic_field(consts, east, north):
    """Reference evaluation of the analytic gridder: list of (values, round-off scale) per component."""
    east, north = np.asarray(east, dtype="float64"), np.asarray(north, dtype="float64")
    out = []
    for a, b, c in consts:
        values = a * east + b * north + c * east * north
        scale = np.abs(a * east) + np.abs(b * north) + np.abs(c * east * north)
        out.append((values, scale))
    return out


def analytic_gradient_bound(consts, east, north):
    """max over components and points of |d f/d e| + |d f/d n|."""
    east, north = np.asarray(east, dtype="float64"), np.asarray(north, dtype="float64")
    best = 0.0
    for a, b, c in consts:
        grad = np.abs(a + c * north) + np.abs(b + c * east)
        best = max(best, float(np.max(grad)))
    return best


def gen_consts(rng, n_components, scale):
    """Different incommensurable constants per component; the cross term is comparable to the linear ones over `scale`."""
    roots = [np.pi, np.e, np.sqrt(2.0), np.sqrt(3.0), np.sqrt(5.0), np.log(7.0), np.sqrt(11.0), np.cbrt(13.0), 1.0 / np.sqrt(17.0)]
    picks = rng.permutation(len(roots))
    out = []
    for k in range(n_components):
        a = roots[picks[3 * k]] * float(rng.choice([-1.0, 1.0])) * float(rng.uniform(0.5, 2.0))
        b = roots[picks[3 * k + 1]] * float(rng.choice([-1.0, 1.0])) * float(rng.uniform(0.5, 2.0))
        c = roots[picks[3 * k + 2]] * float(rng.choice([-1.0, 1.0])) * float(rng.uniform(0.2, 1.5)) / scale
        out.append((float(a), float(b), float(c)))
    return tuple(out)


# ----------------------------------------------------------------------
# projections: invertible, not symmetric in (easting, northing)
# ----------------------------------------------------------------------
class Affine:
    """(x, y) = A (e, n) + b with an anisotropic, sheared, non-symmetric A."""

    kind = "affine"

    def __init__(self, a11, a12, a21, a22, b1, b2):
        self.m = (float(a11), float(a12), float(a21), float(a22))
        self.b = (float(b1), float(b2))
        self.det = self.m[0] * self.m[3] - self.m[1] * self.m[2]

    def __call__(self, east, north, inverse=False):
        a11, a12, a21, a22 = self.m
        b1, b2 = self.b
        if inverse:
            x, y = east - b1, north - b2
            return (a22 * x - a12 * y) / self.det, (a11 * y - a21 * x) / self.det
        return a11 * east + a12 * north + b1, a21 * east + a22 * north + b2

    def inverse_lipschitz(self, x, y):  # noqa: U100
        a11, a12, a21, a22 = self.m
        return (max(abs(a22) + abs(a12), abs(a11) + abs(a21))) / abs(self.det)

    def offsets(self):
        return max(abs(self.b[0]), abs(self.b[1]))

    def describe(self):
        return {"kind": self.kind, "matrix": list(self.m), "offset": list(self.b)}


class Monotone:
    """x = sx*sinh((e-e0)/le), y = sy*expm1((n-n0)/ln): monotone, nonlinear, different in the two directions."""

    kind = "monotone_nonlinear"

    def __init__(self, e0, le, sx, n0, ln, sy):
        self.p = tuple(float(v) for v in (e0, le, sx, n0, ln, sy))

    def __call__(self, east, north, inverse=False):
        e0, le, sx, n0, ln, sy = self.p
        if inverse:
            return e0 + le * np.arcsinh(np.asarray(east) / sx), n0 + ln * np.log1p(np.asarray(north) / sy)
        return sx * np.sinh((np.asarray(east) - e0) / le), sy * np.expm1((np.asarray(north) - n0) / ln)

    def inverse_lipschitz(self, x, y):
        e0, le, sx, n0, ln, sy = self.p
        x, y = np.asarray(x, dtype="float64"), np.asarray(y, dtype="float64")
        de = le / (abs(sx) * np.sqrt(1.0 + (x / sx) ** 2))
        dn = ln / (abs(sy) * np.abs(1.0 + y / sy))
        return float(max(np.max(np.abs(de)), np.max(np.abs(dn))))

    def offsets(self):
        return 0.0

    def describe(self):
        return {"kind": self.kind, "parameters": list(self.p)}


def gen_projection(rng, region):
    """A projection whose nonlinear range fits the region (W, E, S, N)."""
    w, e, s, n = region
    width, height = max(e - w, 1e-300), max(n - s, 1e-300)
    if rng.random() < 0.55:
        sx, sy = float(rng.uniform(0.3, 3.0)), float(rng.uniform(0.3, 3.0)) * float(rng.choice([1.0, 7.0, 0.1]))
        shear1, shear2 = float(rng.uniform(-0.6, 0.6)), float(rng.uniform(-0.6, 0.6))
        a11, a22 = sx, sy
        a12, a21 = shear1 * sx, shear2 * sy
        if abs(a11 * a22 - a12 * a21) < 0.3 * abs(a11 * a22):
            a21 = 0.0
        b1 = float(rng.choice([0.0, 1.0, 50.0])) * width * float(rng.choice([-1.0, 1.0]))
        b2 = float(rng.choice([0.0, 1.0, 50.0])) * height * float(rng.choice([-1.0, 1.0]))
        return Affine(a11, a12, a21, a22, b1, b2)
    e0 = w + width * float(rng.uniform(0.0, 1.0))
    n0 = s + height * float(rng.uniform(0.0, 1.0))
    le = width * float(rng.uniform(0.6, 2.0))
    ln = height * float(rng.uniform(0.8, 2.5))
    sx = width * float(rng.uniform(0.5, 5.0))
    sy = height * float(rng.uniform(0.5, 5.0))
    return Monotone(e0, le, sx, n0, ln, sy)


# ----------------------------------------------------------------------
# regions, grids, coordinates
# ----------------------------------------------------------------------
def gen_region(rng):
    """Regions with different widths and heights, scales 1e-2..1e6 and offsets up to 1e3 extents."""
    scale = float(10 ** rng.uniform(-2, 6))
    width = scale * float(rng.uniform(0.2, 2.0))
    height = scale * float(rng.uniform(0.2, 2.0)) * float(rng.choice([1.0, 1.0, 0.1, 6.0]))
    off_e = float(rng.choice([0.0, -0.5, 1.0, 30.0, 1e3])) * width * float(rng.choice([-1.0, 1.0]))
    off_n = float(rng.choice([0.0, -0.5, 1.0, 30.0, 1e3])) * height * float(rng.choice([-1.0, 1.0]))
    w, s = off_e, off_n
    e, n = w + width, s + height
    return (float(w), float(e), float(s), float(n)), max(width, height)


def gen_shape(rng, lo=1):
    kind = rng.integers(0, 10)
    if kind == 0:
        return 1, int(rng.integers(2, 16))
    if kind == 1:
        return int(rng.integers(2, 16)), 1
    if kind == 2:
        k = int(rng.integers(2, 9))
        return k, k
    while True:
        shape = int(rng.integers(max(lo, 2), 16)), int(rng.integers(max(lo, 2), 16))
        if shape[0] != shape[1]:
            return shape


def gen_grid_spec(rng, region):
    """Keyword arguments of grid(): shape or spacing (dividing the extent or not), adjust, pixel_register, extra_coords."""
    w, e, s, n = region
    kwargs = {}
    if rng.random() < 0.5:
        kwargs["shape"] = gen_shape(rng)
    else:
        width, height = e - w, n - s
        mode = rng.integers(0, 3)
        if mode == 0:  # divides the extent
            sp_n, sp_e = height / int(rng.integers(1, 14)), width / int(rng.integers(1, 14))
        elif mode == 1:  # does not divide it
            sp_n, sp_e = height / float(rng.uniform(0.7, 14)), width / float(rng.uniform(0.7, 14))
        else:  # one number for both directions
            sp_n = sp_e = min(width, height) / float(rng.uniform(0.7, 9))
        if sp_n == sp_e and rng.random() < 0.7:
            kwargs["spacing"] = float(sp_n)
        else:
            kwargs["spacing"] = (float(sp_n), float(sp_e))
        if rng.random() < 0.6:
            kwargs["adjust"] = str(rng.choice(["spacing", "region"]))
    if rng.random() < 0.4:
        kwargs["pixel_register"] = bool(rng.random() < 0.75)
    roll = rng.random()
    if roll < 0.15:
        kwargs["extra_coords"] = float(np.round(rng.normal() * 100, 3))
    elif roll < 0.3:
        kwargs["extra_coords"] = [float(np.round(v * 100, 3)) for v in rng.normal(size=int(rng.integers(1, 3)))]
    return kwargs


def gen_axis(rng, n, lo, hi):
    """n distinct non-uniform nodes inside [lo, hi], ascending or descending."""
    if n == 1:
        return np.array([lo + (hi - lo) * float(rng.uniform(0, 1))])
    steps = rng.uniform(0.2, 2.0, n - 1)
    if rng.random() < 0.25:
        steps[:] = 1.0
    pos = np.concatenate([[0.0], np.cumsum(steps)])
    vec = lo + (hi - lo) * pos / pos[-1]
    if rng.random() < 0.2:
        vec = vec[::-1].copy()
    return np.ascontiguousarray(vec, dtype="float64")


def broadcast_mesh(e_vec, n_vec):
    """east[i, j] = e[j], north[i, j] = n[i] without numpy.meshgrid."""
    nn, ne = n_vec.size, e_vec.size
    east, north = np.empty((nn, ne)), np.empty((nn, ne))
    for i in range(nn):
        east[i, :] = e_vec
        north[i, :] = n_vec[i]
    return east, north


def encode_extra(k, shape):
    i, j = np.indices(shape)
    return -((k + 1) * 1_000_000 + i * 1000 + j + 0.5)


DIM_CHOICES = [("latitude", "longitude"), ("y", "x"), ("lat", "lon"), ("rows", "cols"), ("easting", "northing")]
NAME_POOL = ["alpha", "beta", "gamma", "scalars", "north_component", "east_component", "uplift", "temp_K"]


def gen_names(rng, n_components):
    """Optional custom dims and data names in the accepted spellings."""
    out = {}
    if rng.random() < 0.35:
        dims = DIM_CHOICES[int(rng.integers(0, len(DIM_CHOICES)))]
        out["dims"] = list(dims) if rng.random() < 0.5 else tuple(dims)
    if rng.random() < 0.4:
        names = [str(v) for v in rng.choice(NAME_POOL, size=n_components, replace=False)]
        if n_components == 1 and rng.random() < 0.5:
            out["data_names"] = names[0]
        else:
            out["data_names"] = names if rng.random() < 0.5 else tuple(names)
    return out


# ----------------------------------------------------------------------
# equivalent spellings of the same argument
# ----------------------------------------------------------------------
def spelling_of(value):
    """Name of the container / scalar type an argument was spelled with (for the evidence counters)."""
    if value is None:
        return "none"
    if isinstance(value, str):
        return "str"
    if isinstance(value, np.ndarray):
        return "ndarray_%s" % ("int" if value.dtype.kind in "iu" else "float")
    if isinstance(value, (list, tuple)):
        inner = {spelling_of(v) for v in value}
        tag = "mixed" if len(inner) > 1 else (inner.pop() if inner else "empty")
        return "%s_of_%s" % (type(value).__name__, tag)
    if isinstance(value, (bool, np.bool_)):
        return "bool"
    if isinstance(value, np.integer):
        return "np_int"
    if isinstance(value, np.floating):
        return "np_float"
    if isinstance(value, int):
        return "int"
    if isinstance(value, float):
        return "float"
    if isinstance(value, np.random.RandomState):
        return "RandomState"
    return type(value).__name__


def _scalar(rng, value):
    """The same number as Python float/int or numpy scalar (ints only when the value is integral)."""
    value = float(value)
    roll = rng.random()
    if value == int(value) and abs(value) < 2 ** 52 and roll < 0.5:
        return int(value) if roll < 0.25 else np.int64(int(value))
    return np.float64(value) if roll < 0.75 else value


def spell_sequence(rng, values):
    """The same numbers as tuple, list or ndarray, with Python or numpy scalars inside."""
    values = [float(v) for v in values]
    roll = rng.random()
    if roll < 0.3:
        integral = all(v == int(v) and abs(v) < 2 ** 52 for v in values)
        return np.array([int(v) for v in values]) if integral and rng.random() < 0.6 else np.array(values)
    items = [_scalar(rng, v) for v in values] if rng.random() < 0.5 else values
    return list(items) if roll < 0.65 else tuple(items)


def spell_count(rng, value):
    return int(value) if rng.random() < 0.5 else np.int64(int(value))


def spell_shape(rng, shape):
    roll = rng.random()
    items = [spell_count(rng, v) for v in shape]
    if roll < 0.3:
        return np.array([int(v) for v in shape])
    return list(items) if roll < 0.6 else tuple(items)


def spell_spacing(rng, spacing):
    if isinstance(spacing, (tuple, list, np.ndarray)):
        return spell_sequence(rng, spacing)
    return _scalar(rng, spacing)


EXTRA_VALUES = [0, 0.0, 0, -0.0, 1, -2.5, 13.0, 1986, 0.125]


def spell_extra_coords(rng):
    """extra_coords as bare scalar (incl. exactly 0 / 0.0, falsy but valid), numpy scalar, list, tuple or ndarray."""
    roll = rng.random()
    if roll < 0.45:
        value = EXTRA_VALUES[int(rng.integers(0, len(EXTRA_VALUES)))]
        kind = rng.random()
        if kind < 0.3:
            return np.float64(value)
        if kind < 0.45:
            return np.int64(int(value)) if float(value) == int(value) else np.float32(value)
        return value
    n = int(rng.integers(1, 3))
    values = [EXTRA_VALUES[int(k)] for k in rng.integers(0, len(EXTRA_VALUES), n)]
    kind = rng.random()
    if kind < 0.3:
        return np.array([float(v) for v in values])
    return list(values) if kind < 0.65 else tuple(values)


def spell_point(rng, point):
    roll = rng.random()
    if roll < 0.25:
        return np.array([float(point[0]), float(point[1])])
    items = [np.float64(point[0]), np.float64(point[1])] if rng.random() < 0.4 else [float(point[0]), float(point[1])]
    return list(items) if roll < 0.6 else tuple(items)


def spell_seed(rng, seed):
    roll = rng.random()
    if roll < 0.4:
        return int(seed)
    if roll < 0.7:
        return np.int64(seed)
    return np.random.RandomState(int(seed))


def _apply_projection(obj, east, north, inverse=False):
    return obj(east, north, inverse=inverse)


def _forward_only(obj, east, north):
    return obj(east, north)


def spell_projection(rng, obj, two_args=False):
    """
    The same projection as a callable object, a plain function or a functools.partial (all carry the reference's metadata). With
    two_args (grid / scatter only: they never ask for the inverse) also in the documented two-argument form
    ``projection(easting, northing)`` - a lambda, a plain def or a partial WITHOUT an ``inverse`` keyword and without **kwargs.
    """
    roll = rng.random()
    if two_args and rng.random() < 0.45:
        if roll < 0.35:
            out = lambda east, north: obj(east, north)  # noqa: E731
        elif roll < 0.7:
            def out(easting, northing):
                return obj(easting, northing)
        else:
            out = functools.partial(_forward_only, obj)
        out.arity = 2
        out.kind = obj.kind
        out.describe = obj.describe
        return out
    if roll < 0.4:
        return obj
    if roll < 0.7:
        def projection(east, north, inverse=False):
            return obj(east, north, inverse=inverse)
        out = projection
    else:
        out = functools.partial(_apply_projection, obj)
    out.kind = obj.kind
    out.inverse_lipschitz = obj.inverse_lipschitz
    out.offsets = obj.offsets
    out.describe = obj.describe
    return out


def projection_spelling(projection):
    suffix = "_two_arguments" if getattr(projection, "arity", None) == 2 else ""
    if isinstance(projection, functools.partial):
        return "partial" + suffix
    if type(projection).__name__ == "function":
        return ("lambda" if projection.__name__ == "<lambda>" else "function") + suffix
    return "callable_object"


def spell_call(rng, kwargs, inverse=False):
    """
    Rewrite the arguments of one grid/profile/scatter call into an equivalent spelling (in place). inverse=True (profile): the
    projection must keep its ``inverse`` keyword.
    """
    if "region" in kwargs:
        kwargs["region"] = spell_sequence(rng, kwargs["region"])
    if "shape" in kwargs:
        kwargs["shape"] = spell_shape(rng, kwargs["shape"])
    if "spacing" in kwargs:
        kwargs["spacing"] = spell_spacing(rng, kwargs["spacing"])
    if "extra_coords" in kwargs:
        kwargs["extra_coords"] = spell_extra_coords(rng)
    if kwargs.get("projection") is not None and hasattr(kwargs["projection"], "describe"):
        kwargs["projection"] = spell_projection(rng, kwargs["projection"], two_args=not inverse)
    return kwargs


def gen_int_region(rng):
    """A region with integral bounds (so that region / spacing can also be spelled with integers)."""
    w, s = int(rng.integers(-2000, 2000)), int(rng.integers(-2000, 2000))
    width, height = int(rng.integers(2, 60)), int(rng.integers(2, 60))
    return (float(w), float(w + width), float(s), float(s + height)), float(max(width, height))


def gen_int_spacing(rng, region):
    w, e, s, n = region
    sp_n, sp_e = float(rng.integers(1, max(2, int(n - s)))), float(rng.integers(1, max(2, int(e - w))))
    return (sp_n, sp_e) if rng.random() < 0.6 else float(min(sp_n, sp_e))


def container_name(value):
    name = type(value).__name__
    return {"ndarray": "ndarray", "list": "list", "tuple": "tuple", "DataArray": "DataArray", "Series": "Series"}.get(
        name, "Index" if "Index" in name else name)


def scalar_dtype_name(value):
    if isinstance(value, np.generic):
        return str(value.dtype)
    return type(value).__name__


def gen_integer_end_points(rng):
    """
    Integer-valued profile end points in one of the spellings int16 / int32 / int64 array rows (elements are numpy integers),
    Python ints or float32 scalars; the coordinate differences are large enough for their squares to overflow int16 / int32.
    Returns (point1, point2, bounding box).
    """
    kind = str(rng.choice(["int16", "int32", "int32", "int64", "python_int", "float32"]))
    if kind == "int16":
        start = rng.integers(-15000, 0, 2)
        diff = rng.integers(182, 15000, 2) * rng.choice([-1, 1], 2)
        diff = np.where(start + diff < -32000, -diff, diff)
    else:
        start = rng.integers(-1_000_000, 1_000_000, 2)
        diff = rng.integers(46341, 3_000_000, 2) * rng.choice([-1, 1], 2)
    stop = start + diff
    box = (float(min(start[0], stop[0])), float(max(start[0], stop[0])), float(min(start[1], stop[1])), float(max(start[1], stop[1])))
    if kind in ("int16", "int32", "int64"):
        table = np.array([start, stop], dtype=kind)
        p1, p2 = table[0], table[1]
        if rng.random() < 0.5:
            p1, p2 = (table[0, 0], table[0, 1]), [table[1, 0], table[1, 1]]
    elif kind == "python_int":
        p1, p2 = (int(start[0]), int(start[1])), (int(stop[0]), int(stop[1]))
    else:
        p1, p2 = (np.float32(start[0]), np.float32(start[1])), (np.float32(stop[0]), np.float32(stop[1]))
    return p1, p2, box
