"""
C12 - scores come from models fitted on training data only, with the stated metric.

Rows are made identifiable (unique coordinate pairs -> row id; noisy data), a recording
cross-validator proxy notes the (train, test) index arrays it hands out, and recording monitors on
``BaseGridder.fit`` (every subclass), ``BaseGridder.score``, ``score_estimator``, ``select``,
``cross_val_score``, ``train_test_split`` and ``SplineCV.fit`` name, per event, the object, the thread
and the rows seen. Offline judges (``_c12_mon.judge_batch`` / ``judge_splinecv``) then decide, per
split: one fit + one scoring on one fresh object, training rows only / test rows only, every
component aligned, the returned number equal to the numpy metric of a model the harness fits itself.
The delayed score lists are computed under eight schedules and must reproduce the serial result.

Helpers: ``_c12_ref.py`` (reference side, no verde import), ``_c12_mon.py`` (monitors and judges),
``_c12_work.py`` (generators and the schedule exploration).
"""
import collections
import warnings

from . import _c12_mon as M
from . import _c12_work as W

ID = "C12"
LEVEL = "exploration"
RULE = (
    "cases = seeded datasets of 36-100 pairwise distinct points (scales 1e-2..1e5, offsets up to 30 extents; half 1-D (contiguous, strided, "
    "read-only), half gridded 2-D non-square (clouds or jittered meshes) where every coordinate, data-component and weight-component array "
    "draws its memory layout independently from C, Fortran, transposed view, strided, negative strides, read-only C / Fortran; row identity "
    "= C ravel of the logical arrays; optional third coordinate), 1-3 noisy data components (noise 15-60 % of the signal so that no model scores 1), weights none or "
    "one distinct array per component; estimators Trend(1-3), Spline(damping 1e-4..1), KNeighbors(k=1 | 3), Vector, Chain (also Chain(Vector)), "
    "fresh or already fitted; cross-validators KFold, ShuffleSplit, BlockKFold, BlockShuffleSplit (shape | spacing), a thinned KFold whose "
    "training set is not the complement of the test set, and the default (cv=None), all behind a recording proxy; scorers None, r2, neg MSE / "
    "RMSE / MAE and a harness callable. Every cross_val_score case runs serially and as dask.delayed under 8 schedules (synchronous; threads "
    "with 2/4/16 workers and switch interval 1e-5; reversed and random submission order; one score at a time, synchronous and threaded). "
    "Cross-validators and train_test_split are driven with random_state as an int, a numpy RandomState instance and None (global generator, "
    "re-seeded so that serial / delayed / respelled replays are well defined); the splits judged are those the cv object actually yielded. "
    "UTM stream: BlockKFold / BlockShuffleSplit (shape | spacing) on eastings ~5e5, northings ~7.5e6 with a third of the points moved to "
    "0.01-10 m from interior block edges; the features handed to a cross-validator must be the float64 coordinates and the splits used are "
    "replayed on the harness's own float64 feature matrix wherever the cross-validator is deterministic. "
    "Defaults stream: SplineCV(), cross_val_score(est, c, d), score(c, d), train_test_split(c, d) must behave like the same call with the "
    "documented defaults spelled out (the taps bind omitted arguments to the documented default). Scorer objects (make_scorer / get_scorer / "
    "hand-written callable) are forced into SplineCV; the lazy scores of several cross_val_score calls are also computed in one dask graph. "
    "Lazy-scan histories: one estimator object is reused for a parameter scan (cross_val_score(delayed=True) per value, re-configured by "
    "set_params / attribute / its held step in between), then changed once more (re-configured, fitted, data or weights overwritten in place) "
    "and only then are all lazy scores computed; likewise SplineCV(delayed=True) re-configured / data overwritten before scores_ are computed: "
    "every lazy score is that of the configuration and rows in force at call time. "
    "Equivalent spellings are exercised and must agree: a metric as None / string / get_scorer / make_scorer object / plain callable; cv as a "
    "recording proxy (generator or list) or the bare scikit-learn / verde instance (splits replayed); weights None or a tuple of None; dampings "
    "/ mindists as list / tuple / ndarray of float / numpy.float64 / int / numpy.int64; delayed as True / numpy.True_ / 1; test_size / spacing "
    "/ shape as int, float, numpy scalars, list / tuple / ndarray. "
    "SplineCV: grids of 1-4 dampings x 1-2 mindists (also the default grid and damping=None), option combinations forced in rotation (scorer "
    "+ weights, two-dimensional grid, integral dampings of integer type, coarse grid of forces + engine='numpy'), serial and delayed; re-configuration histories "
    "(dampings / mindists / scoring / cv / delayed changed by set_params or attribute assignment before the first fit and between two fits, "
    "second fit on the same or on other data), every fit judged with the parameters in force. train_test_split: plain, "
    "shape and spacing blocks. Non-trivial = at least 2 splits with scores not all equal and not all 1 (cross_val_score); score != 1 (score); "
    ">= 3 occupied blocks (blocked train_test_split); >= 2 candidates whose mean scores differ by more than 10 tolerances (SplineCV). "
    "Distinct = hash of coordinates, data, estimator parameters, cross-validator, scorer and test sets."
)
ASSUMPTIONS = [
    "rows are identified by their (easting, northing) pair: the workload uses pairwise distinct points and verde must copy, not recompute, coordinates",
    "reference scores come from a fresh estimator of the same class and parameters (sklearn.base.clone of the argument, taken before the call) that the "
    "harness fits on the training rows with verde's own fit/predict (those are judged by C01-C03), scored with numpy formulas written from the "
    "scikit-learn definitions; tolerance max(1e-9 relative, 100 x the change of the reference score under a reordering of the training rows), "
    "cases whose tolerance exceeds 1e-3 of the score scale are skipped as ill-conditioned",
    "serial and delayed results are required to be bit-identical (single-threaded BLAS: vcheck pins OMP/OPENBLAS/MKL threads to 1)",
    "schedules are sampled (8 per case), not enumerated; the observed task completion orders are listed in the evidence",
    "the deprecated client= path is exercised in the thorough tier only, through an in-process dask.distributed LocalCluster(processes=False)",
    "scores_ of SplineCV are compared in itertools.product(mindists, dampings) order (the order the attribute is documented against)",
]
_Q = {  # ~40 % of the minimum over seeds 0..9 on the unchanged tree
    "cv_used": 44, "estimator_untouched": 210, "fitted_on_train_rows": 620, "fresh_clone": 620, "lazy_result": 24,
    "metric_of_event": 650, "once_per_split": 185, "one_fit_before_scoring": 620, "one_object_one_task": 620, "result_shape": 190,
    "score_leaves_model_unchanged": 50, "score_method_is_r2": 50, "score_vs_reference": 530, "scored_on_test_rows": 620, "select": 1200,
    "serial_equals_delayed": 134, "splinecv_argmax": 8, "splinecv_candidates": 8, "splinecv_passes_data": 19,
    "splinecv_predicts_like_spline": 8, "splinecv_scores": 8, "splinecv_serial_equals_delayed_scores": 7,
    "splinecv_serial_equals_delayed_selection": 4, "splinecv_uses_cv": 8, "split_aligned": 48, "split_complementary": 24,
    "split_rows_known": 48, "split_structure": 24, "split_whole_blocks": 10, "test_rows_aligned": 620, "train_rows_aligned": 620,
}
FLOORS = {
    "quick": dict({"eval:" + k: v for k, v in _Q.items()}, distinct_nontrivial=74, schedules_with_overlapping_tasks=40,
                  schedules_completed_out_of_split_order=85, **{"schedule:" + s: 17 for s in W.SCHEDULES},
                  **{"eval:score_vs_flat_reference": 28, "eval:cv_sees_rows_in_split_order": 59},
                  # deep "left untouched" on meta-estimators / already fitted estimators, SplineCV re-configuration histories
                  **{"eval:meta_estimator_untouched_deeply": 70, "eval:fitted_estimator_predicts_the_same": 30, "eval:splinecv_current_grid": 8,
                     "eval:splinecv_history_fit_judged": 8, "eval:splinecv_parameters_kept": 8, "class:splinecv_history:how:attribute": 8,
                     "class:splinecv_history:how:set_params": 8, "class:splinecv_history:when:before_first_fit": 8,
                     "class:splinecv_history:when:between_fits": 7, "class:splinecv_history:second_fit_on_other_data": 1},
                  **{"class:splinecv_history:changed:" + k: 2 for k in ("dampings", "mindists", "scoring", "cv", "delayed")},
                  # equivalent spellings and SplineCV option combinations
                  **{"eval:equivalent_spellings_agree": 14, "eval:tts_equivalent_spellings_agree": 24, "eval:splinecv_final_model_configuration": 15,
                     "cross_val_score:bare_cv_replayed": 7, "class:cv_spelling:bare": 5, "class:cv_spelling:proxy_list": 18, "class:cv_spelling:proxy": 32,
                     "class:weights_spelling:tuple_of_None": 6, "class:tts_spelling:test_size:float64": 15, "class:tts_spelling:test_size:int64": 2,
                     "class:tts_spelling:shape": 4, "class:tts_spelling:spacing": 4, "class:tts:test_size_as_count": 2,
                     "class:dampings_container:list": 5, "class:dampings_container:tuple": 2, "class:dampings_container:ndarray": 3,
                     "class:splinecv:dampings_of_integer_type": 1, "class:splinecv:integral_dampings": 1, "class:splinecv:force_coords:coarse_grid": 1,
                     "class:splinecv:engine:numpy": 1, "class:splinecv:scoring_with_weights": 2, "class:splinecv:several_mindists": 1,
                     "class:delayed_spelling:bool": 2},
                  **{"class:scoring_spelling:" + k: 4 for k in ("none", "string", "get_scorer", "make_scorer", "plain_callable")},
                  # blocked cross-validators on UTM-like coordinates with points next to block edges; replayed splits
                  **{"eval:splits_are_those_of_the_float64_coordinates": 40, "class:utm:points_moved_next_to_block_edges": 50,
                     "class:utm:cv:BlockKFold": 1, "class:utm:cv:BlockShuffleSplit": 1, "cases:utm": 8},
                  # documented defaults relied upon, scorer objects in SplineCV, several calls in one dask graph
                  **{"eval:defaults:" + k: 1 for k in ("SplineCV_constructor", "SplineCV_fit", "cross_val_score", "score", "train_test_split")},
                  **{"class:splinecv:scorer_object:" + k: 1 for k in ("make_scorer", "get_scorer", "plain_callable")},
                  **{"eval:several_calls_in_one_graph": 14, "defaulted_argument:cross_val_score.cv": 3, "defaulted_argument:cross_val_score.scoring": 3,
                     "defaulted_argument:cross_val_score.delayed": 20, "defaulted_argument:train_test_split.spacing": 20},
                  # lazy scores consumed after the estimator / SplineCV object / data were changed
                  **{"eval:lazy_score_is_of_call_time": 25, "class:lazy_consumed_after:cross_val_score:reconfigure": 2,
                     "class:lazy_consumed_after:cross_val_score:fit_on_the_data": 1, "class:lazy_consumed_after:cross_val_score:data_in_place": 1,
                     "class:lazy_consumed_after:splinecv:any_change": 2, "class:lazy_consumed_after:splinecv:set_params": 1,
                     "class:lazy_consumed_after:splinecv:data_in_place": 1, "class:lazy_scan:reconfigured_by:set_params": 3,
                     "class:lazy_scan:reconfigured_by:attribute": 3},
                  **{"class:lazy_scan:estimator:" + k: 1 for k in ("spline", "trend", "knn", "chain")},
                  # kind of random_state (int | RandomState instance | None = numpy's global generator, re-seeded for the replay)
                  **{"class:random_state:tts:%s:%s" % (k, m): 4 for k in W.RS_KINDS for m in ("plain", "blocked")},
                  **{"class:random_state:cv:" + k: 5 for k in W.RS_KINDS},
                  # train_test_split sizes through **kwargs: neither / test_size / train_size / both, float and int, plain and blocked
                  **{"class:tts_sizes:%s:%s" % (m, k): 1 for m in ("plain", "blocked") for k in W.SIZE_MODES}, **{"eval:split_sizes": 20},
                  # memory layouts of the 2-D gridded datasets (each array draws its layout independently)
                  **{"class:array_layout:" + k: 12 for k in W.ARRAY_LAYOUTS}, **{"class:score_array_layout:" + k: 6 for k in W.ARRAY_LAYOUTS},
                  **{"class:splinecv:two_dimensional_grid": 2, "class:layout:2d": 24, "class:layout:2d:arrays_in_different_memory_orders": 24, "class:layout:2d:mesh": 8,
                     "class:array_layout:coordinate:other-memory-order": 38, "class:array_layout:data:other-memory-order": 24,
                     "class:array_layout:weights:other-memory-order": 13}),
    # ~40 % of the minimum over seeds 0 and 1 (the client= stream is deliberately not floored: it needs dask.distributed)
    "thorough": dict({"eval:" + k: v for k, v in {
        "cv_used": 2290, "default_cv_partitions": 100, "estimator_untouched": 10000, "fitted_on_train_rows": 31000, "fresh_clone": 31000,
        "lazy_result": 1180, "metric_of_event": 32000, "once_per_split": 9000, "one_fit_before_scoring": 31000, "one_object_one_task": 31000,
        "result_shape": 7600, "score_leaves_model_unchanged": 6300, "score_method_is_r2": 6300, "score_vs_reference": 22900,
        "scored_on_test_rows": 31000, "select": 57000, "serial_equals_delayed": 5120, "splinecv_argmax": 360, "splinecv_candidates": 360,
        "splinecv_passes_data": 1140, "splinecv_predicts_like_spline": 360, "splinecv_scores": 360, "splinecv_serial_equals_delayed_scores": 670,
        "splinecv_serial_equals_delayed_selection": 170, "splinecv_uses_cv": 350, "split_aligned": 1920, "split_complementary": 960,
        "split_rows_known": 1920, "split_structure": 960, "split_whole_blocks": 470, "test_rows_aligned": 31000, "train_rows_aligned": 31000,
    }.items()}, distinct_nontrivial=2860, knn1_cases=120, schedules_with_overlapping_tasks=1880, schedules_completed_out_of_split_order=3600,
        **{"schedule:" + s: 640 for s in W.SCHEDULES},
        **{"eval:score_vs_flat_reference": 960, "eval:cv_sees_rows_in_split_order": 2290},
        **{"class:tts_sizes:%s:%s" % (m, k): 68 for m in ("plain", "blocked") for k in W.SIZE_MODES}, **{"eval:split_sizes": 800},
        **{"class:random_state:tts:%s:%s" % (k, m): 160 for k in W.RS_KINDS for m in ("plain", "blocked")},
        **{"class:random_state:cv:" + k: 200 for k in W.RS_KINDS},
        **{"eval:splits_are_those_of_the_float64_coordinates": 1500, "class:utm:points_moved_next_to_block_edges": 900,
           "class:utm:cv:BlockKFold": 25, "class:utm:cv:BlockShuffleSplit": 25},
        **{"eval:defaults:" + k: 38 for k in ("SplineCV_constructor", "SplineCV_fit", "cross_val_score", "score", "train_test_split")},
        **{"class:splinecv:scorer_object:" + k: 16 for k in ("make_scorer", "get_scorer", "plain_callable")},
        **{"eval:several_calls_in_one_graph": 400, "defaulted_argument:cross_val_score.cv": 76, "defaulted_argument:cross_val_score.scoring": 76},
        **{"eval:lazy_score_is_of_call_time": 600, "class:lazy_consumed_after:cross_val_score:reconfigure": 30,
           "class:lazy_consumed_after:cross_val_score:fit_on_the_data": 25, "class:lazy_consumed_after:cross_val_score:data_in_place": 20,
           "class:lazy_consumed_after:splinecv:any_change": 100, "class:lazy_consumed_after:splinecv:set_params": 30,
           "class:lazy_consumed_after:splinecv:data_in_place": 25, "class:lazy_scan:reconfigured_by:set_params": 80,
           "class:lazy_scan:reconfigured_by:attribute": 80},
        **{"class:lazy_scan:estimator:" + k: 25 for k in ("spline", "trend", "knn", "chain")},
        # equivalent spellings and SplineCV option combinations (about 40 percent of the minimum over seeds 10 and 11)
        **{"eval:equivalent_spellings_agree": 580,
           "eval:tts_equivalent_spellings_agree": 960,
           "eval:splinecv_final_model_configuration": 619,
           "cross_val_score:bare_cv_replayed": 632,
           "class:cv_spelling:bare": 356,
           "class:cv_spelling:proxy_list": 822,
           "class:cv_spelling:proxy": 1250,
           "class:weights_spelling:tuple_of_None": 354,
           "class:tts_spelling:test_size:float64": 683,
           "class:tts_spelling:test_size:int64": 146,
           "class:tts_spelling:shape": 241,
           "class:tts_spelling:spacing": 220,
           "class:tts:test_size_as_count": 146,
           "class:tts:spacing_as_int": 34,
           "class:dampings_container:list": 214,
           "class:dampings_container:tuple": 212,
           "class:dampings_container:ndarray": 194,
           "class:dampings_scalar:int": 64,
           "class:dampings_scalar:numpy.int64": 69,
           "class:dampings_scalar:numpy.float64": 252,
           "class:mindists_container:ndarray": 64,
           "class:splinecv:dampings_of_integer_type": 69,
           "class:splinecv:integral_dampings": 86,
           "class:splinecv:force_coords:coarse_grid": 85,
           "class:splinecv:engine:numpy": 83,
           "class:splinecv:scoring_with_weights": 120,
           "class:splinecv:several_mindists": 76,
           "class:delayed_spelling:bool": 112,
           "class:delayed_spelling:int": 54,
           "class:spline_damping_spelling:integral_as_int": 26,
           "class:spline_damping_spelling:integral_as_int64": 26,
           "class:cv:default(None)": 67,
           "class:scoring_spelling:none": 242,
           "class:scoring_spelling:string": 292,
           "class:scoring_spelling:get_scorer": 265,
           "class:scoring_spelling:make_scorer": 305,
           "class:scoring_spelling:plain_callable": 302},
        **{"class:splinecv_history:changed:cv": 132,
           "class:splinecv_history:changed:dampings": 127,
           "class:splinecv_history:changed:delayed": 88,
           "class:splinecv_history:changed:mindists": 130,
           "class:splinecv_history:changed:scoring": 129,
           "class:splinecv_history:how:attribute": 304,
           "class:splinecv_history:how:set_params": 306,
           "class:splinecv_history:second_fit_on_other_data": 72,
           "class:splinecv_history:when:before_first_fit": 309,
           "class:splinecv_history:when:between_fits": 304,
           "eval:fitted_estimator_predicts_the_same": 1899,
           "eval:meta_estimator_untouched_deeply": 3715,
           "eval:splinecv_current_grid": 255,
           "eval:splinecv_history_fit_judged": 256,
           "eval:splinecv_parameters_kept": 256},
        **{"class:array_layout:" + k: 640 for k in W.ARRAY_LAYOUTS}, **{"class:score_array_layout:" + k: 320 for k in W.ARRAY_LAYOUTS},
        **{"class:splinecv:two_dimensional_grid": 48, "class:layout:2d": 970, "class:layout:2d:arrays_in_different_memory_orders": 930, "class:layout:2d:mesh": 390,
           "class:array_layout:coordinate:other-memory-order": 1600, "class:array_layout:data:other-memory-order": 1080,
           "class:array_layout:weights:other-memory-order": 660}),
}
JOBS = {"quick": 1, "thorough": 16}
CASE_TIMEOUT_S = 300


def plan(tier):
    if tier == "quick":
        return collections.OrderedDict(cv=38, score=12, tts=10, splinecv=12, history=8, lazyscan=12, defaults=4, utm=8)
    return collections.OrderedDict(cv=1600, score=400, tts=400, splinecv=480, client=32, history=320, lazyscan=256, defaults=96, utm=128)


def install(tap, run):
    M.install(tap, run)


def run_case(run, tap, stream, index, rng):
    import verde as vd

    M.S.begin_case()
    with warnings.catch_warnings():
        warnings.simplefilter("ignore")
        try:
            if stream == "cv":
                W.case_cv(run, rng, vd, index=index)
            elif stream == "score":
                W.case_score(run, rng, vd)
            elif stream == "tts":
                W.case_tts(run, rng, vd, index)
            elif stream == "splinecv":
                W.case_splinecv(run, rng, vd, index=index)
            elif stream == "utm":
                W.case_utm(run, rng, vd, index)
            elif stream == "defaults":
                W.case_defaults(run, rng, vd, index)
            elif stream == "lazyscan":
                W.case_lazy_scan(run, rng, vd, index)
            elif stream == "history":
                W.case_splinecv_history(run, rng, vd, index)
            elif stream == "client":
                W.case_client(run, rng, vd, index)
        finally:
            with M.GL:
                M.flush_local(run)


def finish(run, tap, shard):  # noqa: U100
    M.S.begin_case()


LEVEL_TEXT = (
    "Every cross_val_score / score / score_estimator / select / train_test_split / SplineCV.fit execution produced by the seeded workload "
    "(nested ones included: the cross_val_score calls made by SplineCV, the fits and scorings made inside dask worker threads) is recorded "
    "with object identity, thread and the row ids it saw, and judged against the splits a recording cross-validator proxy handed out and "
    "against numpy metrics of models the harness fits itself. Delayed score lists are recomputed under eight sampled schedules. Held means "
    "'no refutation among the monitored executions and sampled schedules', not a proof."
)
LEVEL_NOTE = (
    "Trusted: verde's fit/predict of the individual gridders (C01-C03) for the reference model, sklearn.base.clone, numpy metric formulas, "
    "dask schedulers; schedules and inputs are sampled."
)
TECHNIQUE = (
    "runtime monitoring: recording monitors on the real callables (object id, thread id, row ids), a recording cross-validator proxy, offline "
    "checkers over the recorded events with an independent numpy reference, schedule exploration of dask.delayed graphs "
    "(synchronous / threaded 2-4-16 workers, sys.setswitchinterval(1e-5), permuted submission, one task at a time)"
)
