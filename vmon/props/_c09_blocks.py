"""
Reference code shared by the C09 and C10 checks (nothing here imports verde or pandas groupby).

* block geometry from the C07 reference (``ref.n_intervals_for`` / ``ref.line_nodes``) and an
  independent floor-arithmetic labelling of the points that are clearly inside a block;
* numpy / ``math.fsum`` reference reductions over the members of a block;
* small helpers to read the arguments of a ``filter`` call.
"""
import copy
import math
import types

import numpy as np

from .. import core, ref

EPS = ref.EPS
TINY = float(np.finfo("float64").tiny)
MARGIN = 1e-9  # block sizes: closer than this to a block edge = either neighbour


# --------------------------------------------------------------------------
# reading arguments
# --------------------------------------------------------------------------
def as_tuple(obj):
    """verde's convention: a single array is a 1-tuple."""
    if obj is None:
        return None
    return obj if isinstance(obj, tuple) else (obj,)


def flat(arr, dtype="float64"):
    """C-order element sequence of an array / Series / list as a fresh float64 vector."""
    return np.array(np.asarray(arr), dtype=dtype).ravel(order="C")


def container_kind(obj):
    name = type(obj).__name__
    if name == "Series":
        idx = obj.index
        default = type(idx).__name__ == "RangeIndex" and idx.start == 0 and idx.step == 1
        return "series_default_index" if default else "series_custom_index"
    if isinstance(obj, np.ndarray):
        if not obj.flags.writeable:
            return "ndarray_readonly"
        if obj.ndim >= 2:
            return "ndarray_%dd_%s" % (obj.ndim, "F" if (obj.flags.f_contiguous and not obj.flags.c_contiguous) else "C")
        if obj.ndim == 1 and obj.size > 1 and obj.strides[0] != obj.itemsize:
            return "ndarray_strided"
        return "ndarray_%dd" % obj.ndim
    return name


def operand_eps(*arrays):
    """
    Machine epsilon the tolerance of a value is built on: float64, unless an operand the code was handed is
    itself a narrower float (float32 data / weights / coordinates), then that operand's epsilon.
    """
    eps = EPS
    for arr in arrays:
        if arr is None:
            continue
        dtype = np.asarray(arr).dtype
        if dtype.kind == "f" and dtype.itemsize < 8:
            eps = max(eps, float(np.finfo(dtype).eps))
    return eps


def dtype_name(arr):
    return str(np.asarray(arr).dtype)


def snapshot_params(est):
    """Deep copy of the constructor parameters of an estimator (taken before the call)."""
    return copy.deepcopy(est.get_params(deep=False))


def params_changed(before, est):
    """Names of constructor parameters whose value differs from the snapshot (callables by identity)."""
    now = est.get_params(deep=False)
    changed = []
    for key in sorted(set(before) | set(now)):
        if key not in before or key not in now:
            changed.append(key)
            continue
        a, b = before[key], now[key]
        if callable(a) or callable(b):
            same = a is b
        else:
            same = type(a) is type(b) and core.digest(a) == core.digest(b)
        if not same:
            changed.append(key)
    return changed


# --------------------------------------------------------------------------
# block geometry (reference, independent of verde)
# --------------------------------------------------------------------------
class Axis:
    __slots__ = ("lo", "hi", "n", "tie", "edges", "centres", "width")

    def __init__(self, lo, hi, size, spacing, adjust):
        lo, hi = float(lo), float(hi)
        n, tie = ref.n_intervals_for(lo, hi, size, spacing)
        if spacing is not None and adjust == "region":
            hi = float(ref.frac(lo) + n * ref.frac(spacing))
        self.lo, self.hi, self.n, self.tie = lo, hi, int(n), bool(tie)
        self.edges = ref.line_nodes(lo, hi, self.n, False)
        self.centres = ref.line_nodes(lo, hi, self.n, True)
        self.width = (hi - lo) / self.n

    def locate(self, x):
        """
        Block index along the axis by floor arithmetic, clamped to the region.
        Returns (low, high): the admissible index range of every point (low == high when the point
        is farther than MARGIN block sizes from every interior edge).
        """
        x = np.asarray(x, dtype="float64")
        if self.n == 1:
            zero = np.zeros(x.shape, dtype=np.int64)
            return zero, zero.copy()
        if not self.width > 0:  # degenerate axis with several coincident blocks: nothing can be demanded
            return np.zeros(x.shape, dtype=np.int64), np.full(x.shape, self.n - 1, dtype=np.int64)
        t = (x - self.lo) / self.width
        low = np.clip(np.floor(t - MARGIN), 0, self.n - 1).astype(np.int64)
        high = np.clip(np.floor(t + MARGIN), 0, self.n - 1).astype(np.int64)
        return low, high


class Geometry:
    """Blocks of a region: row-major from the south-west corner (label = row * n_east + col)."""

    def __init__(self, east, north, spacing, shape, adjust, region):
        if region is None:
            region = (east.min(), east.max(), north.min(), north.max())
        w, e, s, n = (float(v) for v in region)
        if shape is not None:
            size_n, size_e = int(shape[0]), int(shape[1])
            sp_n = sp_e = None
        else:
            sp = np.atleast_1d(np.asarray(spacing, dtype="float64"))
            sp_n, sp_e = (float(sp[0]), float(sp[0])) if sp.size == 1 else (float(sp[0]), float(sp[1]))
            size_n = size_e = None
        self.region = (w, e, s, n)
        self.east = Axis(w, e, size_e, sp_e, adjust)
        self.north = Axis(s, n, size_n, sp_n, adjust)
        self.n_blocks = self.east.n * self.north.n
        self.tie = self.east.tie or self.north.tie

    def centre(self, label):
        row, col = divmod(int(label), self.east.n)
        return float(self.east.centres[col]), float(self.north.centres[row])

    def centre_tolerance(self):
        return (4 * ref.line_tolerance(self.east.lo, self.east.hi), 4 * ref.line_tolerance(self.north.lo, self.north.hi))

    def judge_labels(self, east, north, labels):
        """
        Compare observed labels with the floor-arithmetic reference.

        Returns (problem or None, n_sure, n_either) where ``sure`` points admit one block only.
        """
        labels = np.asarray(labels)
        if labels.shape != east.shape:
            return "labels have shape %s, the raveled points %s" % (labels.shape, east.shape), 0, 0
        if labels.size and (labels.min() < 0 or labels.max() >= self.n_blocks):
            return "label outside 0..%d" % (self.n_blocks - 1), 0, 0
        rows, cols = np.divmod(labels.astype(np.int64), self.east.n)
        clo, chi = self.east.locate(east)
        rlo, rhi = self.north.locate(north)
        bad = (cols < clo) | (cols > chi) | (rows < rlo) | (rows > rhi)
        sure = (clo == chi) & (rlo == rhi)
        n_sure = int(sure.sum())
        if bad.any():
            k = int(np.flatnonzero(bad)[0])
            return ("point %d (%.17g, %.17g) labelled %d = (row %d, col %d) but lies in row %d..%d, col %d..%d of the %dx%d blocks"
                    % (k, east[k], north[k], labels[k], rows[k], cols[k], rlo[k], rhi[k], clo[k], chi[k], self.north.n, self.east.n)), n_sure, labels.size - n_sure
        return None, n_sure, labels.size - n_sure


def groups_of(labels):
    """[(label, member indices in original order)] in ascending label order (numpy only)."""
    labels = np.asarray(labels)
    order = np.argsort(labels, kind="stable")
    sorted_labels = labels[order]
    if sorted_labels.size == 0:
        return []
    cuts = np.flatnonzero(np.diff(sorted_labels)) + 1
    starts = np.concatenate([[0], cuts])
    stops = np.concatenate([cuts, [sorted_labels.size]])
    return [(int(sorted_labels[a]), order[a:b]) for a, b in zip(starts, stops)]


# --------------------------------------------------------------------------
# reference reductions
# --------------------------------------------------------------------------
def ref_sum(v, w=None):  # noqa: U100
    return math.fsum(v.tolist())


def ref_mean(v, w=None):  # noqa: U100
    return math.fsum(v.tolist()) / v.size


def ref_median(v, w=None):  # noqa: U100
    s = np.sort(v)
    mid = s.size // 2
    return float(s[mid]) if s.size % 2 else 0.5 * (float(s[mid - 1]) + float(s[mid]))


def ref_min(v, w=None):  # noqa: U100
    return float(min(v.tolist()))


def ref_max(v, w=None):  # noqa: U100
    return float(max(v.tolist()))


def ref_average(v, w=None):
    if w is None:
        return ref_mean(v)
    return math.fsum((v * w).tolist()) / math.fsum(w.tolist())


def weighted_median(values, weights=None):
    """
    Harness-defined reduction that accepts ``weights=``: the smallest member value at which the
    cumulated weight (members sorted by value) reaches half of the total weight.
    Works on whatever container the caller hands over (numpy array, pandas Series).
    """
    v = np.array(np.asarray(values), dtype="float64").ravel()
    w = np.ones_like(v) if weights is None else np.array(np.asarray(weights), dtype="float64").ravel()
    if w.shape != v.shape:
        raise ValueError("weighted_median: %d values but %d weights" % (v.size, w.size))
    order = np.argsort(v, kind="stable")
    cum = np.cumsum(w[order])
    k = int(np.searchsorted(cum, 0.5 * cum[-1], side="left"))
    return float(v[order][min(k, v.size - 1)])


def weighted_median_is_stable(v, w):
    """False when a cumulated weight is within round-off of the half total (either neighbour is right)."""
    order = np.argsort(v, kind="stable")
    cum = np.cumsum(w[order])
    half = 0.5 * cum[-1]
    return bool(np.all(np.abs(cum - half) > 64 * EPS * v.size * cum[-1]))


def value_tolerance(values, n_members, eps=EPS):
    return 64 * eps * n_members * float(np.max(np.abs(values))) + TINY


def reference_for(reduction):
    """(name, reference implementation) of a reduction callable; unknown callables are applied to numpy arrays."""
    table = [(np.mean, "mean", ref_mean), (np.median, "median", ref_median), (np.sum, "sum", ref_sum),
             (np.min, "min", ref_min), (np.max, "max", ref_max), (np.average, "average", ref_average),
             (np.amin, "min", ref_min), (np.amax, "max", ref_max)]
    for func, name, impl in table:
        if reduction is func:
            return name, impl
    if reduction is weighted_median:
        return "weighted_median", weighted_median
    name = getattr(reduction, "__name__", type(reduction).__name__)
    origin = "numpy" if str(getattr(reduction, "__module__", "")).startswith("numpy") else "user"

    def apply(v, w=None):
        with np.errstate(all="ignore"):
            return float(reduction(v)) if w is None else float(reduction(v, weights=w))

    return "callable:%s.%s" % (origin, name), apply


def result_scale(name, v, want):
    """
    Magnitude the tolerance 64*eps*n*scale of a reduced value is built on: max|member| for the mean-like reductions; for an
    arbitrary callable (applied by brute force to the same members) also the size of its own result, and the squared
    magnitude for variance-like ones (their rounding error grows with max|d|^2, e.g. pandas' and numpy's variance algorithms differ).
    """
    scale = float(np.max(np.abs(v)))
    if name.startswith("callable:"):
        scale = max(scale, abs(want))
        if "var" in name:
            scale = max(scale, scale * scale)
    return scale


# --------------------------------------------------------------------------
# one filter call, as the oracle sees it
# --------------------------------------------------------------------------
class Call:
    """
    Inputs of one ``BlockReduce.filter`` / ``BlockMean.filter`` event, the labels of its nested
    ``block_split`` event, the reference block geometry and the members of every occupied block.
    """

    def __init__(self, ev, params=None):
        a = ev.args
        est = a["self"]
        self.est = est
        # the configuration the call was handed: constructor parameters as they were *before* the call
        self.cfg = types.SimpleNamespace(**(params if params is not None else est.get_params(deep=False)))
        cfg = self.cfg
        self.raw_coordinates = a["coordinates"]
        self.raw_data = a["data"]
        self.raw_weights = a["weights"]
        self.coords = [flat(c) for c in self.raw_coordinates]
        self.data = [flat(d) for d in as_tuple(self.raw_data)]
        wts = as_tuple(self.raw_weights)
        self.weights = None if (wts is None or any(w is None for w in wts)) else [flat(w) for w in wts]
        self.ncomp = len(self.data)
        self.npoints = self.coords[0].size
        raw_data = as_tuple(self.raw_data)
        self.data_dtypes = [dtype_name(d) for d in raw_data]
        self.weight_dtypes = None if self.weights is None else [dtype_name(w) for w in wts]
        self.data_eps = [operand_eps(raw_data[c], None if self.weights is None else wts[c]) for c in range(self.ncomp)]
        self.coord_eps = [operand_eps(c) for c in self.raw_coordinates]
        self.problem = None  # structural problem with the nested labelling
        self.labels = None
        self.centres = None
        self.label_source = None
        self.n_sure = self.n_either = 0
        east, north = self.coords[0], self.coords[1]
        self.geometry = Geometry(east, north, cfg.spacing, cfg.shape, cfg.adjust, cfg.region)
        splits = [e for e in ev.descendants("block_split") if e.exc is None]
        geo = self.geometry
        if splits:
            centres, labels = splits[-1].result
            self.centres = tuple(np.asarray(c) for c in centres)
            self.labels = np.asarray(labels)
            self.label_source = "nested_block_split_event"
            if self.labels.shape != east.shape:
                self.problem = "nested block_split returned %s labels for %d points" % (self.labels.shape, east.size)
            elif geo.tie:
                self.label_source = "nested_block_split_event(tie: geometry not validated)"
            elif self.centres[0].size != geo.n_blocks:
                self.problem = "nested block_split made %d blocks, the reference geometry has %d x %d" % (
                    self.centres[0].size, geo.north.n, geo.east.n)
            else:
                self.problem, self.n_sure, self.n_either = geo.judge_labels(east, north, self.labels)
        else:
            clo, chi = geo.east.locate(east)
            rlo, rhi = geo.north.locate(north)
            if geo.tie or not (np.all(clo == chi) and np.all(rlo == rhi)):
                self.label_source = None  # membership undecidable without the event
            else:
                self.labels = rlo * geo.east.n + clo
                self.label_source = "reference_floor_arithmetic"
                self.n_sure = int(east.size)
        self.groups = groups_of(self.labels) if (self.labels is not None and self.problem is None) else []
        self.n_blocks = geo.n_blocks if not geo.tie else (self.centres[0].size if self.centres is not None else geo.n_blocks)

    # -- descriptions ----------------------------------------------------
    def classes(self):
        est = self.cfg
        sizes = [m.size for _, m in self.groups]
        out = [
            "components:%d" % self.ncomp,
            "weights:" + ("given" if self.weights is not None else "none"),
            "center_coordinates:%s" % bool(est.center_coordinates),
            "drop_coords:%s" % bool(est.drop_coords),
            "n_coordinates:%d" % len(self.coords),
            "blocks_by:" + ("shape" if est.shape is not None else ("spacing_pair" if np.size(est.spacing) > 1 else "spacing_scalar")),
            "region:" + ("given" if est.region is not None else "inferred"),
            "adjust:%s" % est.adjust,
            "coords_container:" + container_kind(self.raw_coordinates[0]),
            "data_container:" + container_kind(as_tuple(self.raw_data)[0]),
        ]
        for name in set(self.data_dtypes):
            out.append("data_dtype_present:" + name)
        if len(set(self.data_dtypes)) > 1:
            out.append("mixed_data_dtypes")
            kinds = ["integer" if np.dtype(d).kind in "iu" else d for d in self.data_dtypes]
            other = [k for k in kinds[1:] if k != kinds[0]]
            out.append("mixed_data_dtypes:%s_then_%s" % (kinds[0], other[0] if other else "integer_of_another_width"))
        if any(e > EPS for e in self.data_eps):
            out.append("tolerance_from_float32_operand")
        if self.weights is not None:
            for name in set(self.weight_dtypes):
                out.append("weights_dtype_present:" + name)
            out.append("weights_container:" + container_kind(as_tuple(self.raw_weights)[0]))
            if np.shape(as_tuple(self.raw_weights)[0]) != np.shape(as_tuple(self.raw_data)[0]):
                out.append("weights_shape_differs_from_data")
        if self.npoints > 100000:
            out.append("more_than_100000_points")
            out.append("more_than_100000_points:count_%d" % self.npoints)
        for name in ("spacing", "shape", "region"):
            value = getattr(est, name, None)
            if value is not None:
                out.append("spelling:%s:%s" % (name, describe(value)))
                text = describe(value)
                if name == "spacing" and np.ndim(value) == 0:
                    group = "scalar_as_" + ("python_int" if text == "int" else "python_float" if text == "float" else
                                            "0d_array" if text.startswith("ndarray") else "numpy_integer" if "int" in text else "numpy_floating")
                else:
                    group = "as_" + ("ndarray" if text.startswith("ndarray") else text.split("_of_")[0])
                    if "np." in text:
                        out.append("spelling_group:%s:elements_numpy_scalars" % name)
                    if name != "shape" and "int" in text:
                        out.append("spelling_group:%s:elements_integers" % name)
                out.append("spelling_group:%s:%s" % (name, group))
        for name in ("center_coordinates", "drop_coords", "uncertainty"):
            value = getattr(est, name, None)
            if value is not None and not isinstance(value, bool):
                out.append("spelling:flag:%s:%s=%s" % (name, describe(value), bool(value)))
                out.append("spelling_group:flag_as_%s=%s" % ("numpy_bool" if isinstance(value, np.bool_) else "int", bool(value)))
        if len(self.coords) > 2 and any(not np.any(c) for c in self.coords[2:]):
            out.append("falsy:extra_coordinate_exactly_0_everywhere")
        if any(not np.any(d) for d in self.data):
            out.append("falsy:data_component_exactly_0_everywhere")
        if self.weights is not None and any(np.all(w == 1) for w in self.weights):
            out.append("falsy:weights_exactly_1")
        if self.weights is not None and len(self.weights) > 1:
            zeros = np.array([w == 0 for w in self.weights])
            if (zeros.any(axis=0) & ~zeros.all(axis=0)).any():
                out.append("weight_exactly_0_in_some_but_not_all_components")
                out.append("weight_exactly_0_in_some_but_not_all_components:%d_components" % len(self.weights))
        if self.weights is not None:
            zero_everywhere = np.all([w == 0 for w in self.weights], axis=0)
            if zero_everywhere.any():
                out.append("weights_exactly_0_in_all_components_on_some_points")
                e, n = self.coords[0], self.coords[1]
                on_box = (e == e.min()) | (e == e.max()) | (n == n.min()) | (n == n.max())
                if (zero_everywhere & on_box).any():
                    out.append("zero_weight_point_on_the_bounding_box:region_%s" % ("inferred" if est.region is None else "given"))
        if len(self.coords) >= 11:
            out.append("coordinate_arrays:11_or_more(drop_coords=%s)" % bool(est.drop_coords))
        elif len(self.coords) == 10:
            out.append("coordinate_arrays:exactly_10(drop_coords=%s)" % bool(est.drop_coords))
        kinds = set(container_kind(x) for x in list(self.raw_coordinates) + list(as_tuple(self.raw_data))
                    + (list(as_tuple(self.raw_weights)) if self.weights is not None else []))
        if "series_custom_index" in kinds:
            out.append("series_input_with_custom_index")
        if sizes:
            out.append("empty_blocks:" + ("present" if len(sizes) < self.n_blocks else "absent"))
            if min(sizes) == 1:
                out.append("single_member_block_present")
            if max(sizes) >= 2:
                out.append("multi_member_block_present")
            if len(sizes) == 1:
                out.append("single_occupied_block")
        geo = self.geometry
        w, e, s, n = geo.region
        east, north = self.coords[0], self.coords[1]
        if np.any((east < w) | (east > geo.east.hi) | (north < s) | (north > geo.north.hi)):
            out.append("points_outside_region")
        if self.n_either:
            out.append("points_on_block_edges")
        if geo.east.width != geo.north.width:
            out.append("non_square_blocks")
        return out

    def nontrivial(self):
        """>= 2 occupied blocks, one with >= 2 members whose data differ, an empty block present."""
        if len(self.groups) < 2 or len(self.groups) >= self.n_blocks:
            return False
        for _, members in self.groups:
            if members.size >= 2:
                vals = self.data[0][members]
                if vals.min() != vals.max():
                    return True
        return False

    def witness(self, **extra):
        est = self.cfg
        out = {
            "config": {"spacing": est.spacing, "shape": est.shape, "region": est.region, "adjust": est.adjust,
                       "center_coordinates": est.center_coordinates, "drop_coords": est.drop_coords,
                       "reduction": getattr(getattr(est, "reduction", None), "__name__", repr(getattr(est, "reduction", None))),
                       "uncertainty": getattr(est, "uncertainty", None)},
            "coordinates": list(self.raw_coordinates), "data": self.raw_data, "weights": self.raw_weights,
            "data_dtypes": self.data_dtypes, "weight_dtypes": self.weight_dtypes,
            "labels": self.labels, "label_source": self.label_source,
            "reference_blocks": {"n_north": self.geometry.north.n, "n_east": self.geometry.east.n,
                                 "region_used": [self.geometry.east.lo, self.geometry.east.hi, self.geometry.north.lo, self.geometry.north.hi]},
        }
        out.update(extra)
        return out


def check_layout(call, out_coords, out_values, what):
    """
    Shape of the output: one entry per occupied block. ``out_values`` is a list of (name, value) where
    value is an array (one component) or a tuple of arrays. Returns (problem or None, list of per-name component lists).
    """
    n_occ = len(call.groups)
    want_coords = 2 if call.cfg.drop_coords else len(call.coords)
    if not isinstance(out_coords, tuple):
        return "%s: coordinates are a %s, not a tuple" % (what, type(out_coords).__name__), None
    if len(out_coords) != want_coords:
        return "%s: %d coordinate arrays returned, %d expected (drop_coords=%s, %d given)" % (
            what, len(out_coords), want_coords, call.cfg.drop_coords, len(call.coords)), None
    for k, c in enumerate(out_coords):
        if np.shape(c) != (n_occ,):
            return "%s: coordinate %d has shape %s but %d blocks contain data (of %d blocks)" % (
                what, k, np.shape(c), n_occ, call.n_blocks), None
    comps = []
    for name, value in out_values:
        if call.ncomp == 1:
            if isinstance(value, tuple):
                return "%s: %s is a tuple for single-component data" % (what, name), None
            parts = [value]
        else:
            if not isinstance(value, tuple) or len(value) != call.ncomp:
                return "%s: %s is not a tuple of %d arrays" % (what, name, call.ncomp), None
            parts = list(value)
        for k, p in enumerate(parts):
            if np.shape(p) != (n_occ,):
                return "%s: %s component %d has shape %s but %d blocks contain data (of %d blocks)" % (
                    what, name, k, np.shape(p), n_occ, call.n_blocks), None
        comps.append([np.asarray(p, dtype="float64") for p in parts])
    return None, comps


def check_block_values(call, observed, impl, weighted, stable=None, name=""):
    """
    Compare every entry of every component with the reference reduction of that block's members.
    Returns (list of failure dicts, number judged, number skipped, largest error/tolerance).
    A reference that is not finite (a product that overflows) is matched exactly (inf == inf, NaN with NaN).
    """
    failures, judged, skipped, worst = [], 0, 0, 0.0
    for c in range(call.ncomp):
        values = call.data[c]
        wts = call.weights[c] if (weighted and call.weights is not None) else None
        for k, (label, members) in enumerate(call.groups):
            v = values[members]
            w = None if wts is None else wts[members]
            if stable is not None and w is not None and not stable(v, w):
                skipped += 1
                continue
            if np.isnan(v).any():
                # NaN among the members: the unchanged code skips it for some reductions (sum, mean, max) and propagates it for
                # others; the statement is about data values, so only the entry's existence and coordinates are judged
                call.nan_member_entries = getattr(call, "nan_member_entries", 0) + 1
                continue
            want = impl(v, w)
            tol = 64 * call.data_eps[c] * members.size * result_scale(name, v, want) + TINY
            got = float(observed[c][k])
            judged += 1
            if not np.isfinite(want):
                err = 0.0 if (got == want or (np.isnan(got) and np.isnan(want))) else np.inf
            else:
                err = abs(got - want)
            if err <= tol:
                worst = max(worst, err / tol)
            elif len(failures) < 3:
                failures.append({"component": c, "entry": k, "block_label": label, "members": members,
                                 "member_values": v, "member_weights": w, "observed": got, "expected": want, "tolerance": tol})
            else:
                failures.append(None)
    return [f for f in failures if f is not None], judged, skipped, worst


def check_block_coordinates(call, out_coords, impl, name=""):
    """Centre of that very block, or the (unweighted) reduction of the members' coordinates."""
    failures, judged, worst = [], 0, 0.0
    centre = bool(call.cfg.center_coordinates)
    geo = call.geometry
    tol_centre = geo.centre_tolerance()
    for i, out in enumerate(out_coords):
        out = np.asarray(out, dtype="float64")
        source = call.coords[i]
        for k, (label, members) in enumerate(call.groups):
            if centre and i < 2:
                if geo.tie:  # geometry undecided: the centre of that block as block_split reported it
                    want, tol = float(call.centres[i][label]), 0.0
                else:
                    want, tol = geo.centre(label)[i], tol_centre[i]
                kind = "centre of block %d" % label
            else:
                v = source[members]
                want = impl(v, None)
                tol = 64 * call.coord_eps[i] * members.size * result_scale(name, v, want) + TINY
                kind = "reduction of the %d member coordinates" % members.size
            got = float(out[k])
            if not np.isfinite(want):  # a product of coordinates that overflows: matched exactly
                err = 0.0 if (got == want or (np.isnan(got) and np.isnan(want))) else np.inf
            else:
                err = abs(got - want)
            judged += 1
            if err <= tol:
                if tol > 0:
                    worst = max(worst, err / tol)
            elif len(failures) < 3:
                failures.append({"coordinate": i, "entry": k, "block_label": label, "kind": kind, "members": members,
                                 "observed": got, "expected": want, "tolerance": tol})
    return failures, judged, worst


# --------------------------------------------------------------------------
# workload generators shared by C09 and C10
# --------------------------------------------------------------------------
def make_points(rng, n=None, kind=None):
    from .. import gen

    if n is None:
        n = int(rng.choice([1, 2, 3, 5, 8, 12, 18, 24, 36, 60, 90], p=[.03, .04, .05, .08, .12, .15, .15, .14, .12, .08, .04]))
    east, north = gen.cloud(rng, n, kind=kind)
    return east, north


def make_blocks(rng, east, north, want_empty=None):
    """
    Estimator keyword arguments (spacing|shape, region, adjust) for a cloud: 1..7 blocks per axis,
    square or not, region inferred / padded (empty border blocks) / shrunk (points outside) / shifted.
    """
    w, e, s, n = float(east.min()), float(east.max()), float(north.min()), float(north.max())
    scale = max(e - w, n - s)
    if not scale > 0:
        scale = max(abs(w), abs(s), 1.0) * 1e-3
    width = (e - w) if e > w else scale
    height = (n - s) if n > s else scale
    kwargs = {}
    mode = str(rng.choice(["inferred", "padded", "shrunk", "shifted"], p=[.4, .3, .15, .15]))
    if want_empty and mode == "inferred" and rng.random() < 0.5:
        mode = "padded"
    if mode in ("shrunk", "shifted") and not (e > w and n > s):
        mode = "padded"
    if mode == "padded":
        pad_e, pad_n = rng.uniform(0.2, 1.0, 2) * (width, height)
        region = [w - pad_e * rng.uniform(0, 1), e + pad_e, s - pad_n, n + pad_n * rng.uniform(0, 1)]
    elif mode == "shrunk":
        region = [w + 0.2 * width * rng.uniform(0, 1), e - 0.25 * width * rng.uniform(0, 1),
                  s + 0.25 * height * rng.uniform(0, 1), n - 0.2 * height * rng.uniform(0, 1)]
    elif mode == "shifted":
        region = [w + 0.3 * width, e + 0.3 * width, s - 0.3 * height, n - 0.3 * height]
    else:
        region = None
    if region is not None:
        region = [float(v) for v in region]
        kwargs["region"] = region if rng.random() < 0.7 else tuple(region)
        rw, rh = region[1] - region[0], region[3] - region[2]
    else:
        rw, rh = width, height
    pick = rng.random()
    n_e, n_n = int(rng.integers(1, 8)), int(rng.integers(1, 8))
    if pick < 0.3:
        kwargs["shape"] = (n_n, n_e)
    elif pick < 0.6:
        kwargs["spacing"] = float(min(rw, rh) / rng.uniform(0.6, 6.5))
    else:
        kwargs["spacing"] = (float(rh / rng.uniform(0.6, 7.4)), float(rw / rng.uniform(0.6, 7.4)))
    if "spacing" in kwargs and rng.random() < 0.4:
        kwargs["adjust"] = "region"
    return kwargs


def snap_to_edges(rng, east, north, kwargs, fraction=0.4):
    """Move some points exactly onto block edges / corners of the reference geometry (membership either-way there)."""
    est_like = dict(spacing=None, shape=None, adjust="spacing", region=None)
    est_like.update(kwargs)
    geo = Geometry(east, north, est_like["spacing"], est_like["shape"], est_like["adjust"], est_like["region"])
    east, north = east.copy(), north.copy()
    for k in range(east.size):
        if rng.random() < fraction:
            which = rng.integers(0, 3)
            if which in (0, 2):
                east[k] = geo.east.edges[int(rng.integers(0, geo.east.edges.size))]
            if which in (1, 2):
                north[k] = geo.north.edges[int(rng.integers(0, geo.north.edges.size))]
    return east, north


LAYOUTS = ["1d", "1d", "2d", "fortran", "strided", "readonly", "series", "series_str", "mixed"]


def wrap(arr, kind, rng):
    """The same element sequence in another container / memory layout."""
    import pandas as pd

    size = arr.size
    if kind in ("2d", "fortran"):
        for rows in (2, 3, 5, 4, 7):
            if size % rows == 0 and size > rows:
                out = arr.reshape(rows, size // rows)
                return np.asfortranarray(out) if kind == "fortran" else out.copy()
        return arr.reshape(1, size).copy()
    if kind == "strided":
        big = np.full(size * 3, -777.0, dtype=arr.dtype)
        big[1::3] = arr
        return big[1::3]
    if kind == "readonly":
        out = arr.copy()
        out.setflags(write=False)
        return out
    if kind == "series":
        # a permutation of 0..n-1 (a label lookup would silently pick another element) or shifted labels (it would fail)
        return pd.Series(arr.copy(), index=rng.permutation(size) + (0 if rng.random() < 0.4 else int(rng.integers(-5, 1000))))
    if kind == "series_str":
        return pd.Series(arr.copy(), index=["p%03d" % i for i in rng.permutation(size)])
    return arr.copy()


def wrap_all(arrays, kind, rng):
    """Wrap every array of a call; 'mixed' picks 1-D containers per array (every array gets its own index)."""
    if kind == "mixed":
        return [wrap(a, str(rng.choice(["1d", "strided", "readonly", "series", "series_str"])), rng) for a in arrays]
    return [wrap(a, kind, rng) for a in arrays]


# --------------------------------------------------------------------------
# data dtypes and call histories (shared by C09 and C10)
# --------------------------------------------------------------------------
INT_TYPES = ["int16", "int32", "int64"]


def choose_dtypes(rng, ncomp):
    """
    dtypes of the data components of one call: all float64 | one narrow type for all | mixed in both orders
    (integer first then float64, float64 first then integer, float32 with float64).
    """
    pick = rng.random()
    if pick < 0.5:
        return ["float64"] * ncomp
    ints = str(rng.choice(INT_TYPES))
    if ncomp >= 2 and pick < 0.85:
        base = {0: [ints, "float64"], 1: ["float64", ints], 2: ["float32", "float64"], 3: ["float64", "float32"],
                4: [ints, "float32"]}[int(rng.integers(0, 5))]
        return base + [str(rng.choice(["float64", ints, "float32"])) for _ in range(ncomp - 2)]
    return [str(rng.choice(INT_TYPES + ["float32"]))] * ncomp


def retype(rng, field, dtype):
    """The field in another dtype: float32 rounds the values, integers rescale them to a few hundred .. 1e7 counts."""
    if dtype == "float64":
        return field
    if dtype == "float32":
        return field.astype("float32")
    top = {"int16": 3.0e3, "int32": 1.0e6, "int64": 1.0e7}[dtype] * rng.uniform(0.03, 1.0)
    scale = float(np.max(np.abs(field))) or 1.0
    return np.round(field / scale * top).astype(dtype)


def integer_weights(rng, size):
    return rng.integers(1, 60, size).astype(str(rng.choice(["int32", "int64"])))


def other_cloud(rng, east, north):
    """A cloud of another size with another bounding box (stretched, shifted, partly overlapping)."""
    n = int(rng.integers(max(2, east.size // 3), east.size * 2 + 3))
    e2, n2 = make_points(rng, n=n)
    width = (east.max() - east.min()) or 1.0
    height = (north.max() - north.min()) or 1.0
    e2 = (e2 - e2.min()) / ((e2.max() - e2.min()) or 1.0)
    n2 = (n2 - n2.min()) / ((n2.max() - n2.min()) or 1.0)
    e2 = east.min() + width * (rng.uniform(-0.6, 0.6) + e2 * rng.uniform(0.4, 1.9))
    n2 = north.min() + height * (rng.uniform(-0.6, 0.6) + n2 * rng.uniform(0.4, 1.9))
    return np.ascontiguousarray(e2), np.ascontiguousarray(n2)


def history_blocks(rng, east, north):
    """Constructor arguments of an instance that is going to be reused: region=None (60 %) or a fixed region."""
    kwargs = make_blocks(rng, east, north)
    if rng.random() < 0.6:
        kwargs.pop("region", None)
        width, height = (east.max() - east.min()) or 1.0, (north.max() - north.min()) or 1.0
        if "spacing" in kwargs:
            kwargs["spacing"] = (float(height / rng.uniform(1.2, 5.5)), float(width / rng.uniform(1.2, 5.5)))
    kwargs["center_coordinates"] = bool(rng.random() < 0.5)
    return kwargs


# --------------------------------------------------------------------------
# re-configuration histories (shared by C09 and C10)
# --------------------------------------------------------------------------
RECONFIGURE_HOW = ["set_params", "attribute_assignment", "clone_then_set_params"]


def pick_changes(rng, params, east, north, kinds, reductions=None):
    """
    New values for 1..3 constructor parameters of an existing estimator (``params`` = its get_params()).
    kinds: subset of uncertainty | spacing | shape_vs_spacing | region | adjust | center_coordinates | drop_coords | reduction.
    Returns (changes dict, names of the kinds applied).
    """
    width = (east.max() - east.min()) or 1.0
    height = (north.max() - north.min()) or 1.0
    names = [str(k) for k in rng.choice(kinds, size=int(rng.integers(1, 4)), replace=False)]
    changes = {}
    for name in names:
        if name == "uncertainty":
            changes["uncertainty"] = not bool(params["uncertainty"])
        elif name == "spacing":
            new = (float(height / rng.uniform(1.2, 6.5)), float(width / rng.uniform(1.2, 6.5)))
            changes["spacing"] = new if rng.random() < 0.6 else float(min(new))
            changes["shape"] = None
        elif name == "shape_vs_spacing":
            shape_now = changes.get("shape", params.get("shape")) if "shape" in changes or "spacing" not in changes else None
            if shape_now is None:
                changes["shape"] = (int(rng.integers(1, 7)), int(rng.integers(1, 7)))
                changes["spacing"] = None
            else:
                changes["spacing"] = float(min(width, height) / rng.uniform(1.2, 5.5))
                changes["shape"] = None
        elif name == "region":
            if params.get("region") is None:
                changes["region"] = [float(east.min() - 0.4 * width), float(east.max() + 0.1 * width),
                                     float(north.min() + 0.15 * height), float(north.max() + 0.5 * height)]
            else:
                changes["region"] = None
        elif name == "adjust":
            changes["adjust"] = "region" if params.get("adjust") == "spacing" else "spacing"
        elif name == "center_coordinates":
            changes["center_coordinates"] = not bool(params["center_coordinates"])
        elif name == "drop_coords":
            changes["drop_coords"] = not bool(params["drop_coords"])
        elif name == "reduction":
            others = [r for r in reductions if r is not params["reduction"]]
            changes["reduction"] = others[int(rng.integers(0, len(others)))]
    return changes, names


def reconfigure(rng, est, changes):
    """Apply the changes to the SAME object (set_params / plain attribute assignment) or to a clone of it. Returns (estimator, how)."""
    import sklearn.base

    how = RECONFIGURE_HOW[int(rng.integers(0, len(RECONFIGURE_HOW)))]
    if how == "set_params":
        est.set_params(**changes)
    elif how == "attribute_assignment":
        for key, value in changes.items():
            setattr(est, key, value)
    else:
        est = sklearn.base.clone(est).set_params(**changes)
    return est, how


# --------------------------------------------------------------------------
# equivalent spellings of the same argument (shared by C09 and C10)
# --------------------------------------------------------------------------
def describe(value):
    """Short name of the way an argument is spelled (for the class counters)."""
    if value is None:
        return "None"
    if isinstance(value, (bool, np.bool_)):
        return "bool" if isinstance(value, bool) else "np.bool_"
    if isinstance(value, np.generic):  # before int/float: np.float64 is a subclass of float
        return "np." + type(value).__name__
    if isinstance(value, int):
        return "int"
    if isinstance(value, float):
        return "float"
    if isinstance(value, np.generic):
        return "np." + type(value).__name__
    if isinstance(value, np.ndarray):
        return "ndarray%dd(%s)" % (value.ndim, value.dtype)
    if isinstance(value, (tuple, list)):
        inner = sorted(set(describe(v) for v in value))
        return "%s_of_%s" % (type(value).__name__, "+".join(inner))
    if isinstance(value, str):
        return "str"
    if isinstance(value, type):
        return "type:" + value.__name__
    return type(value).__name__


def spell_scalar(rng, x):
    x = float(x)
    options = ["float", "np.float64", "np.float64", "ndarray0d"]
    if x.is_integer():
        options += ["int", "int", "np.int64", "np.int32", "ndarray0d_int"]
    kind = str(rng.choice(options))
    return {"float": x, "np.float64": np.float64(x), "ndarray0d": np.array(x), "int": int(x), "np.int64": np.int64(x),
            "np.int32": np.int32(x), "ndarray0d_int": np.array(int(x))}[kind]


def spell_sequence(rng, values, integer_only=False):
    values = [float(v) for v in values]
    integral = all(v.is_integer() for v in values)
    options = [] if integer_only else ["tuple", "list", "ndarray_float64", "tuple_np_float64"]
    if integral:
        options += ["list_int", "tuple_int", "ndarray_int64", "ndarray_int32", "tuple_np_int64"]
    kind = str(rng.choice(options))
    ints = [int(v) for v in values]
    return {"tuple": tuple(values), "list": list(values), "ndarray_float64": np.array(values, dtype="float64"),
            "tuple_np_float64": tuple(np.float64(v) for v in values), "list_int": ints, "tuple_int": tuple(ints),
            "ndarray_int64": np.array(ints, dtype="int64"), "ndarray_int32": np.array(ints, dtype="int32"),
            "tuple_np_int64": tuple(np.int64(v) for v in ints)}[kind]


def spell_flag(rng, flag):
    kind = str(rng.choice(["bool", "np.bool_", "int"]))
    return {"bool": bool(flag), "np.bool_": np.bool_(bool(flag)), "int": int(bool(flag))}[kind]


def respell(rng, kwargs):
    """The same configuration with every argument in another (equivalent) spelling."""
    out = dict(kwargs)
    if out.get("spacing") is not None:
        out["spacing"] = spell_scalar(rng, out["spacing"]) if np.size(out["spacing"]) == 1 else spell_sequence(rng, list(np.ravel(out["spacing"])))
    if out.get("shape") is not None:
        out["shape"] = spell_sequence(rng, list(out["shape"]), integer_only=True)
    if out.get("region") is not None:
        out["region"] = spell_sequence(rng, list(out["region"]))
    for flag in ("center_coordinates", "drop_coords", "uncertainty"):
        if flag in out:
            out[flag] = spell_flag(rng, out[flag])
    return out


def integer_friendly(rng):
    """
    A cloud and block arguments whose spacing / region can be spelled with Python or numpy integers:
    extents of 12..2000 units, integral spacings and region bounds.
    """
    n = int(rng.choice([6, 10, 16, 24, 40, 60]))
    extent = float(10 ** rng.uniform(1.1, 3.3))
    east, north = make_points(rng, n=n, kind=str(rng.choice(["uniform", "jitter", "clusters"])))
    east = (east - east.min()) / ((east.max() - east.min()) or 1.0) * extent + float(rng.integers(-50, 50))
    north = (north - north.min()) / ((north.max() - north.min()) or 1.0) * extent * rng.uniform(0.4, 1.0) + float(rng.integers(-50, 50))
    kwargs = {}
    width, height = east.max() - east.min(), north.max() - north.min()
    if rng.random() < 0.55:
        pad = rng.uniform(0, 0.4, 4) * (width, width, height, height)
        region = [np.floor(east.min() - pad[0]), np.ceil(east.max() + pad[1]), np.floor(north.min() - pad[2]), np.ceil(north.max() + pad[3])]
        if rng.random() < 0.25:  # points outside on the east / north side
            region[1] = np.floor(east.min() + 0.8 * width)
            region[3] = np.floor(north.min() + 0.8 * height)
        kwargs["region"] = [float(v) for v in region]
        width, height = region[1] - region[0], region[3] - region[2]
    pick = rng.random()
    if pick < 0.27:
        kwargs["shape"] = (int(rng.integers(1, 7)), int(rng.integers(1, 7)))
    elif pick < 0.67:
        kwargs["spacing"] = float(max(1.0, np.round(min(width, height) / rng.uniform(0.8, 6.0))))
    else:
        kwargs["spacing"] = (float(max(1.0, np.round(height / rng.uniform(0.8, 6.5)))), float(max(1.0, np.round(width / rng.uniform(0.8, 6.5)))))
    if "spacing" in kwargs and rng.random() < 0.4:
        kwargs["adjust"] = "region"
    kwargs["center_coordinates"] = bool(rng.random() < 0.5)
    kwargs["drop_coords"] = bool(rng.random() < 0.5)
    return np.ascontiguousarray(east), np.ascontiguousarray(north), kwargs


# --------------------------------------------------------------------------
# large inputs (branches that exist only above a size threshold)
# --------------------------------------------------------------------------
LARGE_COUNTS = [130000, 230000, 262145]  # more than 100 000 points, never a multiple of 100 000


def large_cloud(rng, n):
    """n points: 10 % spread thinly over the unit box, 90 % in a dense cluster (blocks of very different populations, singletons, empty blocks)."""
    scale = float(10 ** rng.uniform(0, 4))
    k = int(0.1 * n)
    east = np.concatenate([rng.uniform(0, 1, k), np.clip(rng.normal(rng.choice([0.3, 0.7]), 0.05, n - k), 0, 1)])
    north = np.concatenate([rng.uniform(0, 1, k), np.clip(rng.normal(rng.choice([0.35, 0.6]), 0.08, n - k), 0, 1)])
    perm = rng.permutation(n)  # dense and sparse parts interleaved, the tail of the input is nothing special
    offset = scale * rng.choice([0.0, 10.0]) * rng.uniform(-1, 1, 2)
    return np.ascontiguousarray(east[perm] * scale + offset[0]), np.ascontiguousarray(north[perm] * scale * rng.uniform(0.5, 1.0) + offset[1])


def large_blocks(rng, east, north, n_blocks):
    """About n_blocks blocks by shape or by a (north, east) spacing; region inferred or slightly padded."""
    rows = int(max(2, np.sqrt(n_blocks) * rng.uniform(0.7, 1.4)))
    cols = int(max(2, n_blocks / rows))
    kwargs = {}
    width, height = np.ptp(east), np.ptp(north)
    if rng.random() < 0.4:
        kwargs["region"] = [float(east.min() - 0.02 * width), float(east.max() + 0.03 * width), float(north.min()), float(north.max() + 0.05 * height)]
        width, height = kwargs["region"][1] - kwargs["region"][0], kwargs["region"][3] - kwargs["region"][2]
    if rng.random() < 0.5:
        kwargs["shape"] = (rows, cols)
    else:
        kwargs["spacing"] = (float(height / (rows + rng.uniform(-0.3, 0.3))), float(width / (cols + rng.uniform(-0.3, 0.3))))
    kwargs["center_coordinates"] = bool(rng.random() < 0.5)
    return kwargs


def large_field(rng, east, north, amplitude=100.0):
    """Non-constant everywhere (the last points of the input included): smooth part plus noise of comparable size."""
    x = (east - east.min()) / (np.ptp(east) or 1.0)
    y = (north - north.min()) / (np.ptp(north) or 1.0)
    a, b, c = rng.uniform(3, 9, 3)
    return amplitude * (np.sin(a * x) * np.cos(b * y) + 0.3 * x * y + rng.normal(size=x.size) * (0.2 + 0.8 * np.sin(c * x) ** 2))


# --------------------------------------------------------------------------
# many coordinate arrays; exact-zero weights on the bounding box
# --------------------------------------------------------------------------
def many_coordinates(rng, east, north, n_arrays):
    """easting, northing and n_arrays - 2 mutually different extras: extra k = 1000 * k + noise (so a mix-up of two arrays is visible)."""
    extras = [1000.0 * k + rng.uniform(5, 50) * rng.normal(size=east.size) for k in range(2, n_arrays)]
    return [east, north] + extras


def zero_weight_border_case(rng, ncomp, region_given=False):
    """
    A cloud whose westernmost, easternmost, southernmost and northernmost points (each with a close companion that shares its
    block) define the bounding box, block arguments WITHOUT a region (unless region_given), and per-component weights that are
    exactly 0.0 - in all components - on some of those border points and on a few others. A point only gets weight zero if
    another point that certainly lies in the same reference block keeps a positive weight (np.average refuses a block whose
    weights sum to zero). Returns (east, north, kwargs, weights, number of zero-weight points on the bounding box).
    """
    east, north = make_points(rng, n=int(rng.integers(12, 70)), kind=str(rng.choice(["uniform", "jitter", "clusters"])))
    width, height = (np.ptp(east) or 1.0), (np.ptp(north) or 1.0)
    tiny_e, tiny_n = 2e-3 * width, 2e-3 * height
    mid_e, mid_n = rng.uniform(east.min(), east.max(), 2), rng.uniform(north.min(), north.max(), 2)
    border = [(east.min() - rng.uniform(0.05, 0.4) * width, mid_n[0], +1, 0), (east.max() + rng.uniform(0.05, 0.4) * width, mid_n[1], -1, 0),
              (mid_e[0], north.min() - rng.uniform(0.05, 0.4) * height, 0, +1), (mid_e[1], north.max() + rng.uniform(0.05, 0.4) * height, 0, -1)]
    extra_e, extra_n = [], []
    for x, y, sx, sy in border:
        extra_e += [x, x + sx * tiny_e + (tiny_e if sx == 0 else 0.0)]
        extra_n += [y, y + sy * tiny_n + (tiny_n if sy == 0 else 0.0)]
    first_border = east.size
    east = np.concatenate([east, extra_e])
    north = np.concatenate([north, extra_n])
    perm = rng.permutation(east.size)
    east, north = np.ascontiguousarray(east[perm]), np.ascontiguousarray(north[perm])
    border_idx = [int(np.flatnonzero(perm == first_border + 2 * k)[0]) for k in range(4)]
    kwargs = make_blocks(rng, east, north)
    kwargs.pop("region", None)
    if region_given:
        kwargs["region"] = [float(east.min() - 0.1 * width), float(east.max() + 0.2 * width), float(north.min() - 0.15 * height), float(north.max())]
    geo = Geometry(east, north, kwargs.get("spacing"), kwargs.get("shape"), kwargs.get("adjust", "spacing"), kwargs.get("region"))
    clo, chi = geo.east.locate(east)
    rlo, rhi = geo.north.locate(north)
    sure = (clo == chi) & (rlo == rhi)
    label = rlo * geo.east.n + clo
    weights = [10 ** rng.uniform(-2, 2, east.size) for _ in range(ncomp)]
    positive = np.ones(east.size, dtype=bool)
    candidates = list(rng.permutation(border_idx)) + list(rng.permutation(east.size)[: max(1, east.size // 8)])
    on_box = 0
    for k in candidates:
        k = int(k)
        if not positive[k] or not sure[k]:
            continue
        mates = sure & positive & (label == label[k])
        mates[k] = False
        if mates.any():
            positive[k] = False
            on_box += int(k in border_idx)
    for w in weights:
        w[~positive] = 0.0
    return east, north, kwargs, weights, on_box


# --------------------------------------------------------------------------
# documented defaults (docstrings of verde/blockreduce.py, verde/coordinates.py, verde/utils.py)
# --------------------------------------------------------------------------
BLOCK_SPLIT_DEFAULTS = {"spacing": None, "adjust": "spacing", "region": None, "shape": None}
FILTER_DEFAULTS = {"weights": None}
INIT_DEFAULTS = {"spacing": None, "region": None, "adjust": "spacing", "center_coordinates": False, "shape": None, "drop_coords": True,
                 "uncertainty": False}
V2W_DEFAULTS = {"tol": 1e-15, "dtype": "float64"}


def judge_constructor(run, ev, what):
    """
    After __init__: every constructor parameter is stored as given, and a parameter the caller left out holds the DOCUMENTED
    default (ev.args carries the documented value for left-out arguments). The other monitors read the parameters from the object.
    """
    if ev.exc is not None:
        return
    est = ev.args.get("self")
    run.evaluated("constructor_parameters_as_documented")
    wrong = []
    for name, value in ev.args.items():
        if name == "self":
            continue
        have = getattr(est, name, "<missing>")
        same = have is value or (not callable(value) and type(have) is type(value) and core.digest(have) == core.digest(value))
        if not same:
            wrong.append((name, have, value))
    if wrong:
        run.violation("constructor_parameters_as_documented",
                      "%s: parameter(s) %s differ from what was passed / from the documented default" % (what, [w[0] for w in wrong]),
                      {"stored": {w[0]: (repr(w[1]) if callable(w[1]) else w[1]) for w in wrong},
                       "passed_or_documented": {w[0]: (repr(w[2]) if callable(w[2]) else w[2]) for w in wrong}},
                      key="constructor:" + ",".join(w[0] for w in wrong))


def same_output(a, b):
    """Bitwise-equal nested tuples of arrays (NaN equal to NaN), dtypes included."""
    if isinstance(a, tuple) or isinstance(b, tuple):
        return isinstance(a, tuple) and isinstance(b, tuple) and len(a) == len(b) and all(same_output(x, y) for x, y in zip(a, b))
    a, b = np.asarray(a), np.asarray(b)
    return a.dtype == b.dtype and a.shape == b.shape and bool(np.array_equal(a, b, equal_nan=a.dtype.kind == "f"))


def per_component_zero_weights(rng, east, north, kwargs, ncomp):
    """
    Per-component weights in which 10-30 % of the points have weight exactly 0.0 in ONE component and a positive weight in the
    others (different points in different components). Within each component every reference block keeps a positive weight.
    """
    geo = Geometry(east, north, kwargs.get("spacing"), kwargs.get("shape"), kwargs.get("adjust", "spacing"), kwargs.get("region"))
    clo, chi = geo.east.locate(east)
    rlo, rhi = geo.north.locate(north)
    sure = (clo == chi) & (rlo == rhi)
    label = rlo * geo.east.n + clo
    weights = []
    taken = np.zeros(east.size, dtype=bool)  # a point is zeroed in at most ncomp - 1 components: here in exactly one
    for _ in range(ncomp):
        w = 10 ** rng.uniform(-2, 2, east.size)
        positive = np.ones(east.size, dtype=bool)
        for k in rng.permutation(east.size)[: max(1, int(rng.uniform(0.1, 0.3) * east.size))]:
            k = int(k)
            if taken[k] or not sure[k]:
                continue
            mates = sure & positive & (label == label[k])
            mates[k] = False
            if mates.any():
                positive[k] = False
                taken[k] = True
        w[~positive] = 0.0
        weights.append(w)
    return weights
