"""
C19 - load_surfer returns the file's grid faithfully or refuses it (fault enumeration).

One monitor sits on ``verde.io.load_surfer`` and judges every return *and* raise against an
independent hand parser of the very text the call was given (``_c19_surfer.parse_surfer``):

* text whose header and body agree            -> must return, and the DataArray must be the file's grid
* rows split over several whole lines         -> identical grid or any exception
* header/body clearly disagree, or malformed  -> any exception (returning data is the violation)
* range inside the numpy.allclose band        -> either way (counted); data returned must still be faithful

A recording ``open`` injected into the ``verde.io`` namespace plus ``/proc/self/fd`` before/after decide
"files opened by the function are closed" (on the error path too) and "handles passed in stay open".
The workload enumerates every single header corruption of DESIGN C19, body corruptions, truncations and
an I/O error at every read position, through a path, an open file and in-memory file objects.
"""
import atexit
import builtins
import collections
import hashlib
import io
import os
import re
import shutil
import warnings

import numpy as np

from . import _c19_surfer as sf

ID = "C19"
LEVEL = "fault_enumeration"
RULE = (
    "cases = Surfer ASCII texts generated from (shape 2x2..40x60, region, values of any magnitude incl. negatives/repeats/"
    "values just below the sentinel, blank patterns with several spellings of >= 1.70141e38, number formats %g %e %.17g repr "
    "+sign upper-case padded exponents integers, separators spaces/tabs, indentation, CRLF, trailing blank lines, dtype "
    "float64/float32) loaded from a path, an open text file and io.StringIO; plus, per base file, EVERY single header corruption "
    "(each count +-1, counts swapped/zero/negated/float, ranges swapped pairwise, each range reversed, each range end shifted "
    "or scaled by 1e-9..17x, each header line dropped or duplicated, an empty header line, a non-numeric / missing / extra token at "
    "every header position), body corruptions (row/column/token dropped or added, non-numeric token, extreme moved outside the header "
    "range, maximum blanked, transposed body), truncation after every line, wrapped-row layouts, and an injected I/O error at every "
    "read position (file object and path); call histories (stream histories): three files with different ids loaded through path / open file / StringIO in four "
    "orders, interleaved with refused header faults and I/O faults, the same file with both dtypes, repeated loads compared with DataArray.identical(); "
    "every result judged whole (attrs exactly {gridID} or {gridID, file}); coordinate ranges (stream coords and 70 % of all generated files) searched so that "
    "start + step*(n-1) misses the stop in float64 - the end nodes must be the header values bit for bit, no node outside, .sel of the corners works. Non-trivial = non-square shape, or >= 1 blank cell, or >= 1 fault; distinct = hash of "
    "(text, dtype, route, fault kind)."
)
ASSUMPTIONS = [
    "the hand parser converts number tokens with Python float() (correctly rounded) and float32 requests by casting that double",
    "header/body range agreement: within 1e-6 relative = agree, off by > 1e-3 of the range magnitude and > 1e-6 absolute = disagree, "
    "between = either-way (the code documents numpy.allclose)",
    "cells within float32 round-off of the sentinel, all-blank grids, nan/inf tokens and binary-mode handles are outside the statement (skipped)",
    "handle closing is observed through an `open` injected into verde.io's namespace and the process fd table; other ways of opening files "
    "would be seen by the fd table only",
]
FLOORS = {
    "quick": {"eval:accepts_wellformed": 1700, "eval:faithful": 1700, "eval:refuses_inconsistent": 4300, "eval:wrapped_identical_or_refused": 320,
              "eval:handles_closed": 3200, "eval:passed_handle_left_open": 3600, "eval:fd_table": 6800, "eval:io_fault_outcome": 370,
              "eval:sources_agree": 3300, "opens_recorded": 3200, "header_fault_files": 2000, "distinct_nontrivial": 6600},
    "thorough": {"eval:accepts_wellformed": 34000, "eval:faithful": 34000, "eval:refuses_inconsistent": 86000, "eval:wrapped_identical_or_refused": 6400,
                 "eval:handles_closed": 64000, "eval:passed_handle_left_open": 72000, "eval:fd_table": 136000, "eval:io_fault_outcome": 7400,
                 "eval:sources_agree": 66000, "opens_recorded": 64000, "header_fault_files": 40000, "distinct_nontrivial": 130000},
}
for _tier, _n in (("quick", 100), ("thorough", 2000)):
    FLOORS[_tier].update({"eval:history_identical": int(1.2 * _n), "history:step:refused_file": int(0.5 * _n), "history:step:io_fault": int(0.4 * _n)})
    FLOORS[_tier].update({"history:order_%d" % k: int(0.1 * _n) for k in range(4)})
    FLOORS[_tier].update({"history:step:" + k: int(0.04 * _n) for k in (
        "stringio_b_after_path_a", "handle_b_after_path_a", "path_b_after_refusal", "path_a_after_objects", "handle_a_after_two_paths",
        "stringio_a_after_two_paths", "path_a_other_dtype", "path_a_first_dtype_again", "stringio_a_after_refusal", "handle_a_after_io_fault")})
for _tier, _n in (("quick", 24), ("thorough", 480)):
    FLOORS[_tier].update({"long_lines:%d_characters" % k: int(0.4 * _n) for k in (128, 129, 200, 500, 5000)})
    FLOORS[_tier].update({"long_lines:line_%s:indentation" % k: int(0.08 * _n) for k in (0, 1, 2, 3, 4, "all")})
    FLOORS[_tier]["long_lines:ranges_written_larger_to_smaller"] = int(0.2 * _n)
for _tier, _n in (("quick", 70), ("thorough", 1400)):
    FLOORS[_tier].update({"header_faults:wide_range_small_end_files": int(0.4 * 0.45 * 5 * _n), "header_faults:base_values_wide_positive": int(0.1 * _n),
                          "header_faults:base_values_wide_negative": int(0.1 * _n), "header_faults:base_values_wide_small": int(0.1 * _n)})
for _tier, _n in (("quick", 300), ("thorough", 6000)):
    FLOORS[_tier].update({"format:header_number_without_leading_zero": int(0.06 * _n), "format:body_number_without_leading_zero": int(0.03 * _n)})
    FLOORS[_tier].update({"format:" + k: int(f * _n) for k, f in (
        ("id_line_leading_blanks", 0.12), ("id_line_leading_tab", 0.03), ("id_line_trailing_blanks", 0.1), ("id_with_inner_blank", 0.06), ("crlf_line_ends", 0.04),
        ("tab_between_numbers", 0.06), ("indented_lines", 0.1), ("trailing_blanks_on_lines", 0.08), ("blank_lines_at_end", 0.06), ("no_final_newline", 0.03))})
for _tier, _n in (("quick", 40), ("thorough", 800)):
    FLOORS[_tier].update({"defaults:%s:%s" % (k, d): int(0.4 * _n) for k in ("path", "handle", "stringio", "unseekable_wrapper", "stringio_after_title_line",
                                                                         "handle_after_title_line", "pipe") for d in ("dtype_omitted", "dtype_given")})
    FLOORS[_tier]["defaulted_argument:load_surfer.dtype"] = 10 * _n
for _tier, _n in (("quick", 40), ("thorough", 800)):
    FLOORS[_tier].update({"coords:fragile_end_node": int(0.4 * 7 * _n), "coords:northing_axis_ascending": int(0.8 * _n), "coords:easting_axis_descending": int(0.8 * _n)})
JOBS = {"quick": 1, "thorough": 8}
CASE_TIMEOUT_S = 300

_STATE = {}


def plan(tier):
    if tier == "quick":
        return collections.OrderedDict(wellformed=300, wrapped=100, header_faults=70, body_faults=80, truncation=40, io_faults=40, histories=100, coords=40, defaults=40, long_lines=24)
    return collections.OrderedDict(wellformed=6000, wrapped=2000, header_faults=1400, body_faults=1600, truncation=800, io_faults=800, histories=2000, coords=800, defaults=800, long_lines=480)


# ----------------------------------------------------------------------
# monitor
# ----------------------------------------------------------------------
class _Monitor:
    def __init__(self, run):
        self.run = run
        self.ctx = {}
        self.opened = []  # (real file object, proxy or None) opened through verde.io.open during the current call
        self.workdir = os.path.join(os.path.dirname(os.path.dirname(os.path.dirname(os.path.abspath(__file__)))), ".work",
                                    "c19-%d" % os.getpid())
        self.in_call = False
        self.last = None

    # -- the `open` seen by verde.io ---------------------------------------
    def recording_open(self, *args, **kwargs):
        real = builtins.open(*args, **kwargs)
        proxy = None
        if self.in_call:
            arm = self.ctx.get("proxy")
            if arm is not None:
                proxy = sf.FaultyProxy(real, fail_at=arm.get("fail_at"))
                arm["proxy"] = proxy
            self.opened.append((real, proxy))
            self.run.count("opens_recorded")
        return proxy if proxy is not None else real

    @staticmethod
    def fds():
        try:
            return set(os.listdir("/proc/self/fd"))
        except OSError:
            return None

    @staticmethod
    def source_text(fname):
        """The text the call is about to read, obtained without the code under test."""
        if not hasattr(fname, "readline"):
            try:
                with builtins.open(fname, "r") as fobj:
                    return fobj.read()
            except (OSError, TypeError, ValueError, UnicodeDecodeError):
                return None
        if isinstance(fname, sf.FaultyText):
            return fname.text if fname._pos == 0 else None
        try:
            if isinstance(fname, io.StringIO):
                return fname.getvalue()[fname.tell():]
            if isinstance(fname, io.TextIOBase) and isinstance(getattr(fname, "name", None), str) and fname.tell() == 0:
                with builtins.open(fname.name, "r") as fobj:
                    return fobj.read()
        except (OSError, ValueError):
            return None
        return None

    def pre(self, ev):
        fname = ev.args.get("fname")
        self.opened = []
        self.in_call = True
        text = self.ctx.get("text")  # given by the workload for sources that cannot be re-read (pipes, handles positioned past a title line)
        return {"text": text if text is not None else self.source_text(fname), "fds": self.fds(), "ispath": not hasattr(fname, "readline"),
                "was_closed": bool(getattr(fname, "closed", False))}

    def post(self, ev):
        run = self.run
        self.in_call = False
        pre = ev.pre or {}
        fname, dtype = ev.args.get("fname"), ev.args.get("dtype")
        kind = self.ctx.get("kind", "unlabelled")
        route = self.ctx.get("route", "path" if pre.get("ispath") else type(fname).__name__)
        returned = ev.exc is None
        if ev.exc is not None and not isinstance(ev.exc, Exception):
            return  # KeyboardInterrupt / watchdog: not an outcome of the call
        fired = bool(getattr(fname, "fired", False)) or any(px is not None and px.fired for _, px in self.opened)
        witness = {"kind": kind, "route": route, "dtype": str(dtype), "text": pre.get("text"),
                   "exception": None if returned else "%s: %s" % (type(ev.exc).__name__, ev.exc)}
        self.last = {"returned": returned, "result": ev.result if returned else None, "exc": ev.exc}

        # ---- handle hygiene: decided whatever happened ----------------------
        self.hygiene(ev, pre, fname, kind, route, witness)

        # ---- what the text says ---------------------------------------------
        text = pre.get("text")
        if text is None:
            run.count("skipped:source_text_unavailable")
            return
        try:
            parsed = sf.parse_surfer(text, np.dtype(dtype))
        except TypeError:
            run.count("skipped:dtype_not_understood")
            return
        self.last["parsed"] = parsed
        run.count("class:%s" % parsed.status)
        if parsed.status == "skip":
            run.count("skipped:%s" % parsed.reason)
            return
        outcome = "accepted" if returned else "refused"
        label = kind if not fired else kind + "+io_error_fired"
        run.count("fault:%s:%s:%s" % (label, parsed.status, outcome))
        digest = hashlib.sha1(text.encode("utf-8", "replace")).hexdigest()
        shape = parsed.shape
        if kind not in ("wellformed",) or (shape and shape[0] != shape[1]) or parsed.n_blank > 0:
            run.mark_nontrivial(kind, digest, str(np.dtype(dtype)), route, self.ctx.get("fail_at"))
        if parsed.n_blank:
            run.count("inputs:with_blank_cells")
        if shape and shape[0] != shape[1]:
            run.count("inputs:non_square")
        elif shape:
            run.count("inputs:square")
        witness["parsed"] = {"status": parsed.status, "reason": parsed.reason, "shape": parsed.shape, "region": parsed.region,
                             "zrange": parsed.zrange, "n_blank": parsed.n_blank}

        if fired:
            # an injected read error fired inside this call: raising is the expected refusal; data only if faithful
            run.evaluated("io_fault_outcome")
            if returned:
                run.count("io_fault:returned_despite_error")
                problem = sf.faithful(ev.result, parsed, dtype, pre["ispath"], fname) if parsed.status != "refuse" else "data returned"
                if problem:
                    run.violation("io_fault_outcome", "a read raised an I/O error but load_surfer returned a grid that is not the file's: " + problem,
                                  witness, key="io_fault:" + route)
            return

        if parsed.status == "refuse":
            run.evaluated("refuses_inconsistent")
            if returned:
                witness["returned"] = ev.result
                run.violation("refuses_inconsistent",
                              "load_surfer returned data for a file whose body disagrees with its header (%s; fault %s)" % (parsed.reason, kind),
                              witness, key="accepted:" + kind)
            return
        if parsed.status == "ok":
            run.evaluated("accepts_wellformed")
            if not returned:
                run.violation("accepts_wellformed",
                              "well-formed file (one row per line, header agrees with body) was refused: %s" % witness["exception"],
                              witness, key="refused_wellformed:" + kind)
                return
        elif parsed.status == "wrapped":
            run.evaluated("wrapped_identical_or_refused")
            run.count("wrapped:%s" % outcome)
        elif parsed.status == "either":
            run.count("either_way:%s:%s" % ("range_in_allclose_band" if "band" in parsed.reason else "lone_range_value", outcome))
        if returned:
            run.evaluated("faithful")
            problem = sf.faithful(ev.result, parsed, dtype, pre["ispath"], fname)
            if problem:
                witness["returned"] = ev.result
                witness["returned_values"] = np.asarray(getattr(ev.result, "values", np.nan))
                run.violation("faithful", "returned grid differs from the file (%s, %s): %s" % (kind, parsed.status, problem), witness,
                              key="faithful:" + problem.split(" ")[0] + ":" + kind)

    def hygiene(self, ev, pre, fname, kind, route, witness):
        run = self.run
        if pre.get("ispath"):
            run.evaluated("handles_closed")
            if not self.opened:
                run.count("path_call_without_recorded_open")
            left = [real for real, _ in self.opened if not real.closed]
            if left:
                run.violation("handles_closed", "a file opened by load_surfer was left open after it %s (%s)"
                              % ("returned" if ev.exc is None else "raised " + type(ev.exc).__name__, kind), witness,
                              key="leak:" + ("return" if ev.exc is None else "raise"))
        else:
            run.evaluated("passed_handle_left_open")
            now_closed = bool(getattr(fname, "closed", False))
            if now_closed and not pre.get("was_closed"):
                run.violation("passed_handle_left_open", "load_surfer closed a file object that was passed in (%s, after %s)"
                              % (type(fname).__name__, "return" if ev.exc is None else "raise"), witness,
                              key="closed_passed_handle:" + ("return" if ev.exc is None else "raise"))
        before, after = pre.get("fds"), self.fds()
        if before is not None and after is not None:
            run.evaluated("fd_table")
            leaked = []
            for fd in sorted(after - before, key=int):
                try:
                    leaked.append("%s -> %s" % (fd, os.readlink("/proc/self/fd/" + fd)))
                except OSError:
                    continue  # the descriptor of the directory listing itself
            if leaked:
                witness = dict(witness, leaked_descriptors=leaked)
                run.violation("fd_table", "file descriptors opened during load_surfer are still open after it %s: %s"
                              % ("returned" if ev.exc is None else "raised", leaked[:3]), witness,
                              key="fd_leak:" + ("return" if ev.exc is None else "raise"))
        for real, _ in self.opened:  # do not let a leak of the code under test exhaust the harness
            if not real.closed:
                real.close()
        self.opened = []


def install(tap, run):
    import verde.io as vio

    mon = _Monitor(run)
    _STATE["mon"] = mon
    _STATE["vio"] = vio
    os.makedirs(mon.workdir, exist_ok=True)
    atexit.register(shutil.rmtree, mon.workdir, True)
    setattr(vio, "open", mon.recording_open)
    tap.function(vio, "load_surfer", pre=mon.pre, post=mon.post, documented={"dtype": "float64"})


def finish(run, tap, shard):  # noqa: U100
    mon, vio = _STATE.get("mon"), _STATE.get("vio")
    if vio is not None and "open" in vars(vio):
        delattr(vio, "open")
    if mon is not None:
        shutil.rmtree(mon.workdir, ignore_errors=True)


# ----------------------------------------------------------------------
# workload
# ----------------------------------------------------------------------
def _call(mon, fname, dtype, kind, route, **extra):
    """One monitored call; every judgement is the monitor's. Returns (result or None, exception or None)."""
    import verde

    mon.ctx = dict(kind=kind, route=route, **extra)
    mon.last = None
    try:
        with warnings.catch_warnings():
            warnings.simplefilter("ignore")  # numpy's "input contained no data" on truncated files
            if dtype is None:
                result = verde.load_surfer(fname)
            else:
                result = verde.load_surfer(fname, dtype=dtype)
        return result, None
    except Exception as exc:  # noqa: BLE001 - refusals are judged by the monitor on the same event
        return None, exc
    finally:
        mon.ctx = {}


def _write(mon, name, text, newline=None):
    path = os.path.join(mon.workdir, name)
    with builtins.open(path, "w", newline="" if newline is None else newline) as fobj:
        fobj.write(text)
    return path


def _same_grid(a, b):
    if tuple(a.dims) != tuple(b.dims) or a.shape != b.shape or a.dtype != b.dtype:
        return "dims/shape/dtype differ: %s %s %s vs %s %s %s" % (a.dims, a.shape, a.dtype, b.dims, b.shape, b.dtype)
    va, vb = np.asarray(a.values), np.asarray(b.values)
    if not np.array_equal(va, vb, equal_nan=True):
        return "values differ"
    for name in a.dims:
        if not np.array_equal(np.asarray(a.coords[name].values), np.asarray(b.coords[name].values)):
            return "coordinate %s differs" % name
    if a.attrs.get("gridID") != b.attrs.get("gridID"):
        return "gridID differs"
    return None


def _routes(run, mon, text, dtype, kind, tag, routes=("path", "handle", "stringio"), compare=True):
    """The same text through a path, an open text file and an in-memory file object; results must agree."""
    outcomes = {}
    path = None
    if "path" in routes or "handle" in routes:
        path = _write(mon, "%s.grd" % tag, text)
    if "path" in routes:
        outcomes["path"] = _call(mon, path, dtype, kind, "path")
    if "pathlike" in routes:
        import pathlib

        outcomes["pathlike"] = _call(mon, pathlib.Path(path), dtype, kind, "pathlike")
    if "handle" in routes:
        with builtins.open(path, "r") as handle:
            outcomes["handle"] = _call(mon, handle, dtype, kind, "handle")
    if "stringio" in routes:
        sio = io.StringIO(text)
        outcomes["stringio"] = _call(mon, sio, dtype, kind, "stringio")
        sio.close()
    if "faultytext" in routes:
        outcomes["faultytext"] = _call(mon, sf.FaultyText(text), dtype, kind, "faultytext")
    if path is not None:
        os.remove(path)
    if compare and len(outcomes) >= 2:
        names = list(outcomes)
        first = names[0]
        for other in names[1:]:
            run.evaluated("sources_agree")
            (ra, ea), (rb, eb) = outcomes[first], outcomes[other]
            problem = None
            if (ea is None) != (eb is None):
                problem = "loads from %s but is refused from %s (%s)" % ((first, other, eb) if ea is None else (other, first, ea))
            elif ea is None:
                problem = _same_grid(ra, rb)
                if problem:
                    problem = "%s and %s give different grids: %s" % (first, other, problem)
            if problem:
                run.violation("sources_agree", problem, {"kind": kind, "dtype": str(dtype), "text": text}, key="sources:" + kind)
    return outcomes


def _dtype_arg(rng):
    """(dtype to request, spelled as) - float64/float32 in the ways a caller may pass them."""
    return [None, "float64", "float32", np.float32, np.dtype("float32"), np.float64, "float32"][int(rng.integers(0, 7))]


def _effective(dtype):
    return np.dtype("float64") if dtype is None else np.dtype(dtype)


def run_case(run, tap, stream, index, rng):  # noqa: U100
    mon = _STATE["mon"]
    tag = "%s-%d" % (stream, index)
    if stream == "wellformed":
        dtype = _dtype_arg(rng)
        spec = sf.random_spec(rng, _effective(dtype), small=index % 3 == 0)
        text = spec.render()
        routes = ["path", "handle", "stringio"] + (["pathlike"] if index % 4 == 0 else []) + (["faultytext"] if index % 5 == 0 else [])
        _routes(run, mon, text, dtype, "wellformed", tag, routes)
        other = "float32" if _effective(dtype) == np.dtype("float64") else "float64"
        _routes(run, mon, text, other, "wellformed", tag + "b", ("path", "stringio"))
        run.count("values:%s" % spec.kind)
        nolead = re.compile(r"^[+-]?\.\d")
        if any(nolead.match(t) for t in spec.sn + spec.we + spec.z):
            run.count("format:header_number_without_leading_zero")
        if any(nolead.match(t) for row in spec.rows for t in row):
            run.count("format:body_number_without_leading_zero")
        for flag, on in (("id_line_leading_blanks", bool(spec.id_indent)), ("id_line_leading_tab", "\t" in spec.id_indent), ("id_line_trailing_blanks", bool(spec.id_trail)),
                         ("id_with_inner_blank", " " in spec.grid_id), ("crlf_line_ends", spec.eol == "\r\n"), ("tab_between_numbers", "\t" in spec.sep),
                         ("indented_lines", bool(spec.indent)), ("trailing_blanks_on_lines", bool(spec.trail)), ("blank_lines_at_end", spec.extra_blank_lines > 0),
                         ("no_final_newline", not spec.final_eol)):
            if on:
                run.count("format:%s" % flag)
        run.sample("wellformed", {"text": text[:1500], "dtype": str(dtype), "shape": spec.shape, "blank_cells": spec.n_blank,
                                  "value_kind": spec.kind, "monitor": "hand parser vs returned DataArray through path / open file / StringIO"})
    elif stream == "wrapped":
        dtype = _dtype_arg(rng)
        spec = sf.random_spec(rng, _effective(dtype), small=index % 2 == 0)
        for name, body in sf.wrapped_layouts(rng, spec):
            text = spec.render(body_lines=body)
            _routes(run, mon, text, dtype, "layout:" + re.sub(r"_\d+(_per_line)?$", "", name), tag,
                    ("path", "stringio") if index % 2 else ("stringio", "handle"))
        run.sample("wrapped", {"layout": name, "text": text[:1200], "dtype": str(dtype), "shape": spec.shape})
    elif stream == "header_faults":
        dtype = _dtype_arg(rng)
        square = index % 4 == 3
        shape = sf.random_shape(rng, 12, 15, square=square) if index % 5 else sf.random_shape(rng, 40, 60, square=square)
        wide = sf.WIDE_KINDS[(index // 2) % 3] if index % 2 == 0 else None  # every other base file spans a wide dynamic range
        spec = sf.random_spec(rng, _effective(dtype), shape=shape, blanks=bool(index % 4 < 2), plain=index % 3 == 0, value_kind=wide)
        if wide:
            run.count("header_faults:base_values_%s" % wide)
        _routes(run, mon, spec.render(), dtype, "wellformed", tag, ("path", "stringio"))
        faults = sf.header_faults(rng, spec)
        run.count("header_faults:wide_range_small_end_files", sum(1 for k, _ in faults if k.startswith("wide_range_small_end")))
        for n, (kind, text) in enumerate(faults):
            _routes(run, mon, text, dtype, "header:" + kind, "%s-%d" % (tag, n), ("path", "stringio") if n % 3 else ("path", "handle"))
        run.count("header_fault_files", len(faults))
        run.seen("header_fault_kinds", sorted(set(k for k, _ in faults)))
        run.sample("header_fault", {"fault": faults[4][0], "text": faults[4][1][:1200], "dtype": str(dtype), "base_shape": spec.shape,
                                    "monitor": "hand parser says the header shape disagrees with the body -> any exception required"})
    elif stream == "body_faults":
        dtype = _dtype_arg(rng)
        spec = sf.random_spec(rng, _effective(dtype), shape=sf.random_shape(rng, 12, 15), blanks=bool(index % 2))
        for n, (kind, text) in enumerate(sf.body_faults(rng, spec)):
            _routes(run, mon, text, dtype, "body:" + kind, "%s-%d" % (tag, n), ("path", "stringio"))
    elif stream == "truncation":
        dtype = _dtype_arg(rng)
        spec = sf.random_spec(rng, _effective(dtype), small=True, blanks=bool(index % 2))
        for n, (kind, text) in enumerate(sf.truncations(spec)):
            _routes(run, mon, text, dtype, "truncation:" + kind, "%s-%d" % (tag, n), ("path", "stringio"))
    elif stream == "defaults":
        # every kind of source WITHOUT a dtype argument (documented default float64 - the monitor judges the dtype against the documentation)
        # and with one; sources that cannot seek or tell (a pipe, a wrapper refusing seek), and handles already positioned after a title line
        spec = sf.random_spec(rng, "float64", small=index % 2 == 0, blanks=bool(index % 3))
        text = spec.render()
        path = _write(mon, tag + ".grd", text)
        titled = _write(mon, tag + "-title.grd", "title line written by another tool\n" + text)

        class NoSeek(io.StringIO):
            def seek(self, *args):
                raise io.UnsupportedOperation("seek")

            def tell(self):
                raise io.UnsupportedOperation("tell")

            def seekable(self):
                return False

        def source(kind):
            """(object to pass, cleanup)"""
            if kind == "path":
                return path, None
            if kind == "handle":
                handle = builtins.open(path, "r")
                return handle, handle.close
            if kind == "stringio":
                return io.StringIO(text), None
            if kind == "pipe":
                rfd, wfd = os.pipe()
                with os.fdopen(wfd, "w") as writer:
                    writer.write(text[:60000])
                reader = os.fdopen(rfd, "r")
                return reader, reader.close
            if kind == "unseekable_wrapper":
                return NoSeek(text), None
            if kind == "stringio_after_title_line":
                sio = io.StringIO("a title line\n" + text)
                sio.readline()
                return sio, None
            handle = builtins.open(titled, "r")
            handle.readline()
            return handle, handle.close

        kinds = ["path", "handle", "stringio", "unseekable_wrapper", "stringio_after_title_line", "handle_after_title_line"] + (["pipe"] if len(text) < 60000 else [])
        for kind in kinds:
            for dtype in (None, "float32", "float64") if kind in ("path", "handle") or index % 2 else (None, "float32"):
                obj, cleanup = source(kind)
                res, exc = _call(mon, obj, dtype, "defaults:%s" % kind, kind, text=text)
                run.count("defaults:%s:%s" % (kind, "dtype_omitted" if dtype is None else "dtype_given"))
                if cleanup:
                    cleanup()
        os.remove(path)
        os.remove(titled)
    elif stream == "long_lines":
        # "any amount of whitespace": header lines of 128 .. 5000 characters (indentation, blanks / tabs between the two numbers, trailing
        # blanks) on each header line in turn and on all of them; ranges also written larger-to-smaller
        dtype = _dtype_arg(rng)
        spec = sf.random_spec(rng, _effective(dtype), small=True, blanks=bool(index % 2), plain=True)
        if index % 2:
            spec.sn, spec.we = spec.sn[::-1], spec.we[::-1]
            run.count("long_lines:ranges_written_larger_to_smaller")
        base = spec.header_lines()
        length = [128, 129, 200, 500, 5000, 127][index % 6]
        where = ["indentation", "between_numbers", "trailing", "tabs_between_numbers"][(index // 6) % 4]

        def stretch(item):
            toks = [item] if isinstance(item, str) else list(item)
            bare = " ".join(toks)
            pad = max(length - len(bare) - 1, 1)  # the newline counts
            fill = ("\t" if where == "tabs_between_numbers" else " ") * pad
            if where == "indentation":
                return fill + bare
            if where == "trailing" or len(toks) == 1:
                return bare + fill
            return toks[0] + fill + " ".join(toks[1:])

        for which in list(range(5)) + ["all"]:
            header = [stretch(h) if which == "all" or k == which else h for k, h in enumerate(base)]
            text = spec.render(header=header)
            run.count("long_lines:%s_characters" % length)
            run.count("long_lines:line_%s:%s" % (which, where))
            _routes(run, mon, text, dtype, "long_header_line", "%s-%s" % (tag, which), ("path", "handle", "stringio"))
    elif stream == "coords":
        # many (range, node count) pairs per case, chosen so that start + step*(n-1) does not round back to the stop: the first and last
        # coordinate must still be the header values bit for bit (judged by the monitor on every load), and .sel on the corners must work
        dtype = _dtype_arg(rng)
        for k in range(8):
            if index == 0 and k < len(sf.KNOWN_FRAGILE):
                lo_t, hi_t, n = sf.KNOWN_FRAGILE[k]
            else:
                n = int(rng.integers(2, 61))
                for _ in range(300):
                    lo, hi = sf.random_range(rng)
                    lo_t, hi_t = sf.fmt_number(rng, lo, "g" if k % 2 else "repr"), sf.fmt_number(rng, hi, "g" if k % 2 else "repr")
                    if sf.end_node_is_fragile(float(lo_t), float(hi_t), n):
                        break
            fragile = sf.end_node_is_fragile(float(lo_t), float(hi_t), n)
            run.count("coords:fragile_end_node" if fragile else "coords:plain_end_node")
            other = int(rng.integers(2, 6))
            shape = (n, other) if k % 2 else (other, n)
            spec = sf.random_spec(rng, _effective(dtype), shape=shape, blanks=bool(k % 3 == 0), plain=bool(k % 2))
            if k % 2:
                spec.sn = [lo_t, hi_t] if k % 4 == 1 else [hi_t, lo_t]
            else:
                spec.we = [lo_t, hi_t] if k % 4 == 0 else [hi_t, lo_t]
            run.count("coords:%s_axis_%s" % ("northing" if k % 2 else "easting", "ascending" if k % 4 < 2 else "descending"))
            _routes(run, mon, spec.render(), dtype, "coords", "%s-%d" % (tag, k), ("path", "stringio") if k % 2 else ("stringio",))
        run.sample("coords", {"range_tokens": [lo_t, hi_t], "nodes": n, "fragile": fragile,
                              "monitor": "first node == header start and last node == header stop bit for bit; all nodes inside; .sel of both corners"})
    elif stream == "histories":
        _histories_case(run, mon, index, rng)
    elif stream == "io_faults":
        dtype = _dtype_arg(rng)
        spec = sf.random_spec(rng, _effective(dtype), small=True, blanks=bool(index % 2))
        text = spec.render()
        # (a) a file object whose k-th read raises, for every k up to the number of reads of a clean load
        counter = sf.FaultyText(text)
        _call(mon, counter, dtype, "wellformed", "faultytext")
        n_reads = counter.reads
        run.observe_max("reads_per_load", n_reads)
        for k in range(1, n_reads + 1):
            fobj = sf.FaultyText(text, fail_at=k)
            result, exc = _call(mon, fobj, dtype, "io_error_object", "faultytext", fail_at=k)
            if not fobj.fired:
                run.count("io_fault:not_reached")
        # (b) the same through a path: the file object opened by load_surfer itself fails at its k-th read
        path = _write(mon, tag + ".grd", text)
        arm = {"fail_at": None}
        _call(mon, path, dtype, "wellformed", "path", proxy=arm)
        n_reads_path = arm["proxy"].reads if arm.get("proxy") is not None else 0
        if arm.get("proxy") is None:
            run.count("io_fault:path_open_not_intercepted")
        for k in range(1, n_reads_path + 1):
            arm = {"fail_at": k}
            _call(mon, path, dtype, "io_error_path", "path", proxy=arm, fail_at=k)
            if arm.get("proxy") is None or not arm["proxy"].fired:
                run.count("io_fault:not_reached")
        os.remove(path)
        run.count("io_fault:read_positions_of_clean_loads", n_reads + n_reads_path)
        run.count("io_fault:read_positions_enumerated", n_reads + n_reads_path)
        run.sample("io_fault", {"text": text[:600], "reads_object": n_reads, "reads_path": n_reads_path,
                                "monitor": "k-th readline/next raises for every k: exception (or the file's grid) required; handle closed / left open"})


def _histories_case(run, mon, index, rng):
    """
    Call sequences in one process: loads of different files through different routes, interleaved with refused files and I/O
    faults. Every call is judged completely by the monitor (whole attrs dict, values, coordinates of ITS text); here two loads of
    the same content before and after other loads must be DataArray.identical().
    """
    tag = "hist-%d" % index
    dtype = _dtype_arg(rng)
    eff = _effective(dtype)
    specs = []
    ids = list(rng.permutation(["DSAA", "DSBB", "grid A 01", "survey-7", "G", "DSAA v7"]))
    for k in range(3):
        sp = sf.random_spec(rng, eff, small=True, blanks=bool((index + k) % 2))
        sp.grid_id = str(ids[k])
        specs.append(sp)
    text = [sp.render() for sp in specs]
    path = [_write(mon, "%s-%s.grd" % (tag, "abc"[k]), text[k]) for k in range(3)]
    faults = sf.header_faults(rng, specs[2])
    pick = [faults[int(k)] for k in rng.permutation(len(faults))[:3]]
    order = index % 4
    run.count("history:order_%d" % order)
    earlier = {}

    def load(label, which, route, dtype_arg=dtype, kind=None, remember=True):
        kind = kind or "history:%s" % label
        run.count("history:step:%s" % label)
        if route == "path":
            res, exc = _call(mon, path[which], dtype_arg, kind, "path")
        elif route == "handle":
            with builtins.open(path[which], "r") as handle:
                res, exc = _call(mon, handle, dtype_arg, kind, "handle")
        else:
            sio = io.StringIO(text[which])
            res, exc = _call(mon, sio, dtype_arg, kind, "stringio")
        key = (which, route, str(_effective(dtype_arg)))
        if remember and res is not None:
            if key in earlier:
                run.evaluated("history_identical")
                if not earlier[key].identical(res):
                    run.violation("history_identical", "the same %s loaded again (%s, step %s) after other loads is not identical() to the first load: attrs %r vs %r"
                                  % ("path" if route == "path" else "content through " + route, "abc"[which], label, dict(earlier[key].attrs), dict(res.attrs)),
                                  {"step": label, "route": route, "text": text[which], "first_attrs": dict(earlier[key].attrs), "later_attrs": dict(res.attrs),
                                   "first_values": np.asarray(earlier[key].values), "later_values": np.asarray(res.values)}, key="history:" + route)
            else:
                earlier[key] = res
        return res

    def refused(n):
        kind, bad = pick[n % len(pick)]
        run.count("history:step:refused_file")
        if n % 2:
            bad_path = _write(mon, "%s-bad%d.grd" % (tag, n), bad)
            _call(mon, bad_path, dtype, "history:refused:" + kind, "path")
            os.remove(bad_path)
        else:
            _call(mon, io.StringIO(bad), dtype, "history:refused:" + kind, "stringio")

    def io_fault(which, through_path):
        run.count("history:step:io_fault")
        k = int(rng.integers(1, 8))
        if through_path:
            _call(mon, path[which], dtype, "history:io_error_path", "path", proxy={"fail_at": k}, fail_at=k)
        else:
            _call(mon, sf.FaultyText(text[which], fail_at=k), dtype, "history:io_error_object", "faultytext", fail_at=k)

    if order == 0:  # path, then file objects of another file, and back
        load("path_a_first", 0, "path")
        load("stringio_b_after_path_a", 1, "stringio")
        load("handle_b_after_path_a", 1, "handle")
        load("stringio_a", 0, "stringio")
        refused(0)
        load("path_b_after_refusal", 1, "path")
        io_fault(0, True)
        load("stringio_b_again", 1, "stringio")
        load("path_a_again", 0, "path")
        load("handle_b_again", 1, "handle")
    elif order == 1:  # file objects first, then paths
        load("stringio_b_first", 1, "stringio")
        load("handle_a", 0, "handle")
        load("path_a_after_objects", 0, "path")
        refused(1)
        load("stringio_a_after_refused_path", 0, "stringio")
        load("path_b", 1, "path")
        io_fault(1, False)
        load("handle_a_again", 0, "handle")
        load("stringio_b_again", 1, "stringio")
        load("path_a_again", 0, "path")
    elif order == 2:  # path A -> path B -> file object of A; dtype changes on the same file
        load("path_a", 0, "path")
        load("path_b_after_path_a", 1, "path")
        load("handle_a_after_two_paths", 0, "handle")
        load("stringio_a_after_two_paths", 0, "stringio")
        other = "float32" if eff == np.dtype("float64") else "float64"
        load("path_a_other_dtype", 0, "path", dtype_arg=other)
        load("path_a_first_dtype_again", 0, "path")
        load("stringio_a_other_dtype", 0, "stringio", dtype_arg=other)
        load("stringio_a_again", 0, "stringio")
        load("path_a_other_dtype_again", 0, "path", dtype_arg=other)
    else:  # refusals and faults first: nothing of a refused header may show up in the next accepted load
        refused(0)
        load("stringio_a_after_refusal", 0, "stringio")
        refused(1)
        load("path_b_after_refusal", 1, "path")
        io_fault(1, True)
        load("handle_a_after_io_fault", 0, "handle")
        refused(2)
        io_fault(0, False)
        load("stringio_a_again", 0, "stringio")
        load("path_b_again", 1, "path")
        load("handle_a_again", 0, "handle")
    for p in path:
        os.remove(p)
    run.sample("histories", {"order": order, "ids": [sp.grid_id for sp in specs], "shapes": [sp.shape for sp in specs], "dtype": str(dtype),
                             "monitor": "whole-result judgement per call (attrs exactly {gridID[, file]}) + identical() for repeated loads"})


LEVEL_TEXT = (
    "Fault enumeration: for each generated base file every single header corruption listed in DESIGN C19, a set of body corruptions, a "
    "truncation after every line and an I/O error at every read position (file object and path) is executed against the real load_surfer; "
    "an independent hand parser of the same text decides whether loading (faithfully) or refusing is required. Base files, shapes, values, "
    "formats and blank patterns are seeded random samples - the fault list is complete per base file, the base files are not exhaustive."
)
LEVEL_NOTE = (
    "Trusted: CPython float()/int() for number tokens, numpy casts float64->float32, numpy.linspace-free reference nodes (ref.line_nodes), "
    "xarray as container, /proc/self/fd. Range agreement is decided with the derived bands 1e-6 / 1e-3 around numpy.allclose."
)
TECHNIQUE = (
    "runtime monitor on load_surfer (return and raise) with a hand-parser reference model; injected recording/faulting `open` in verde.io and "
    "fd-table comparison for handle hygiene; systematic single-fault enumeration over generated files"
)
