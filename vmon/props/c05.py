"""
C05 - grid / profile / scatter place each prediction at the right coordinate.

Monitors sit on ``BaseGridder.grid``, ``BaseGridder.profile``, ``BaseGridder.scatter`` and the ``CheckerBoard.scatter``
override (class-level wraps, so every gridder - the harness' analytic one, fitted Spline / Trend / KNeighbors / Chain /
Vector / CheckerBoard, and the Chain that ``project_grid`` builds internally - is judged on every return).

Oracle: coordinate vectors against the exact-rational reference of regular coordinates (``vmon.ref.check_line``; verde's
``grid_coordinates`` is never consulted), values cell by cell against the closed form of the analytic gridder (or against
``predict`` called by the monitor on a *shuffled 1-D list* of the output points for fitted gridders), profile points /
distances against the even subdivision of the (projected) segment, scatter coordinates against
``numpy.random.RandomState`` directly.
"""
import collections
import warnings

import numpy as np

from .. import gen, ref
from . import _c05_gen as G

ID = "C05"
LEVEL = "exploration"
RULE = (
    "cases = calls of grid()/profile()/scatter() on (i) an analytic gridder a*e + b*n + c*e*n with 1..3 components of different "
    "incommensurable constants and (ii) fitted Spline(damped)/Trend/KNeighbors/Chain/Vector(2,3)/CheckerBoard, over seeded random regions "
    "(different widths and heights, scales 1e-2..1e6, offsets up to 1e3 extents), shapes incl. 1xn, nx1, non-square, spacings dividing the "
    "extent or not, both adjust modes and registrations, 0..2 extra coordinates, explicit 1-D and 2-D coordinates (non-uniform), custom dims / "
    "data names / class-level defaults, anisotropic sheared affine and monotone nonlinear projections, default region from the fitted data; "
    "every argument in equivalent spellings (region / shape / spacing / extra_coords / profile points as tuple, list, ndarray of ints or "
    "floats, Python and numpy scalars incl. extra_coords exactly 0 / 0.0; sizes and seeds as int / np.int64 / RandomState; names as bare "
    "string, list, tuple; projections as callable object, plain function, functools.partial); "
    "explicit 1-D coordinates taken from an existing grid with other dimension names as xarray index coordinates, pandas Index / Series, "
    "lists, tuples (the new grid must have exactly the requested dims); profile end points as rows of int16 / int32 / int64 coordinate "
    "arrays whose squared differences overflow the dtype, Python ints, float32 scalars; "
    "calls that rely on the documented defaults (scatter() / scatter(size=n) without random_state, grid with only shape or only spacing, "
    "profile(p1, p2, size)) on every gridder class incl. CheckerBoard, compared with the spelled-out call, RandomState(0) and the method "
    "signatures; projections in the two-argument form (lambda, def, partial without an inverse keyword) for grid and scatter; "
    "large counts (grids of 2.5e5..6e5 nodes with row counts that are no multiple of small block heights - 700x600, 1201x501 from a spacing, "
    "530x990 projected, 641x479 Trend, ... - and scatter / profile with > 1e5 points, every node and row compared); concurrent calls "
    "(2..4 threads calling grid / scatter / profile on ONE gridder at the same time with different regions, same shape, different "
    "projections, predict() meeting at a rendezvous so that the calls overlap); "
    "plus call histories on ONE gridder object (18 interleaved grid/profile/scatter calls in which dims, data_names, projection, region, "
    "extra_coords and coordinates= are given in one call and omitted in the next, both registrations and adjust modes, refits on data with "
    "another bounding box, explicit coordinate arrays edited in place between calls, every returned array overwritten before the next / an "
    "identical call), each return judged against its own arguments and the defaults the gridder had when the workload created it. "
    "Non-trivial grid = n_north != n_east, >= 2 nodes per axis and a non-separable field (c != 0 for the analytic gridder); non-trivial profile "
    "= size >= 2 on a segment of positive length not parallel to an axis; non-trivial scatter = size >= 2; distinct = hash of gridder "
    "constants / class, arguments and output coordinates."
)
ASSUMPTIONS = [
    "profile end points given in a narrow dtype (float32, int16) are carried by numpy in float32: the profile is then compared with the "
    "float64 spelling at float32 precision (32 eps32 |coordinates|), counted under either_way:profile_end_points_in_narrow_dtype_*",
    "naming defaults (dims, extra_coords_name, data_names_defaults) a call must fall back to are those the gridder had when the workload "
    "created it (for gridders the workload did not create: those in place when the call started); grid/profile/scatter must leave them unchanged",
    "regular coordinates are decided by vmon.ref.check_line (exact rational interval count, 8 eps node tolerance), not by verde",
    "analytic values compared with tolerance 16 eps (|a e| + |b n| + |c e n|); fitted gridders with 1e-9 max|value| against predict "
    "evaluated by the monitor on a shuffled 1-D list of the same points (predict itself is C03/C04's subject)",
    "profile: points and distances within 32 eps (|coordinates| + length) of p1 + t (p2 - p1), t = i/(size-1), in projected space; returned "
    "coordinates within that tolerance times the Lipschitz constant of the inverse projection; values within the field's gradient bound "
    "times that tolerance",
    "scatter: coordinates equal numpy.random.RandomState(seed).uniform(W, E, size) then .uniform(S, N, size) (4 eps |bound| tolerance); "
    "random_state=None is only checked for containment",
    "column order of profile/scatter tables is not part of the statement (names and values are)",
]
_QUICK_FLOORS = {
    "eval:grid": 1400, "eval:profile": 400, "eval:scatter": 400, "eval:checkerboard_scatter": 20, "eval:scatter_reproducible": 220,
    "distinct_nontrivial": 1550,
    # input classes that must keep being reached (about 40 % of what the unchanged tree produces)
    "class:grid_explicit_coordinates_1d": 180, "class:grid_explicit_coordinates_2d": 170, "class:grid_projection_affine": 280,
    "class:grid_projection_monotone_nonlinear": 180, "class:grid_pixel_register": 280, "class:grid_by_spacing_adjust_region": 130,
    "class:grid_non_square": 1000, "class:grid_single_row_or_column": 180, "class:default_region_from_fitted_data": 600,
    "class:grid_components=2": 300, "class:grid_components=3": 300, "class:grid_gridder=Spline": 28, "class:grid_gridder=Chain": 64,
    "class:grid_gridder=Vector": 56, "class:grid_gridder=KNeighbors": 28, "class:grid_gridder=Trend": 28, "class:grid_gridder=CheckerBoard": 32,
    # equivalent spellings of the same argument
    "spelling:grid_extra_coords_exactly_zero": 80, "spelling:profile_extra_coords_exactly_zero": 30, "spelling:scatter_extra_coords_exactly_zero": 25,
    "spelling:grid_region=ndarray_float": 190, "spelling:grid_region=ndarray_int": 6, "spelling:grid_shape=ndarray_int": 160,
    "spelling:grid_spacing=ndarray_float": 140, "spelling:grid_spacing=np_float": 90, "spelling:grid_extra_coords=ndarray_float": 60,
    "spelling:grid_projection=partial": 100, "spelling:grid_projection=function": 100, "spelling:profile_projection=partial": 70,
    "spelling:grid_projection=lambda_two_arguments": 95, "spelling:grid_projection=function_two_arguments": 90,
    "spelling:grid_projection=partial_two_arguments": 80, "spelling:scatter_projection=lambda_two_arguments": 30,
    "spelling:scatter_projection=function_two_arguments": 30, "spelling:scatter_projection=partial_two_arguments": 20,
    # calls that rely on the documented defaults
    "defaulted_argument:BaseGridder.scatter.random_state": 30, "defaulted_argument:CheckerBoard.scatter.random_state": 3,
    "defaulted_argument:BaseGridder.scatter.size": 15, "defaulted_argument:BaseGridder.grid.region": 400,
    "eval:defaults_as_documented": 60, "eval:signature_defaults": 24, "class:defaults_scatter_without_any_argument": 16,
    "class:defaults_scatter_size_only": 8, "class:defaults_grid_shape_only": 8, "class:defaults_grid_spacing_only": 8,
    "class:defaults_profile_positional_only": 8, "class:defaults_gridder=CheckerBoard": 1, "class:defaults_gridder=Spline": 1,
    "spelling:profile_size=np_int": 260, "spelling:profile_point=ndarray_float": 130, "spelling:scatter_random_state=np_int": 110,
    "spelling:scatter_random_state=RandomState": 110, "spelling:scatter_size=np_int": 250,
    # output of one call fed into another; end-point dtypes
    "class:grid_coordinates_from_a_grid_with_other_dims": 50, "class:grid_coordinates_given_as=DataArray": 55,
    "class:grid_coordinates_given_as=Index": 12, "class:grid_coordinates_given_as=Series": 12, "class:grid_coordinates_given_as=list": 30,
    "class:profile_integer_valued_end_points": 100, "spelling:profile_end_point_dtype=int16": 12, "spelling:profile_end_point_dtype=int32": 30,
    "spelling:profile_end_point_dtype=float32": 15, "spelling:profile_end_point_dtype=int": 12,
    # call histories on one gridder object
    "eval:defaults_unchanged": 2600, "class:history_dims_given_then_omitted": 100, "class:history_data_names_given_then_omitted": 100,
    "class:history_projection_given_then_omitted": 95, "class:history_region_given_then_omitted": 50,
    "class:history_extra_coords_given_then_omitted": 95, "class:history_grid_coordinates_then_shape_or_spacing": 40,
    "class:history_grid_pixel_register_then_default": 20, "class:history_refit_other_bounding_box": 38,
    "class:history_coordinates_edited_in_place": 28, "class:history_identical_call_repeated_after_overwrite": 100,
    "class:history_returned_arrays_overwritten": 440, "class:history_call_profile": 90, "class:history_call_scatter": 80,
    "class:profile_projection_affine": 110, "class:profile_projection_monotone_nonlinear": 80, "class:scatter_projection_affine": 100,
}
_SIZE_AND_THREAD_FLOORS = {  # (quick, thorough): the large-count and concurrency streams scale differently from the rest
    "class:large_grid_over_2**18_nodes": (2, 16), "class:large_scatter_and_profile_over_1e5_points": (1, 2),
    "class:threads_concurrent_calls": (35, 600), "class:threads_predict_calls_overlapped": (5, 60), "class:threads_call_grid": (4, 60),
    "class:threads_call_scatter": (2, 30), "class:threads_call_profile": (2, 30), "class:threads_cases_with_injected_yields": (2, 30),
    "yields_injected": (100, 2000),
}
FLOORS = {"quick": dict(_QUICK_FLOORS, **{k: v[0] for k, v in _SIZE_AND_THREAD_FLOORS.items()}),
          "thorough": dict({k: 20 * v for k, v in _QUICK_FLOORS.items()}, **{k: v[1] for k, v in _SIZE_AND_THREAD_FLOORS.items()})}
JOBS = {"quick": 1, "thorough": 8}
CASE_TIMEOUT_S = 120

EPS = ref.EPS
TINY = float(np.finfo("float64").tiny)
REAL_KINDS = ["spline", "trend", "kneighbors", "chain", "chain_reduce", "vector2", "vector3", "checkerboard"]


def plan(tier):
    if tier == "quick":
        return collections.OrderedDict(analytic_grid=150, analytic_coords=70, analytic_profile=60, analytic_scatter=45, real=64, nested=8, history=48,
                                       large=5, threads=8, defaults=20)
    return collections.OrderedDict(analytic_grid=3000, analytic_coords=1400, analytic_profile=1200, analytic_scatter=900, real=1280, nested=160,
                                   history=960, large=48, threads=160,
                                   defaults=400)


# ----------------------------------------------------------------------
# reference pieces
# ----------------------------------------------------------------------
def _names(value):
    if value is None:
        return None
    if isinstance(value, str):
        return [value]
    return list(value)


def _same(a, b):
    a, b = np.asarray(a), np.asarray(b)
    if a.shape != b.shape:
        return False
    with np.errstate(invalid="ignore"):
        return bool(np.all((a == b) | (np.isnan(a.astype("float64")) & np.isnan(b.astype("float64")))))


class Defaults:
    """The naming defaults of a gridder as they were *before* the judged call (or when the workload created it)."""

    def __init__(self, gridder):
        dims = getattr(gridder, "dims", ("northing", "easting"))
        self.dims = tuple(dims) if isinstance(dims, (list, tuple)) else dims
        self.extra_coords_name = getattr(gridder, "extra_coords_name", "extra_coord")
        table = getattr(gridder, "data_names_defaults", None)
        self.data_names_defaults = None if table is None else tuple(tuple(row) for row in table)

    def key(self):
        return (self.dims, self.extra_coords_name, self.data_names_defaults)


def register(gridder, region=None):
    """The workload records what it knows about a gridder it created: fitted bounding box and the defaults it must keep."""
    entry = G.EXPECT.get(gridder)
    if entry is None:
        entry = G.EXPECT[gridder] = {"defaults": Defaults(gridder)}
    if region is not None:
        entry["region"] = tuple(float(v) for v in region)
    return entry


def expected_extra_names(gridder, n_extra):
    base = gridder.extra_coords_name
    return [base if k == 0 else "%s_%d" % (base, k) for k in range(n_extra)]


def expected_data_names(gridder, data_names, n_components):
    """Names requested, or the documented defaults for 1/2/3 components (None when neither applies)."""
    if data_names is not None:
        return _names(data_names)
    defaults = [("scalars",), ("east_component", "north_component"), ("east_component", "north_component", "vertical_component")]
    table = getattr(gridder, "data_names_defaults", None) or defaults
    if 1 <= n_components <= len(table):
        return list(table[n_components - 1])
    return None


def default_region(run, gridder):
    """Bounding box of the fitted data as the *workload* computed it; the attribute only for gridders the workload did not create."""
    known = G.EXPECT.get(gridder)
    if known is not None and "region" in known:
        run.count("class:default_region_from_fitted_data")
        return known["region"]
    run.count("class:default_region_from_attribute")
    return tuple(gridder.region_)


def field_values(run, gridder, east, north, rng_seed=0):
    """
    What the gridder predicts at the given points (any shape): list of (values, tolerance) per component.

    Analytic gridder: its closed form. Fitted gridder: predict() called by the monitor on a shuffled 1-D copy of the points
    (tapped functions pass straight through inside a monitor), put back in place.
    """
    east, north = np.asarray(east, dtype="float64"), np.asarray(north, dtype="float64")
    if getattr(gridder, "c05_analytic", False):
        out = []
        for values, scale in G.analytic_field(gridder.consts, east, north):
            out.append((values, 16 * EPS * scale + TINY))
        return out
    shape = east.shape
    flat_e, flat_n = east.reshape(-1), north.reshape(-1)
    perm = np.random.default_rng(rng_seed + flat_e.size).permutation(flat_e.size)
    with warnings.catch_warnings():
        warnings.simplefilter("ignore")
        pred = gridder.predict((flat_e[perm].copy(), flat_n[perm].copy()))
    if not isinstance(pred, tuple):
        pred = (pred,)
    out = []
    for comp in pred:
        comp = np.asarray(comp, dtype="float64").reshape(-1)
        values = np.empty(flat_e.size)
        values[perm] = comp
        finite = values[np.isfinite(values)]
        mag = float(np.max(np.abs(finite))) if finite.size else 0.0
        out.append((values.reshape(shape), np.full(shape, 1e-9 * mag + TINY)))
    return out


def compare(got, want, tol):
    """Largest |got - want| / tol with NaN compared position-wise. Returns (ratio, index of the worst cell or None, nan_mismatch)."""
    got, want = np.asarray(got, dtype="float64"), np.asarray(want, dtype="float64")
    nan_got, nan_want = np.isnan(got), np.isnan(want)
    if np.any(nan_got != nan_want):
        idx = tuple(int(v) for v in np.argwhere(nan_got != nan_want)[0])
        return np.inf, idx, True
    with np.errstate(invalid="ignore"):
        ratio = np.where(nan_got, 0.0, np.abs(got - want) / tol)
    if ratio.size == 0:
        return 0.0, None, False
    flat = int(np.argmax(ratio))
    idx = tuple(int(v) for v in np.unravel_index(flat, ratio.shape))
    return float(ratio.reshape(-1)[flat]), idx, False


def is_exact_meshgrid(east, north):
    east, north = np.asarray(east), np.asarray(north)
    if east.ndim != 2 or east.shape != north.shape:
        return False
    return bool(np.all(east == east[0:1, :]) and np.all(north == north[:, 0:1]))


# ----------------------------------------------------------------------
# monitors
# ----------------------------------------------------------------------
def install(tap, run):
    import pandas as pd
    import verde.synthetic
    import xarray as xr
    from verde.base import BaseGridder

    def describe(gridder):
        text = repr(gridder)
        return text if len(text) < 300 else text[:300] + "..."

    def base_witness(ev):
        a = ev.args
        out = {k: v for k, v in a.items() if k not in ("self", "projection", "kwargs")}
        out["kwargs"] = dict(a.get("kwargs") or {})
        out["gridder"] = describe(a["self"])
        proj = a.get("projection")
        out["projection"] = None if proj is None else (proj.describe() if hasattr(proj, "describe") else repr(proj))
        if getattr(a["self"], "c05_analytic", False):
            out["analytic_constants"] = [list(c) for c in a["self"].consts]
        return out

    def pre_defaults(ev):
        return {"defaults": Defaults(ev.args["self"])}

    def defaults_for(ev, kind):
        """
        Defaults the call must fall back to: those the workload recorded when it created the gridder, else those in place when the
        call started. Also judges that the call left the instance's dims / extra_coords_name / data_names_defaults alone.
        """
        gridder = ev.args["self"]
        before = ev.pre["defaults"] if isinstance(ev.pre, dict) and "defaults" in ev.pre else Defaults(gridder)
        after = Defaults(gridder)
        known = G.EXPECT.get(gridder)
        reference = known["defaults"] if known is not None and "defaults" in known else before
        run.evaluated("defaults_unchanged")
        if after.key() != before.key() or after.key() != reference.key():
            run.violation("defaults_unchanged",
                          "%s() changed the gridder's naming defaults: dims %r -> %r, extra_coords_name %r -> %r, data_names_defaults %s"
                          % (kind, reference.dims, after.dims, reference.extra_coords_name, after.extra_coords_name,
                             "unchanged" if after.data_names_defaults == reference.data_names_defaults else "changed"),
                          {"gridder": describe(gridder), "arguments": {k: repr(v)[:200] for k, v in ev.args.items() if k != "self"},
                           "before_call": list(before.key()), "after_call": list(after.key()), "at_creation": list(reference.key())},
                          key="defaults:changed-by-" + kind)
        return reference

    def count_spellings(kind, **arguments):
        """How the caller spelled each argument (tuple / list / ndarray / Python or numpy scalar / ...)."""
        for name, value in arguments.items():
            if value is None:
                continue
            if name == "projection":
                run.count("spelling:%s_projection=%s" % (kind, G.projection_spelling(value)))
                continue
            run.count("spelling:%s_%s=%s" % (kind, name, G.spelling_of(value)))
            if name == "extra_coords" and np.ndim(value) == 0 and float(value) == 0.0:
                run.count("spelling:%s_extra_coords_exactly_zero" % kind)
            if name in ("dims", "data_names") and not isinstance(value, str) and len(value) == 1:
                run.count("spelling:%s_%s_single_name_in_sequence" % (kind, name))

    def count_common(kind, gridder, defaults, projection, dims, data_names, n_components, n_extra):
        run.count("class:%s_gridder=%s" % (kind, type(gridder).__name__))
        run.count("class:%s_components=%d" % (kind, n_components))
        run.count("class:%s_extra_coords=%d" % (kind, n_extra))
        if projection is not None:
            run.count("class:%s_projection_%s" % (kind, getattr(projection, "kind", "other")))
        if dims is not None:
            run.count("class:%s_custom_dims" % kind)
        elif tuple(defaults.dims) != ("northing", "easting"):
            run.count("class:%s_class_level_dims" % kind)
        if data_names is not None:
            run.count("class:%s_custom_data_names" % kind)

    # ------------------------------------------------------------------
    def post_grid(ev):
        a = ev.args
        gridder = a["self"]
        if ev.exc is not None:
            run.count("raised:grid:" + type(ev.exc).__name__)
            return
        kwargs = dict(a.get("kwargs") or {})
        if "meshgrid" in kwargs:
            run.count("skipped:grid_meshgrid_keyword")
            return
        ds = ev.result
        witness = base_witness(ev)
        problems = []
        defaults = defaults_for(ev, "grid")
        dims = list(a["dims"]) if a["dims"] is not None else list(defaults.dims)
        projection = a["projection"]
        given = a["coordinates"]
        extras_expected = []  # list of ("constant", value) / ("array", values)
        spec = None
        if given is not None:
            east_in, north_in = np.asarray(given[0]), np.asarray(given[1])
            run.count("class:grid_coordinates_given_as=" + G.container_name(given[0]))
            if G.container_name(given[0]) == "DataArray" and tuple(getattr(given[0], "dims", ())) != (dims[1],):
                run.count("class:grid_coordinates_from_a_grid_with_other_dims")
            if east_in.ndim == 1 and north_in.ndim == 1:
                e_want, n_want = east_in, north_in
                run.count("class:grid_explicit_coordinates_1d")
            elif is_exact_meshgrid(east_in, north_in):
                e_want, n_want = east_in[0, :], north_in[:, 0]
                run.count("class:grid_explicit_coordinates_2d")
            else:
                run.count("either_way:grid_tolerance_level_meshgrid")
                return
            extras_expected = [("array", np.asarray(c)) for c in given[2:]]
        else:
            region = a["region"]
            if region is None:
                region = default_region(run, gridder)
            else:
                run.count("class:grid_region_given")
            region = [float(v) for v in region]
            shape, spacing = a["shape"], a["spacing"]
            adjust = kwargs.get("adjust", "spacing")
            pixel = bool(kwargs.get("pixel_register", False))
            if shape is not None:
                spec = dict(size_e=int(shape[1]), size_n=int(shape[0]), sp_e=None, sp_n=None)
                run.count("class:grid_by_shape")
            else:
                sp = np.atleast_1d(spacing)
                sp_n, sp_e = (float(sp[0]), float(sp[0])) if sp.size == 1 else (float(sp[0]), float(sp[1]))
                spec = dict(size_e=None, size_n=None, sp_e=sp_e, sp_n=sp_n)
                run.count("class:grid_by_spacing_adjust_" + str(adjust))
            if pixel:
                run.count("class:grid_pixel_register")
            spec.update(region=region, adjust=adjust, pixel=pixel)
            witness["region_used_by_oracle"] = region
            if kwargs.get("extra_coords") is not None:
                extras_expected = [("constant", float(v)) for v in np.atleast_1d(kwargs["extra_coords"])]
        # ---- structure
        if not isinstance(ds, xr.Dataset):
            problems.append("result is not an xarray.Dataset")
        else:
            if dims[0] not in ds.coords or dims[1] not in ds.coords:
                problems.append("coordinates are not named after dims %r: %r" % (dims, list(ds.coords)))
            else:
                e_out, n_out = np.asarray(ds.coords[dims[1]].values), np.asarray(ds.coords[dims[0]].values)
                if tuple(ds.coords[dims[1]].dims) != (dims[1],) or tuple(ds.coords[dims[0]].dims) != (dims[0],):
                    problems.append("axis coordinates do not span their own dimension: %s%r %s%r"
                                    % (dims[1], tuple(ds.coords[dims[1]].dims), dims[0], tuple(ds.coords[dims[0]].dims)))
                elif dict(ds.sizes) != {dims[0]: n_out.size, dims[1]: e_out.size}:
                    problems.append("the grid has dimensions %r, requested exactly %r" % (dict(ds.sizes), dims))
                else:
                    for name in ds.data_vars:
                        stray = [str(c) for c in ds[name].coords if tuple(ds[name].coords[c].dims) not in ((dims[0],), (dims[1],), (dims[0], dims[1]))]
                        if stray:
                            problems.append("variable %r carries coordinates %r that do not lie on the requested dims %r" % (name, stray, dims))
                            break
        if not problems:
            # ---- coordinate vectors
            tie = False
            if spec is None:
                if not _same(e_out, e_want):
                    problems.append("easting coordinate differs from the easting given (sizes %d / %d)" % (e_out.size, e_want.size))
                if not _same(n_out, n_want):
                    problems.append("northing coordinate differs from the northing given (sizes %d / %d)" % (n_out.size, n_want.size))
            else:
                w, e, s, n = spec["region"]
                p_e, info_e = ref.check_line(e_out, w, e, spec["size_e"], spec["sp_e"], spec["adjust"], spec["pixel"])
                p_n, info_n = ref.check_line(n_out, s, n, spec["size_n"], spec["sp_n"], spec["adjust"], spec["pixel"])
                tie = bool(info_e.get("tie") or info_n.get("tie"))
                for info in (info_e, info_n):
                    if "err_over_tol" in info:
                        run.observe_max("grid_node_error_over_tolerance", info["err_over_tol"])
                if p_e:
                    problems.append("easting: " + p_e)
                if p_n:
                    problems.append("northing: " + p_n)
            if tie:
                run.count("either_way:grid_spacing_tie")
        n_components = 0
        if not problems:
            # ---- values: cell [i, j] is the prediction at (easting[j], northing[i]) (projected when a projection is given)
            nn, ne = n_out.size, e_out.size
            big_e = np.empty((nn, ne))
            big_n = np.empty((nn, ne))
            big_e[:, :] = e_out[None, :]
            big_n[:, :] = n_out[:, None]
            if projection is not None:
                p_east, p_north = projection(big_e, big_n)
            else:
                p_east, p_north = big_e, big_n
            fields = field_values(run, gridder, p_east, p_north)
            n_components = len(fields)
            names = expected_data_names(defaults, a["data_names"], n_components)
            if names is None:
                run.count("skipped:grid_no_default_names")
                return
            if [str(v) for v in ds.data_vars] != [str(v) for v in names]:
                problems.append("data variables %r, expected %r" % (list(ds.data_vars), names))
            else:
                for k, (name, (want, tol)) in enumerate(zip(names, fields)):
                    var = ds[name]
                    if tuple(var.dims) != tuple(dims):
                        problems.append("variable %r has dims %s, expected %s" % (name, var.dims, tuple(dims)))
                        break
                    if var.values.shape != (nn, ne):
                        problems.append("variable %r has shape %s for %d northing x %d easting nodes" % (name, var.values.shape, nn, ne))
                        break
                    ratio, idx, nan_bad = compare(var.values, want, tol)
                    run.observe_max("grid_value_error_over_tolerance", ratio)
                    if not ratio <= 1.0:
                        i, j = idx
                        problems.append(
                            "variable %r (component %d): cell [%d, %d] holds %r but the prediction at (easting[%d]=%r, northing[%d]=%r)%s is %r"
                            % (name, k, i, j, float(var.values[i, j]), j, float(e_out[j]), i, float(n_out[i]),
                               " after projection" if projection is not None else "", float(want[i, j])))
                        witness["expected_values_component_%d" % k] = want
                        break
            # ---- extra coordinates
            if not problems:
                want_names = expected_extra_names(defaults, len(extras_expected))
                got_names = [str(c) for c in ds.coords if str(c) not in (str(dims[0]), str(dims[1]))]
                if sorted(got_names) != sorted(want_names):
                    problems.append("extra coordinates %r, expected %r" % (got_names, want_names))
                else:
                    for name, (kind, value) in zip(want_names, extras_expected):
                        var = ds.coords[name]
                        ok = tuple(var.dims) == tuple(dims) and var.values.shape == (nn, ne) and (
                            bool(np.all(var.values == value)) if kind == "constant" else _same(var.values, value))
                        if not ok:
                            problems.append("extra coordinate %r does not hold the values given, in place, with dims %s" % (name, tuple(dims)))
                            break
            # ---- metadata on the Dataset and on every variable
            if not problems:
                meta = "Generated by " + repr(gridder)
                if ds.attrs.get("metadata") != meta:
                    problems.append("Dataset attrs['metadata'] is %r, expected %r" % (ds.attrs.get("metadata"), meta))
                else:
                    for name in ds.data_vars:
                        if ds[name].attrs.get("metadata") != meta:
                            problems.append("variable %r does not carry the gridder's description as metadata" % (name,))
                            break
        run.evaluated("grid")
        if given is None:
            count_spellings("grid", region=a["region"], shape=a["shape"], spacing=a["spacing"], extra_coords=kwargs.get("extra_coords"))
        count_spellings("grid", dims=a["dims"], data_names=a["data_names"], projection=projection)
        count_common("grid", gridder, defaults, projection, a["dims"], a["data_names"], n_components, len(extras_expected))
        if not problems:
            if nn == 1 or ne == 1:
                run.count("class:grid_single_row_or_column")
            elif nn != ne:
                run.count("class:grid_non_square")
            else:
                run.count("class:grid_square")
            separable = getattr(gridder, "c05_analytic", False) and all(c[2] == 0 for c in gridder.consts)
            if nn != ne and nn >= 2 and ne >= 2 and not separable:
                run.mark_nontrivial("grid", describe(gridder), e_out, n_out, dims, a["data_names"], witness["projection"])
        for problem in problems[:1]:
            witness["result"] = ds
            run.violation("grid", problem, witness, key="grid:" + problem.split(" ")[0])

    # ------------------------------------------------------------------
    def table_columns(table, dims, names, extra_names, with_distance):
        want = [dims[0], dims[1]] + (["distance"] if with_distance else []) + list(extra_names) + list(names)
        if sorted(str(c) for c in table.columns) != sorted(str(c) for c in want):
            return "columns %r, expected (in any order) %r" % (list(table.columns), want)
        if [str(c) for c in table.columns] == [str(c) for c in want]:
            run.count("observed:table_columns_in_documented_example_order")
        return None

    def post_profile(ev):
        a = ev.args
        gridder = a["self"]
        if ev.exc is not None:
            run.count("raised:profile:" + type(ev.exc).__name__)
            return
        kwargs = dict(a.get("kwargs") or {})
        table = ev.result
        witness = base_witness(ev)
        problems = []
        defaults = defaults_for(ev, "profile")
        dims = list(a["dims"]) if a["dims"] is not None else list(defaults.dims)
        projection = a["projection"]
        size = int(a["size"])
        p1 = (float(a["point1"][0]), float(a["point1"][1]))
        p2 = (float(a["point2"][0]), float(a["point2"][1]))
        if projection is not None and not hasattr(projection, "inverse_lipschitz"):
            run.count("skipped:profile_projection_of_unknown_conditioning")
            return
        if projection is not None:
            q1 = tuple(float(v) for v in projection(p1[0], p1[1]))
            q2 = tuple(float(v) for v in projection(p2[0], p2[1]))
        else:
            q1, q2 = p1, p2
        sep = float(np.hypot(q2[0] - q1[0], q2[1] - q1[1]))
        t = np.arange(size) / (size - 1) if size > 1 else np.zeros(1)
        x_ref = q1[0] + t * (q2[0] - q1[0])
        y_ref = q1[1] + t * (q2[1] - q1[1])
        d_ref = t * sep
        mag_p = max(abs(q1[0]), abs(q1[1]), abs(q2[0]), abs(q2[1])) + sep
        # end points given in a narrow dtype (float32, int16): numpy carries the whole computation in float32, the statement does not
        # promise more than the precision of its inputs
        eps_in = EPS
        narrow = [np.asarray(v).dtype for v in (a["point1"][0], a["point1"][1], a["point2"][0], a["point2"][1])
                  if isinstance(v, np.generic) and ((v.dtype.kind == "f" and v.dtype.itemsize < 8) or (v.dtype.kind in "iu" and v.dtype.itemsize <= 2))]
        if narrow:
            eps_in = float(np.finfo("float32").eps)
            run.count("either_way:profile_end_points_in_narrow_dtype_float32_tolerance")
        tol_p = 32 * eps_in * mag_p + TINY
        extras = [] if kwargs.get("extra_coords") is None else [float(v) for v in np.atleast_1d(kwargs["extra_coords"])]
        extra_names = expected_extra_names(defaults, len(extras))
        n_components = 0
        if not isinstance(table, pd.DataFrame):
            problems.append("result is not a pandas.DataFrame")
        elif len(table) != size:
            problems.append("%d rows, expected size=%d" % (len(table), size))
        elif dims[0] not in table.columns or dims[1] not in table.columns or "distance" not in table.columns:
            problems.append("columns %r lack the coordinates %r or 'distance'" % (list(table.columns), dims))
        else:
            east_out = table[dims[1]].to_numpy(dtype="float64")
            north_out = table[dims[0]].to_numpy(dtype="float64")
            dist_out = table["distance"].to_numpy(dtype="float64")
            ratio = float(np.max(np.abs(dist_out - d_ref)) / tol_p)
            run.observe_max("profile_distance_error_over_tolerance", ratio)
            if not ratio <= 1.0:
                problems.append("distances are not t*|p2-p1| in %s units: largest difference %.3g (tolerance %.3g)"
                                % ("projected" if projection is not None else "coordinate", ratio * tol_p, tol_p))
            if projection is None:
                e_want, n_want = x_ref, y_ref
                tol_out = tol_p
            else:
                e_want, n_want = projection(x_ref, y_ref, inverse=True)
                e_want, n_want = np.asarray(e_want, dtype="float64"), np.asarray(n_want, dtype="float64")
                lip = projection.inverse_lipschitz(x_ref, y_ref)
                mag_out = max(float(np.max(np.abs(e_want))), float(np.max(np.abs(n_want))), abs(p1[0]), abs(p1[1]), abs(p2[0]), abs(p2[1]))
                tol_out = 64 * eps_in * (lip * (mag_p + projection.offsets()) + mag_out) + TINY
            if not problems:
                ratio = float(max(np.max(np.abs(east_out - e_want)), np.max(np.abs(north_out - n_want))) / tol_out)
                run.observe_max("profile_coordinate_error_over_tolerance", ratio)
                if not ratio <= 1.0:
                    problems.append("returned coordinates are not the %s profile points: largest difference %.3g (tolerance %.3g)"
                                    % ("inverse-projected" if projection is not None else "evenly spaced", ratio * tol_out, tol_out))
            if not problems:
                # values = field at the points the profile was generated at (projected space)
                if projection is None:
                    fields = field_values(run, gridder, east_out, north_out)
                else:
                    fields = field_values(run, gridder, x_ref, y_ref)
                    if getattr(gridder, "c05_analytic", False):
                        slope = G.analytic_gradient_bound(gridder.consts, x_ref, y_ref)
                    else:
                        step = 1e-5 * (sep if sep > 0 else max(mag_p, 1.0))
                        moved = field_values(run, gridder, x_ref + step, y_ref) + field_values(run, gridder, x_ref, y_ref + step)
                        base = fields + fields
                        slope = max(float(np.nanmax(np.abs(m[0] - b[0]))) for m, b in zip(moved, base)) / step
                    fields = [(v, tol + 4 * slope * tol_p) for v, tol in fields]
                n_components = len(fields)
                names = expected_data_names(defaults, a["data_names"], n_components)
                if names is None:
                    run.count("skipped:profile_no_default_names")
                    return
                problem = table_columns(table, dims, names, extra_names, True)
                if problem:
                    problems.append(problem)
                else:
                    for k, (name, (want, tol)) in enumerate(zip(names, fields)):
                        ratio, idx, _ = compare(table[name].to_numpy(dtype="float64"), want, tol)
                        run.observe_max("profile_value_error_over_tolerance", ratio)
                        if not ratio <= 1.0:
                            problems.append("column %r (component %d): row %d holds %r, the prediction at its %spoint is %r"
                                            % (name, k, idx[0], float(table[name].iloc[idx[0]]),
                                               "projected " if projection is not None else "", float(want[idx[0]])))
                            break
                    for name, value in zip(extra_names, extras):
                        if not bool(np.all(table[name].to_numpy() == value)):
                            problems.append("extra coordinate column %r is not the constant %r" % (name, value))
        run.evaluated("profile")
        run.count("spelling:profile_end_point_dtype=%s" % "/".join(sorted({G.scalar_dtype_name(v) for v in (
            a["point1"][0], a["point1"][1], a["point2"][0], a["point2"][1])})))
        count_spellings("profile", size=a["size"], point=a["point1"], extra_coords=kwargs.get("extra_coords"), dims=a["dims"],
                        data_names=a["data_names"], projection=projection)
        count_common("profile", gridder, defaults, projection, a["dims"], a["data_names"], n_components, len(extras))
        if size >= 2 and sep > 0 and q1[0] != q2[0] and q1[1] != q2[1]:
            run.mark_nontrivial("profile", describe(gridder), p1, p2, size, dims, a["data_names"], witness["projection"])
        for problem in problems[:1]:
            witness["result"] = table
            witness["reference"] = {"projected_points": [x_ref, y_ref], "distances": d_ref}
            run.violation("profile", problem, witness, key="profile:" + problem.split(" ")[0])

    # ------------------------------------------------------------------
    def pre_scatter(ev):
        state = ev.args.get("random_state")
        out = pre_defaults(ev)
        if isinstance(state, np.random.RandomState):
            out["random"] = ("state", state.get_state())
        elif isinstance(state, (int, np.integer)):
            out["random"] = ("seed", int(state))
        else:
            out["random"] = ("unknown", None)
        return out

    def post_scatter(ev):
        a = ev.args
        gridder = a["self"]
        monitor = "checkerboard_scatter" if ev.name.startswith("CheckerBoard") else "scatter"
        if ev.exc is not None:
            run.count("raised:scatter:" + type(ev.exc).__name__)
            return
        kwargs = dict(a.get("kwargs") or {})
        table = ev.result
        witness = base_witness(ev)
        witness["random_state"] = repr(a["random_state"])[:80]
        problems = []
        defaults = defaults_for(ev, "scatter")
        dims = list(a["dims"]) if a["dims"] is not None else list(defaults.dims)
        projection = a["projection"]
        size = int(a["size"])
        region = a["region"]
        if region is None:
            region = default_region(run, gridder)
        else:
            run.count("class:scatter_region_given")
        w, e, s, n = (float(v) for v in region)
        witness["region_used_by_oracle"] = [w, e, s, n]
        extras = [] if kwargs.get("extra_coords") is None else [float(v) for v in np.atleast_1d(kwargs["extra_coords"])]
        extra_names = expected_extra_names(defaults, len(extras))
        kind, payload = ev.pre["random"] if isinstance(ev.pre, dict) and "random" in ev.pre else ("unknown", None)
        n_components = 0
        if not isinstance(table, pd.DataFrame):
            problems.append("result is not a pandas.DataFrame")
        elif len(table) != size:
            problems.append("%d rows, expected size=%d" % (len(table), size))
        elif dims[0] not in table.columns or dims[1] not in table.columns:
            problems.append("columns %r lack the coordinates %r" % (list(table.columns), dims))
        else:
            east_out = table[dims[1]].to_numpy(dtype="float64")
            north_out = table[dims[0]].to_numpy(dtype="float64")
            if kind in ("seed", "state"):
                if kind == "seed":
                    stream = np.random.RandomState(payload)
                else:
                    stream = np.random.RandomState()
                    stream.set_state(payload)
                e_want = stream.uniform(w, e, size)
                n_want = stream.uniform(s, n, size)
                tol_e = 4 * EPS * max(abs(w), abs(e)) + TINY
                tol_n = 4 * EPS * max(abs(s), abs(n)) + TINY
                ratio = float(max(np.max(np.abs(east_out - e_want)) / tol_e, np.max(np.abs(north_out - n_want)) / tol_n)) if size else 0.0
                run.observe_max("scatter_coordinate_error_over_tolerance", ratio)
                if not ratio <= 1.0:
                    problems.append("coordinates are not the reproducible uniform draws for random_state=%s in region %r"
                                    % (witness["random_state"], [w, e, s, n]))
                    witness["expected_coordinates"] = [e_want, n_want]
            else:
                run.count("either_way:scatter_unseeded")
                inside = bool(np.all((east_out >= w) & (east_out <= e) & (north_out >= s) & (north_out <= n)))
                if not inside:
                    problems.append("scatter points fall outside the region %r" % ([w, e, s, n],))
            if not problems:
                if projection is not None:
                    p_east, p_north = projection(east_out, north_out)
                else:
                    p_east, p_north = east_out, north_out
                fields = field_values(run, gridder, p_east, p_north)
                n_components = len(fields)
                names = expected_data_names(defaults, a["data_names"], n_components)
                if names is None:
                    run.count("skipped:scatter_no_default_names")
                    return
                problem = table_columns(table, dims, names, extra_names, False)
                if problem:
                    problems.append(problem)
                else:
                    for k, (name, (want, tol)) in enumerate(zip(names, fields)):
                        ratio, idx, _ = compare(table[name].to_numpy(dtype="float64"), want, tol)
                        run.observe_max("scatter_value_error_over_tolerance", ratio)
                        if not ratio <= 1.0:
                            problems.append("column %r (component %d): row %d holds %r, the prediction at its %spoint is %r"
                                            % (name, k, idx[0], float(table[name].iloc[idx[0]]),
                                               "projected " if projection is not None else "", float(want[idx[0]])))
                            break
                    for name, value in zip(extra_names, extras):
                        if not bool(np.all(table[name].to_numpy() == value)):
                            problems.append("extra coordinate column %r is not the constant %r" % (name, value))
        run.evaluated(monitor)
        count_spellings("scatter", region=a["region"], size=a["size"], random_state=a["random_state"], extra_coords=kwargs.get("extra_coords"),
                        dims=a["dims"], data_names=a["data_names"], projection=projection)
        count_common("scatter", gridder, defaults, projection, a["dims"], a["data_names"], n_components, len(extras))
        if size >= 2:
            run.mark_nontrivial("scatter", describe(gridder), [w, e, s, n], size, witness["random_state"], dims, a["data_names"],
                                witness["projection"])
        for problem in problems[:1]:
            witness["result"] = table
            run.violation(monitor, problem, witness, key="scatter:" + problem.split(" ")[0])

    # arguments the caller leaves out are judged by their DOCUMENTED defaults, not by the signature of the tree under test
    tap.method(BaseGridder, "grid", post=post_grid, pre=pre_defaults, documented=dict(DOCUMENTED_DEFAULTS["grid"]))
    tap.method(BaseGridder, "profile", post=post_profile, pre=pre_defaults, documented=dict(DOCUMENTED_DEFAULTS["profile"]))
    tap.method(BaseGridder, "scatter", post=post_scatter, pre=pre_scatter, documented=dict(DOCUMENTED_DEFAULTS["scatter"]))
    if "scatter" not in vars(verde.synthetic.CheckerBoard):  # pragma: no cover - the override disappeared
        run.note_inconclusive("CheckerBoard no longer overrides scatter")


# ----------------------------------------------------------------------
# workloads
# ----------------------------------------------------------------------
def new_analytic(rng, scale, n_components=None, variant=None):
    classes = G.analytic_classes()
    if n_components is None:
        n_components = int(rng.choice([1, 1, 2, 3]))
    if variant is None:
        variant = str(rng.choice(["default", "default", "latlon", "yx"]))
    gridder = classes[variant](consts=G.gen_consts(rng, n_components, scale))
    register(gridder)  # the naming defaults every later call must fall back to
    return gridder, n_components


def run_case(run, tap, stream, index, rng):
    import verde as vd
    import verde.synthetic  # noqa: F401 - CheckerBoard is not re-exported at top level

    with warnings.catch_warnings():
        warnings.simplefilter("ignore")
        if stream == "analytic_grid":
            _stream_analytic_grid(run, rng)
        elif stream == "analytic_coords":
            _stream_analytic_coords(run, rng)
        elif stream == "analytic_profile":
            _stream_analytic_profile(run, rng)
        elif stream == "analytic_scatter":
            _stream_analytic_scatter(run, rng)
        elif stream == "real":
            _stream_real(run, rng, vd, REAL_KINDS[index % len(REAL_KINDS)])
        elif stream == "nested":
            _stream_nested(run, rng, vd)
        elif stream == "history":
            _stream_history(run, rng, vd, HISTORY_KINDS[index % len(HISTORY_KINDS)])
        elif stream == "large":
            _stream_large(run, rng, vd, LARGE_KINDS[index % len(LARGE_KINDS)])
        elif stream == "threads":
            _stream_threads(run, rng, index)
        elif stream == "defaults":
            _stream_defaults(run, rng, vd, DEFAULTS_KINDS[index % len(DEFAULTS_KINDS)])


def _stream_analytic_grid(run, rng):
    """Regular grids from region + shape|spacing, with and without a projection; default region from the 'fitted' data."""
    integral = bool(rng.random() < 0.2)  # integral bounds, so that region / spacing can also be spelled with integers
    region, scale = G.gen_int_region(rng) if integral else G.gen_region(rng)
    gridder, n_comp = new_analytic(rng, scale)
    # "fit" on points whose bounding box is the default region
    w, e, s, n = region
    pts_e = np.concatenate([[w, e], rng.uniform(w, e, 20)])
    pts_n = np.concatenate([rng.uniform(s, n, 20), [s, n]])
    gridder.fit((pts_e, pts_n), None)
    register(gridder, (pts_e.min(), pts_e.max(), pts_n.min(), pts_n.max()))
    for _ in range(14):
        kwargs = G.gen_grid_spec(rng, region)
        kwargs.update(G.gen_names(rng, n_comp))
        if rng.random() < 0.6:
            # a different region of the same scale, not the default one
            kwargs["region"] = [w + 0.13 * (e - w), e + 0.21 * (e - w), s - 0.37 * (n - s), n - 0.11 * (n - s)] if rng.random() < 0.5 \
                else [w, e + (e - w) * float(rng.uniform(0, 1)), s, n + (n - s) * float(rng.uniform(0, 1))]
            if rng.random() < 0.3:
                kwargs["region"] = tuple(kwargs["region"])
        if rng.random() < 0.4:
            kwargs["projection"] = G.gen_projection(rng, kwargs.get("region", region))
        if integral:
            if "region" in kwargs:
                kwargs["region"] = [w + 1.0, e + 3.0, s - 2.0, n + 1.0]
            if "spacing" in kwargs:
                kwargs["spacing"] = G.gen_int_spacing(rng, kwargs.get("region", region))
        grid = gridder.grid(**G.spell_call(rng, kwargs))
    run.sample("analytic_grid", {"constants": [list(c) for c in gridder.consts], "class": type(gridder).__name__, "default_region": list(region),
                                 "last_call": {k: (v.describe() if hasattr(v, "describe") else v) for k, v in kwargs.items()},
                                 "result_dims": {str(k): int(v) for k, v in grid.sizes.items()},
                                 "result_variables": [str(v) for v in grid.data_vars],
                                 "first_variable": grid[list(grid.data_vars)[0]].values})
    # documented refusals (not judged): conflicting arguments, no default region
    if rng.random() < 0.3:
        try:
            gridder.grid(coordinates=(np.arange(3.0), np.arange(4.0)), shape=(4, 3))
        except ValueError:
            run.count("refused:coordinates_and_shape")
        try:
            G.analytic_classes()["default"]().grid(shape=(3, 4))
        except ValueError:
            run.count("refused:no_default_region")


def _stream_analytic_coords(run, rng):
    """Explicit 1-D and 2-D (meshgrid) coordinates, non-uniform, with 0..2 extra coordinates whose values encode their cell."""
    region, scale = G.gen_region(rng)
    gridder, n_comp = new_analytic(rng, scale)
    w, e, s, n = region
    for _ in range(12):
        nn, ne = G.gen_shape(rng)
        e_vec, n_vec = G.gen_axis(rng, ne, w, e), G.gen_axis(rng, nn, s, n)
        extras = tuple(G.encode_extra(k, (nn, ne)) for k in range(int(rng.choice([0, 0, 1, 2]))))
        if rng.random() < 0.5:
            coordinates = (e_vec, n_vec) + extras
        else:
            east, north = G.broadcast_mesh(e_vec, n_vec)
            roll = rng.random()
            if roll < 0.2:
                east, north = np.asfortranarray(east), np.asfortranarray(north)
            elif roll < 0.4:
                east.setflags(write=False)
                north.setflags(write=False)
            coordinates = (east, north) + extras
        if rng.random() < 0.25:
            coordinates = list(coordinates)
        kwargs = G.gen_names(rng, n_comp)
        if rng.random() < 0.35:
            kwargs["projection"] = G.gen_projection(rng, region)
        if rng.random() < 0.4:
            coordinates = fed_coordinates(run, rng, gridder, e_vec, n_vec, extras, kwargs)
        grid = gridder.grid(coordinates=coordinates, **G.spell_call(rng, kwargs))
    run.sample("analytic_explicit_coordinates", {"constants": [list(c) for c in gridder.consts], "easting": e_vec, "northing": n_vec,
                                                 "two_d": np.ndim(coordinates[0]) == 2, "n_extra": len(extras),
                                                 "first_variable": grid[list(grid.data_vars)[0]].values})


SOURCE_DIMS = [("latitude", "longitude"), ("lat", "lon"), ("y", "x"), ("northing", "easting"), ("easting", "northing")]


def fed_coordinates(run, rng, gridder, e_vec, n_vec, extras, kwargs):
    """
    The output of one public call fed into another: the 1-D coordinates of the new grid are taken from an EXISTING grid (made by
    grid(coordinates=...) with its own dimension names) as xarray index coordinates, pandas Index / Series, lists or tuples. The
    dimension names of the source differ from those requested for the new grid in most cases.
    """
    import pandas as pd

    source_dims = SOURCE_DIMS[int(rng.integers(0, len(SOURCE_DIMS)))]
    source = gridder.grid(coordinates=(e_vec, n_vec), dims=source_dims)
    east, north = source[source_dims[1]], source[source_dims[0]]
    form = str(rng.choice(["DataArray", "DataArray", "DataArray", "Index", "Series", "list", "tuple"]))
    if form == "Index":
        east, north = source.indexes[source_dims[1]], source.indexes[source_dims[0]]
    elif form == "Series":
        east = pd.Series(east.values, index=rng.permutation(east.size) + 100)
        north = pd.Series(north.values, index=rng.permutation(north.size) + 7)
    elif form == "list":
        east, north = east.values.tolist(), north.values.tolist()
    elif form == "tuple":
        east, north = tuple(east.values.tolist()), tuple(north.values.tolist())
    requested = tuple(kwargs["dims"]) if "dims" in kwargs else tuple(gridder.dims)
    run.count("class:fed_coordinates_%s_%s" % (form, "other_dims" if tuple(requested) != tuple(source_dims) else "same_dims"))
    if form == "DataArray" and rng.random() < 0.15:
        # 2-D DataArrays: the unchanged code refuses them (IndexError in check_meshgrid); counted, not judged
        big_e, big_n = source[source_dims[1]].broadcast_like(source), source[source_dims[0]].broadcast_like(source)
        try:
            gridder.grid(coordinates=(big_e.transpose(*source_dims), big_n.transpose(*source_dims)), **{k: v for k, v in kwargs.items() if k != "projection"})
            run.count("observed:grid_accepted_2d_dataarray_coordinates")
        except (IndexError, TypeError, ValueError) as exc:
            run.count("refused:grid_2d_dataarray_coordinates_" + type(exc).__name__)
    return (east, north) + tuple(extras)


def gen_profile_points(rng, region):
    w, e, s, n = region
    p1 = (float(rng.uniform(w, e)), float(rng.uniform(s, n)))
    p2 = (float(rng.uniform(w, e)), float(rng.uniform(s, n)))
    roll = rng.random()
    if roll < 0.08:
        p2 = (p1[0], p2[1])  # along northing
    elif roll < 0.16:
        p2 = (p2[0], p1[1])  # along easting
    elif roll < 0.2:
        p2 = p1  # zero length
    return p1, p2


def _stream_analytic_profile(run, rng):
    region, scale = G.gen_region(rng)
    gridder, n_comp = new_analytic(rng, scale)
    for _ in range(14):
        p1, p2 = gen_profile_points(rng, region)
        size = int(rng.choice([1, 2, 3, 5, 10, 17, 40, 77]))
        kwargs = G.gen_names(rng, n_comp)
        if rng.random() < 0.5:
            kwargs["projection"] = G.gen_projection(rng, region)
        roll = rng.random()
        if roll < 0.15:
            kwargs["extra_coords"] = float(np.round(rng.normal() * 10, 2))
        elif roll < 0.3:
            kwargs["extra_coords"] = [float(np.round(v * 10, 2)) for v in rng.normal(size=2)]
        if rng.random() < 0.3:
            # end points taken from integer coordinate arrays: fixed-width numpy integers whose squared difference overflows the dtype
            # (> 181 for int16, > 46340 for int32), Python ints, float32 scalars - compared with the float64 spelling by the monitor
            p1, p2, box = G.gen_integer_end_points(rng)
            if "projection" in kwargs:
                kwargs["projection"] = G.gen_projection(rng, box)
            run.count("class:profile_integer_valued_end_points")
        else:
            p1, p2 = G.spell_point(rng, p1), G.spell_point(rng, p2)
        table = gridder.profile(p1, p2, G.spell_count(rng, size), **G.spell_call(rng, kwargs, inverse=True))
    run.sample("analytic_profile", {"constants": [list(c) for c in gridder.consts], "point1": p1, "point2": p2, "size": size,
                                    "call": {k: (v.describe() if hasattr(v, "describe") else v) for k, v in kwargs.items()},
                                    "table_head": table.head(3)})


def _stream_analytic_scatter(run, rng):
    region, scale = G.gen_region(rng)
    gridder, n_comp = new_analytic(rng, scale)
    w, e, s, n = region
    pts_e = np.concatenate([[w, e], rng.uniform(w, e, 5)])
    pts_n = np.concatenate([rng.uniform(s, n, 5), [s, n]])
    gridder.fit((pts_e, pts_n), None)
    register(gridder, (pts_e.min(), pts_e.max(), pts_n.min(), pts_n.max()))
    for _ in range(8):
        kwargs = G.gen_names(rng, n_comp)
        kwargs["size"] = int(rng.choice([1, 2, 7, 30, 120]))
        seed = int(rng.integers(0, 2 ** 31 - 1))
        if rng.random() < 0.5:
            kwargs["region"] = [w - 0.3 * (e - w), e, s, n + 2.1 * (n - s)]
        if rng.random() < 0.4:
            kwargs["projection"] = G.gen_projection(rng, kwargs.get("region", region))
        roll = rng.random()
        if roll < 0.2:
            kwargs["extra_coords"] = float(np.round(rng.normal() * 10, 2))
        elif roll < 0.3:
            kwargs["extra_coords"] = [1.5, -2.25]
        G.spell_call(rng, kwargs)
        kwargs["size"] = G.spell_count(rng, kwargs["size"])
        first = gridder.scatter(random_state=G.spell_seed(rng, seed), **kwargs)
        if rng.random() < 0.3:
            again = gridder.scatter(random_state=np.random.RandomState(seed), **kwargs)
            run.count("class:scatter_random_state_object")
        else:
            again = gridder.scatter(random_state=seed, **kwargs)
        run.evaluated("scatter_reproducible")
        if not (list(first.columns) == list(again.columns) and all(_same(first[c].to_numpy(), again[c].to_numpy()) for c in first.columns)):
            run.violation("scatter_reproducible", "two scatter() calls with the same random_state differ",
                          {"seed": seed, "kwargs": {k: (v.describe() if hasattr(v, "describe") else v) for k, v in kwargs.items()},
                           "first": first, "again": again}, key="scatter:not-reproducible")
        if rng.random() < 0.1:
            gridder.scatter(random_state=None, **kwargs)
    run.sample("analytic_scatter", {"constants": [list(c) for c in gridder.consts], "seed": seed,
                                    "call": {k: (v.describe() if hasattr(v, "describe") else v) for k, v in kwargs.items()},
                                    "table_head": first.head(3)})


def fit_real(rng, vd, kind):
    """A fitted real gridder, the bounding box of its data (numpy), and its number of components."""
    n_points = int(rng.integers(25, 70))
    east, north = gen.cloud(rng, n_points, scale=gen.log_uniform(rng, 1e-1, 1e5), offset_factor=float(rng.choice([0.0, 1.0, 30.0])))
    data = gen.smooth_field(rng, east, north, amplitude=gen.log_uniform(rng, 1e-1, 1e3))
    other = gen.smooth_field(rng, east, north, amplitude=gen.log_uniform(rng, 1e-1, 1e3))
    third = gen.smooth_field(rng, east, north, amplitude=gen.log_uniform(rng, 1e-1, 1e3))
    bbox = (float(east.min()), float(east.max()), float(north.min()), float(north.max()))
    extent = max(bbox[1] - bbox[0], bbox[3] - bbox[2])
    n_comp = 1
    if kind == "spline":
        gridder = vd.Spline(damping=float(10 ** rng.uniform(-6, -2)), mindist=extent * 1e-3).fit((east, north), data)
    elif kind == "trend":
        gridder = vd.Trend(degree=int(rng.integers(1, 4))).fit((east, north), data)
    elif kind == "kneighbors":
        gridder = vd.KNeighbors(k=int(rng.choice([1, 3]))).fit((east, north), data)
    elif kind == "chain":
        gridder = vd.Chain([("trend", vd.Trend(degree=1)), ("spline", vd.Spline(damping=1e-4, mindist=extent * 1e-3))]).fit((east, north), data)
    elif kind == "chain_reduce":
        gridder = vd.Chain([("reduce", vd.BlockReduce(np.median, spacing=extent / float(rng.uniform(2.5, 5)))),
                            ("trend", vd.Trend(degree=2))]).fit((east, north), data)
    elif kind == "vector2":
        gridder = vd.Vector([vd.Trend(degree=2), vd.Spline(damping=1e-4, mindist=extent * 1e-3)]).fit((east, north), (data, other))
        n_comp = 2
    elif kind == "vector3":
        gridder = vd.Vector([vd.Trend(degree=1), vd.Trend(degree=2), vd.KNeighbors(k=1)]).fit((east, north), (data, other, third))
        n_comp = 3
    elif kind == "checkerboard":
        w, e, s, n = bbox
        gridder = vd.synthetic.CheckerBoard(amplitude=float(rng.uniform(1, 100)), region=bbox, w_east=(e - w) / float(rng.uniform(0.7, 2.3)),
                                  w_north=(n - s) / float(rng.uniform(2.4, 4.1)))
    else:
        raise ValueError(kind)
    register(gridder, bbox)
    return gridder, bbox, n_comp


def _stream_real(run, rng, vd, kind):
    gridder, bbox, n_comp = fit_real(rng, vd, kind)
    w, e, s, n = bbox
    for _ in range(7):
        kwargs = G.gen_grid_spec(rng, bbox)
        if "shape" in kwargs:
            kwargs["shape"] = tuple(min(v, 11) for v in kwargs["shape"])
        kwargs.update(G.gen_names(rng, n_comp))
        if rng.random() < 0.4:
            kwargs["region"] = [w - 0.1 * (e - w), e + 0.2 * (e - w), s + 0.1 * (n - s), n + 0.3 * (n - s)]
        if rng.random() < 0.35:
            # an affine map that keeps the points near the data (so predictions stay finite and well scaled)
            kwargs["projection"] = G.Affine(1.0, float(rng.uniform(-0.3, 0.3)), float(rng.uniform(-0.3, 0.3)), float(rng.uniform(0.6, 1.4)),
                                            0.05 * (e - w), -0.05 * (n - s))
        grid = gridder.grid(**G.spell_call(rng, kwargs))
    for _ in range(2):
        nn, ne = G.gen_shape(rng)
        nn, ne = min(nn, 10), min(ne, 10)
        e_vec, n_vec = G.gen_axis(rng, ne, w, e), G.gen_axis(rng, nn, s, n)
        coordinates = (e_vec, n_vec) if rng.random() < 0.5 else G.broadcast_mesh(e_vec, n_vec)
        gridder.grid(coordinates=coordinates, **G.gen_names(rng, n_comp))
    for _ in range(3):
        p1, p2 = gen_profile_points(rng, bbox)
        kwargs = G.gen_names(rng, n_comp)
        if rng.random() < 0.4:
            kwargs["projection"] = G.Affine(1.0, float(rng.uniform(-0.3, 0.3)), float(rng.uniform(-0.3, 0.3)), float(rng.uniform(0.6, 1.4)),
                                            0.05 * (e - w), -0.05 * (n - s))
        gridder.profile(G.spell_point(rng, p1), G.spell_point(rng, p2), G.spell_count(rng, rng.choice([2, 5, 12, 30])), **G.spell_call(rng, kwargs, inverse=True))
    for _ in range(3):
        kwargs = G.gen_names(rng, n_comp)
        if rng.random() < 0.5:
            kwargs["region"] = [w, w + 0.5 * (e - w), s + 0.25 * (n - s), n]
        if rng.random() < 0.3:
            kwargs["projection"] = G.Affine(1.0, 0.2, -0.1, 0.9, 0.0, 0.0)
        seed = int(rng.integers(0, 2 ** 31 - 1))
        first = gridder.scatter(size=G.spell_count(rng, rng.choice([2, 9, 40])), random_state=G.spell_seed(rng, seed), **G.spell_call(rng, kwargs))
        again = gridder.scatter(size=len(first), random_state=seed, **kwargs)
        run.evaluated("scatter_reproducible")
        if not all(_same(first[c].to_numpy(), again[c].to_numpy()) for c in first.columns):
            run.violation("scatter_reproducible", "two scatter() calls with the same random_state differ",
                          {"seed": seed, "gridder": repr(gridder)[:300], "first": first, "again": again}, key="scatter:not-reproducible")
    run.sample("real:" + kind, {"gridder": repr(gridder)[:300], "data_bounding_box": list(bbox), "last_grid_dims": {str(k): int(v) for k, v in grid.sizes.items()},
                                "last_grid_variables": [str(v) for v in grid.data_vars]})


def _stream_nested(run, rng, vd):
    """grid() as verde itself calls it: project_grid builds a Chain and grids it."""
    import xarray as xr

    nn, ne = int(rng.integers(5, 10)), int(rng.integers(5, 10))
    e_vec = np.linspace(-3.0, 4.0, ne) * float(rng.uniform(0.5, 2.0))
    n_vec = np.linspace(10.0, 16.0, nn) * float(rng.uniform(0.5, 2.0))
    values = 2.5 * e_vec[None, :] - 1.25 * n_vec[:, None] + 0.3 * e_vec[None, :] * n_vec[:, None]
    array = xr.DataArray(values, coords={"latitude": n_vec, "longitude": e_vec}, dims=("latitude", "longitude"),
                         name=None if rng.random() < 0.5 else "topography")
    projection = G.Affine(2.0, 0.25, -0.1, 1.5, 3.0, -7.0)
    for method in ("nearest", "linear"):
        vd.project_grid(array, projection, method=method, antialias=bool(rng.random() < 0.5))
        run.count("nested:project_grid")
    board = vd.synthetic.CheckerBoard(region=(0.0, 4000.0, -3000.0, 0.0), w_east=1700.0, w_north=900.0)
    register(board, (0.0, 4000.0, -3000.0, 0.0))
    board.grid(shape=(6, 9))
    board.scatter(size=25, random_state=int(rng.integers(0, 1000)))
    board.profile((100.0, -2500.0), (3900.0, -200.0), 15)


DEFAULTS_KINDS = REAL_KINDS + ["analytic", "analytic_latlon"]
DOCUMENTED_DEFAULTS = {
    "grid": {"region": None, "shape": None, "spacing": None, "dims": None, "data_names": None, "projection": None, "coordinates": None},
    "scatter": {"region": None, "size": 300, "random_state": 0, "dims": None, "data_names": None, "projection": None},
    "profile": {"dims": None, "data_names": None, "projection": None},
}


def _tables_equal(first, second):
    return list(first.columns) == list(second.columns) and len(first) == len(second) and \
        all(_same(first[c].to_numpy(), second[c].to_numpy()) for c in first.columns)


def _stream_defaults(run, rng, vd, kind):
    """
    Calls that rely on the documented defaults: scatter() / scatter(size=n) without random_state (documented: random_state=0,
    size=300), grid() with only shape or only spacing, profile(p1, p2, size) - each compared with the same call with the documented
    defaults spelled out (which the monitors judge argument by argument), with an independent reference where there is one, and
    with inspect.signature of the method of that very class.
    """
    import inspect

    if kind.startswith("analytic"):
        region, scale = G.gen_region(rng)
        gridder, n_comp = new_analytic(rng, scale, variant="latlon" if kind.endswith("latlon") else "default")
        w, e, s, n = region
        gridder.fit((np.array([w, e, 0.5 * (w + e)]), np.array([s, n, 0.5 * (s + n)])), None)
        bbox = region
        register(gridder, bbox)
    else:
        gridder, bbox, n_comp = fit_real(rng, vd, kind)
        register(gridder, bbox)
    cls = type(gridder).__name__
    run.count("class:defaults_gridder=" + cls)
    dims = tuple(type(gridder).dims)
    names = [("scalars",), ("east_component", "north_component"), ("east_component", "north_component", "vertical_component")][n_comp - 1]
    w, e, s, n = bbox

    def judge(what, ok, detail):
        run.evaluated("defaults_as_documented")
        if not ok:
            run.violation("defaults_as_documented", "%s on %s does not behave like the call with the documented defaults spelled out" % (what, cls),
                          dict(detail, gridder=repr(gridder)[:300], data_bounding_box=list(bbox)), key="defaults:" + what.split("(")[0] + ":" + cls)

    # ---- signatures of this class' methods
    for method, documented in DOCUMENTED_DEFAULTS.items():
        params = inspect.signature(getattr(type(gridder), method)).parameters
        found = {k: params[k].default for k in documented if k in params}
        run.evaluated("signature_defaults")
        if found != documented:
            run.violation("signature_defaults", "%s.%s has defaults %r, documented %r" % (cls, method, found, documented),
                          {"class": cls, "method": method}, key="signature:%s.%s" % (cls, method))
    # ---- scatter() and scatter(size=n): documented random_state=0, size=300
    first, again = gridder.scatter(), gridder.scatter()
    spelled = gridder.scatter(region=list(bbox), size=300, random_state=0, dims=dims, data_names=list(names), projection=None)
    stream = np.random.RandomState(0)
    want_e, want_n = stream.uniform(w, e, 300), stream.uniform(s, n, 300)
    ok = _tables_equal(first, again) and _tables_equal(first, spelled) and len(first) == 300 and dims[1] in first.columns and \
        np.allclose(first[dims[1]].to_numpy(), want_e, rtol=8 * EPS, atol=0) and np.allclose(first[dims[0]].to_numpy(), want_n, rtol=8 * EPS, atol=0)
    judge("scatter()", ok, {"first": first.head(5), "second_identical_call": again.head(5), "spelled_out": spelled.head(5),
                           "reference_easting": want_e[:5], "reference_northing": want_n[:5]})
    run.count("class:defaults_scatter_without_any_argument", 2)
    size = int(rng.choice([1, 7, 40]))
    first = gridder.scatter(size=size)
    spelled = gridder.scatter(region=tuple(bbox), size=size, random_state=0, dims=list(dims), data_names=tuple(names))
    stream = np.random.RandomState(0)
    want_e = stream.uniform(w, e, size)
    judge("scatter(size=n)", _tables_equal(first, spelled) and np.allclose(first[dims[1]].to_numpy(), want_e, rtol=8 * EPS, atol=0),
          {"size": size, "first": first.head(5), "spelled_out": spelled.head(5)})
    run.count("class:defaults_scatter_size_only")
    # ---- grid with only shape / only spacing
    shape = (int(rng.integers(2, 9)), int(rng.integers(2, 9)))
    first = gridder.grid(shape=shape)
    spelled = gridder.grid(region=list(bbox), shape=shape, dims=dims, data_names=list(names), projection=None, adjust="spacing", pixel_register=False)
    judge("grid(shape=...)", bool(first.identical(spelled)), {"shape": shape, "first": first, "spelled_out": spelled})
    run.count("class:defaults_grid_shape_only")
    spacing = (float((n - s) / rng.uniform(1.5, 7)), float((e - w) / rng.uniform(1.5, 7)))
    first = gridder.grid(spacing=spacing)
    spelled = gridder.grid(region=tuple(bbox), spacing=spacing, dims=list(dims), data_names=tuple(names), adjust="spacing", pixel_register=False)
    judge("grid(spacing=...)", bool(first.identical(spelled)), {"spacing": spacing, "first": first, "spelled_out": spelled})
    run.count("class:defaults_grid_spacing_only")
    # ---- profile(p1, p2, size)
    p1, p2 = gen_profile_points(rng, bbox)
    size = int(rng.choice([2, 9, 25]))
    first = gridder.profile(p1, p2, size)
    spelled = gridder.profile(p1, p2, size, dims=dims, data_names=list(names), projection=None)
    judge("profile(p1, p2, size)", _tables_equal(first, spelled), {"point1": p1, "point2": p2, "size": size, "first": first.head(5),
                                                                  "spelled_out": spelled.head(5)})
    run.count("class:defaults_profile_positional_only")
    run.sample("defaults:" + kind, {"gridder": repr(gridder)[:200], "default_dims": list(dims), "default_names": list(names),
                                    "scatter_without_arguments_head": gridder.scatter().head(3)})


LARGE_KINDS = ["shape_700x600", "spacing_1201x501", "projection_530x990", "trend_641x479", "scatter_profile_1e5", "pixel_603x701",
               "coordinates_517x509", "vector_389x677"]


def _stream_large(run, rng, vd, kind):
    """
    Large counts (> 2**18 nodes / > 1e5 points, row counts that are no multiple of small block heights): branches that exist only
    above a size threshold. The monitors compare EVERY node / row, the last rows and columns included.
    """
    region, scale = G.gen_region(rng)
    w, e, s, n = region
    gridder, n_comp = new_analytic(rng, scale, n_components=2 if kind == "shape_700x600" else None)
    gridder.fit((np.array([w, e]), np.array([s, n])), None)
    register(gridder, region)
    if kind == "shape_700x600":
        grid = gridder.grid(shape=(700, 600), **G.gen_names(rng, n_comp))
    elif kind == "spacing_1201x501":
        grid = gridder.grid(spacing=((n - s) / 1200, (e - w) / 500), extra_coords=0.0)
    elif kind == "projection_530x990":
        grid = gridder.grid(shape=(530, 990), projection=G.spell_projection(rng, G.gen_projection(rng, region)), extra_coords=[3.5])
    elif kind == "pixel_603x701":
        grid = gridder.grid(region=[w, e + 0.3 * (e - w), s, n], shape=(603, 701), pixel_register=True, dims=("lat", "lon"))
    elif kind == "coordinates_517x509":
        e_vec, n_vec = G.gen_axis(rng, 509, w, e), G.gen_axis(rng, 517, s, n)
        coordinates = (e_vec, n_vec) if rng.random() < 0.5 else G.broadcast_mesh(e_vec, n_vec)
        grid = gridder.grid(coordinates=coordinates, projection=G.gen_projection(rng, region) if rng.random() < 0.5 else None)
    elif kind in ("trend_641x479", "vector_389x677"):
        east, north = gen.cloud(rng, 60, scale=gen.log_uniform(rng, 1e-1, 1e5), offset_factor=float(rng.choice([0.0, 1.0, 30.0])))
        data = gen.smooth_field(rng, east, north, amplitude=gen.log_uniform(rng, 1e-1, 1e3))
        if kind == "trend_641x479":
            real = vd.Trend(degree=2).fit((east, north), data)
            shape = (641, 479)
        else:
            real = vd.Vector([vd.Trend(degree=1), vd.Trend(degree=2)]).fit((east, north), (data, gen.smooth_field(rng, east, north)))
            shape = (389, 677)
        register(real, (east.min(), east.max(), north.min(), north.max()))
        grid = real.grid(shape=shape)
    else:
        table = gridder.scatter(size=150001, random_state=int(rng.integers(0, 2 ** 31 - 1)), projection=G.gen_projection(rng, region))
        p1, p2 = gen_profile_points(rng, region)
        table = gridder.profile(p1, p2, 120001, projection=G.gen_projection(rng, region) if rng.random() < 0.5 else None)
        run.count("class:large_scatter_and_profile_over_1e5_points")
        run.sample("large:" + kind, {"rows": len(table), "columns": [str(c) for c in table.columns]})
        return
    nodes = int(np.prod([grid.sizes[d] for d in grid.sizes]))
    run.count("class:large_grid_over_2**18_nodes" if nodes > 2 ** 18 else "class:large_grid_smaller_than_intended")
    run.count("class:large_" + kind)
    run.sample("large:" + kind, {"sizes": {str(k): int(v) for k, v in grid.sizes.items()}, "variables": [str(v) for v in grid.data_vars]})


def _stream_threads(run, rng, index):
    """
    Concurrent calls on ONE gridder instance: several threads call grid / scatter / profile at the same time with different regions
    (same shape) and different projections; predict() of the gridder waits at a rendezvous so that the calls overlap. Every return is
    judged by the monitors on its own (its own region's coordinate vectors, its own nodes' values).
    """
    from .. import core

    region, scale = G.gen_region(rng)
    w, e, s, n = region
    gridder, n_comp = new_analytic(rng, scale)
    gridder.fit((np.array([w, e]), np.array([s, n])), None)
    register(gridder, region)
    n_threads = int(rng.choice([2, 3, 4]))
    mode = ["grid", "scatter", "profile", "mixed", "grid_large"][index % 5]
    # about half of the cases: GIL hand-offs injected at random statement starts inside the verde sources (no large grids: 3-15x
    # slower); of those, half rely on the injection alone (no rendezvous inside predict)
    inject = mode != "grid_large" and index % 2 == 1
    if mode != "grid_large" and not (inject and index % 4 == 1):
        G.SYNC[gridder] = G.Rendezvous(n_threads, timeout=0.05)
    shape = (int(rng.integers(3, 12)), int(rng.integers(3, 12))) if mode != "grid_large" else (300, 401)
    size = int(rng.choice([5, 20, 60]))
    calls = []
    for k in range(n_threads):
        shift_e, shift_n = (k + 1) * 1.37 * (e - w), -(k + 1) * 0.61 * (n - s)
        box = [w + shift_e, e + shift_e + 0.2 * k * (e - w), s + shift_n, n + shift_n + 0.1 * k * (n - s)]
        projection = G.spell_projection(rng, G.gen_projection(rng, box)) if rng.random() < 0.7 else None
        extra = [float(k), 10.0 * k] if rng.random() < 0.5 else None
        which = mode if mode in ("grid", "scatter", "profile") else ("grid" if mode == "grid_large" else ["grid", "scatter", "profile"][k % 3])
        if which == "grid":
            kwargs = dict(region=box, shape=shape, projection=projection, pixel_register=bool(k % 2))
            if extra is not None:
                kwargs["extra_coords"] = extra
            if k >= 1:
                kwargs["dims"] = ("lat_%d" % k, "lon_%d" % k)
            calls.append(lambda kwargs=kwargs: gridder.grid(**kwargs))
        elif which == "scatter":
            kwargs = dict(region=box, size=size, random_state=int(rng.integers(0, 2 ** 31 - 1)), projection=projection)
            if extra is not None:
                kwargs["extra_coords"] = extra
            calls.append(lambda kwargs=kwargs: gridder.scatter(**kwargs))
        else:
            p1, p2 = gen_profile_points(rng, box)
            kwargs = dict(projection=projection)
            if extra is not None:
                kwargs["extra_coords"] = extra
            calls.append(lambda p1=p1, p2=p2, kwargs=kwargs: gridder.profile(p1, p2, size, **kwargs))
        run.count("class:threads_call_" + which)

    def quiet(fn):
        def inner():
            with warnings.catch_warnings():
                warnings.simplefilter("ignore")
                return fn()
        return inner

    rounds = 4 if mode != "grid_large" else 2
    results = core.run_threads([quiet(fn) for fn in calls], rounds=rounds, timeout=100, yield_probability=0.25 if inject else 0.0, seed=index)
    if inject:
        run.count("class:threads_cases_with_injected_yields")
        run.count("yields_injected", getattr(core.run_threads, "yields_injected", 0) - run.counters.get("yields_injected", 0))
    sync = G.SYNC.pop(gridder, None)
    if sync is not None:
        run.count("class:threads_predict_calls_overlapped", sync.met)
    run.count("class:threads_mode_" + mode)
    run.count("class:threads_concurrent_calls", len(calls) * rounds)
    for _, exc in results:
        if isinstance(exc, TimeoutError):
            run.note_inconclusive("threads: a concurrent call did not finish: %s" % exc)
        elif exc is not None:
            raise exc
    run.sample("threads:" + mode, {"threads": n_threads, "rounds": rounds, "shape": list(shape), "mode": mode,
                                   "predict_rendezvous_met": None if sync is None else sync.met})


HISTORY_KINDS = ["analytic", "analytic", "spline", "analytic", "trend", "analytic", "chain", "analytic"]
HISTORY_OPTIONS = ["dims", "data_names", "projection", "region", "extra_coords"]
GRID_MODES = ["shape", "coordinates_1d", "spacing_adjust_region", "shape_pixel", "coordinates_2d", "spacing_adjust_spacing", "spacing_pixel"]


def _overwrite_returned(run, result):
    """Scribble over everything a call returned: a cached buffer handed out twice would carry this into the next result."""
    import pandas as pd
    import xarray as xr

    if isinstance(result, xr.Dataset):
        for name in list(result.data_vars) + [c for c in result.coords if result.coords[c].ndim == 2]:
            try:
                result[name].values[...] = -9.25e4
            except ValueError:
                run.count("observed:returned_array_read_only")
        for name in [c for c in result.coords if result.coords[c].ndim == 1]:
            values = result.coords[name].values
            if values.flags.writeable:
                values[...] = 4.5e6
    elif isinstance(result, pd.DataFrame):
        for name in result.columns:
            values = result[name].to_numpy()
            if values.flags.writeable:
                values[...] = -7.75e3
        result.iloc[:, :] = -7.75e3
    run.count("class:history_returned_arrays_overwritten")


def _stream_history(run, rng, vd, kind):
    """
    ONE gridder object, a sequence of grid / profile / scatter calls in which every optional argument is given in some calls and
    omitted in the next ones, with refits on data of another bounding box in between, explicit coordinate arrays edited in place
    between calls and every returned array overwritten before the next call. Each return is judged against its own arguments.
    """
    region, scale = G.gen_region(rng)
    if kind != "analytic":
        extent = gen.log_uniform(rng, 1e-1, 1e5)
        west, south = float(rng.choice([0.0, 1.0, -30.0])) * extent, float(rng.choice([0.0, -1.0, 30.0])) * extent
        region = (west, west + extent * float(rng.uniform(0.5, 2.0)), south, south + extent * float(rng.uniform(0.5, 2.0)))
        scale = extent

    def make():
        mindist = scale * 1e-3
        if kind == "analytic":
            return new_analytic(rng, scale)
        if kind == "spline":
            gridder = vd.Spline(damping=1e-3, mindist=mindist)
        elif kind == "trend":
            gridder = vd.Trend(degree=2)
        else:
            gridder = vd.Chain([("trend", vd.Trend(degree=1)), ("spline", vd.Spline(damping=1e-3, mindist=mindist))])
        register(gridder)
        return gridder, 1

    def fit(gridder, box):
        w, e, s, n = box
        pts_e = np.concatenate([[w, e], rng.uniform(w, e, 26)])
        pts_n = np.concatenate([rng.uniform(s, n, 26), [s, n]])
        gridder.fit((pts_e, pts_n), gen.smooth_field(rng, pts_e, pts_n, amplitude=gen.log_uniform(rng, 1e-1, 1e3)))
        register(gridder, (pts_e.min(), pts_e.max(), pts_n.min(), pts_n.max()))

    def projection_for(box):
        if kind == "analytic":
            return G.gen_projection(rng, box)
        w, e, s, n = box
        return G.Affine(1.0, float(rng.uniform(-0.3, 0.3)), float(rng.uniform(-0.3, 0.3)), float(rng.uniform(0.6, 1.4)), 0.05 * (e - w), -0.05 * (n - s))

    gridder, n_comp = make()
    fit(gridder, region)
    given = dict.fromkeys(HISTORY_OPTIONS, False)
    mode_at = int(rng.integers(0, len(GRID_MODES)))
    last_mode = None
    # persistent explicit coordinates (the same ndarray objects for the whole history)
    nn, ne = G.gen_shape(rng, lo=3)
    nn, ne = max(nn, 3), max(ne, 3)
    if kind != "analytic":
        nn, ne = min(nn, 9), min(ne, 9)
    e_vec, n_vec = G.gen_axis(rng, ne, region[0], region[1]), G.gen_axis(rng, nn, region[2], region[3])
    extra_arr = G.encode_extra(0, (nn, ne))
    mesh = list(G.broadcast_mesh(e_vec, n_vec))
    used_coordinates = False
    last_applied = {}
    for step in range(18):
        if step in (6, 12):
            # refit the SAME object on data with another bounding box: the default region must follow the latest fit
            w, e, s, n = region
            region = (w + 0.37 * (e - w), e + 0.83 * (e - w), s - 1.21 * (n - s), n - 0.29 * (n - s))
            fit(gridder, region)
            given["region"] = True  # so that the flip below omits it right after the refit
            run.count("class:history_refit_other_bounding_box")
        for option in HISTORY_OPTIONS:
            if option == "region" and step in (6, 12):
                given[option] = False
            elif rng.random() < 0.6:
                given[option] = not given[option]
        method = str(rng.choice(["grid", "grid", "profile", "scatter"]))
        w, e, s, n = region
        kwargs = {}
        names = G.gen_names(rng, n_comp)
        if given["dims"]:
            dims = G.DIM_CHOICES[int(rng.integers(0, len(G.DIM_CHOICES)))]
            kwargs["dims"] = list(dims) if rng.random() < 0.5 else tuple(dims)
        if given["data_names"]:
            chosen = [str(v) for v in rng.choice(G.NAME_POOL, size=n_comp, replace=False)]
            kwargs["data_names"] = chosen if (n_comp > 1 or rng.random() < 0.5) else chosen[0]
        del names
        sub = [w + 0.11 * (e - w), e - 0.07 * (e - w), s + 0.23 * (n - s), n + 0.31 * (n - s)]
        if given["projection"]:
            kwargs["projection"] = projection_for(region)
        if method == "grid":
            mode = GRID_MODES[mode_at % len(GRID_MODES)]
            mode_at += 1
            if mode.startswith("coordinates"):
                if used_coordinates:
                    # edit the SAME arrays in place: new interior nodes between the same end points, or the mirrored axis
                    if rng.random() < 0.5:
                        e_vec[1:-1] = G.gen_axis(rng, ne, e_vec[0], e_vec[-1])[1:-1] if e_vec[0] < e_vec[-1] else \
                            G.gen_axis(rng, ne, e_vec[-1], e_vec[0])[::-1][1:-1]
                        n_vec[1:-1] = np.sort(rng.uniform(min(n_vec[0], n_vec[-1]), max(n_vec[0], n_vec[-1]), nn - 2))[::(1 if n_vec[0] < n_vec[-1] else -1)]
                    else:
                        e_vec[:] = e_vec[::-1].copy()
                        n_vec[:] = n_vec[::-1].copy()
                    extra_arr[...] = extra_arr[::-1, ::-1].copy() - 3.0
                    fresh = G.broadcast_mesh(e_vec, n_vec)
                    mesh[0][...] = fresh[0]
                    mesh[1][...] = fresh[1]
                    run.count("class:history_coordinates_edited_in_place")
                used_coordinates = True
                coordinates = (e_vec, n_vec) if mode == "coordinates_1d" else (mesh[0], mesh[1])
                if given["extra_coords"]:
                    coordinates = coordinates + (extra_arr,)
                kwargs["coordinates"] = coordinates
            else:
                if mode.startswith("shape"):
                    kwargs["shape"] = G.gen_shape(rng) if kind == "analytic" else tuple(min(v, 9) for v in G.gen_shape(rng))
                else:
                    kwargs["spacing"] = (float((n - s) / rng.uniform(1.5, 9)), float((e - w) / rng.uniform(1.5, 9)))
                    if "adjust" in mode:
                        kwargs["adjust"] = mode.rsplit("_", 1)[1]
                if mode.endswith("pixel"):
                    kwargs["pixel_register"] = True
                if given["region"]:
                    kwargs["region"] = sub
                if given["extra_coords"]:
                    kwargs["extra_coords"] = [11.5, -3.25] if rng.random() < 0.5 else 42.0
            if last_mode is not None and last_mode.startswith("coordinates") and not mode.startswith("coordinates"):
                run.count("class:history_grid_coordinates_then_shape_or_spacing")
            if last_mode is not None and last_mode.endswith("pixel") and not mode.endswith("pixel") and not mode.startswith("coordinates"):
                run.count("class:history_grid_pixel_register_then_default")
            last_mode = mode
            G.spell_call(rng, kwargs)
            call = lambda: gridder.grid(**kwargs)  # noqa: E731
        elif method == "profile":
            p1, p2 = gen_profile_points(rng, region)
            if given["extra_coords"]:
                kwargs["extra_coords"] = 7.5
            size = G.spell_count(rng, rng.choice([1, 2, 6, 15]))
            p1, p2 = G.spell_point(rng, p1), G.spell_point(rng, p2)
            G.spell_call(rng, kwargs, inverse=True)
            call = lambda: gridder.profile(p1, p2, size, **kwargs)  # noqa: E731
        else:
            if given["region"]:
                kwargs["region"] = sub
            if given["extra_coords"]:
                kwargs["extra_coords"] = [1.5, -2.25]
            size, seed = G.spell_count(rng, rng.choice([3, 12, 40])), G.spell_count(rng, rng.integers(0, 2 ** 31 - 1))
            G.spell_call(rng, kwargs)
            call = lambda: gridder.scatter(size=size, random_state=seed, **kwargs)  # noqa: E731
        result = call()
        if rng.random() < 0.3:
            # the identical call again after the first result was scribbled over: a buffer cached and handed out twice shows here
            _overwrite_returned(run, result)
            result = call()
            run.count("class:history_identical_call_repeated_after_overwrite")
        # which options this call could take and whether it was given them (None = not applicable to this call)
        explicit = "coordinates" in kwargs
        applied = {"dims": "dims" in kwargs, "data_names": "data_names" in kwargs, "projection": "projection" in kwargs,
                   "region": None if (method == "profile" or explicit) else "region" in kwargs,
                   "extra_coords": len(kwargs["coordinates"]) > 2 if explicit else "extra_coords" in kwargs}
        for option, now in applied.items():
            if now is None:
                continue
            if last_applied.get(option) and not now:
                run.count("class:history_%s_given_then_omitted" % option)
            last_applied[option] = now
        run.count("class:history_call_%s" % method)
        _overwrite_returned(run, result)
    run.count("class:history_gridder=" + kind)
    run.sample("history:" + kind, {"gridder": repr(gridder)[:300], "calls": 18, "final_default_region": list(region),
                                   "last_call": {k: (v.describe() if hasattr(v, "describe") else (repr(v)[:120] if k == "coordinates" else v))
                                                 for k, v in kwargs.items()}})


LEVEL_TEXT = (
    "Every return of BaseGridder.grid / .profile / .scatter and CheckerBoard.scatter produced by the workload (direct, or nested inside "
    "project_grid) is judged: coordinate vectors against an exact-rational reference of regular coordinates, every cell / row value against the "
    "closed form of an asymmetric analytic gridder (or predict re-evaluated on a shuffled point list for fitted gridders), projected and "
    "unprojected spaces kept apart by anisotropic sheared and monotone nonlinear projections, names and metadata compared literally. Held means "
    "'no refutation among the monitored executions', not a proof."
)
LEVEL_NOTE = (
    "Trusted: vmon.ref.check_line for regular coordinates, numpy.random.RandomState as the definition of reproducible uniform draws, predict() "
    "of fitted gridders as the definition of 'the prediction' (its correctness is C03/C04). Default regions are the bounding boxes computed by the "
    "workload from the data it fitted, not the gridders' region_ attribute."
)
TECHNIQUE = ("runtime postcondition monitors on the class-level methods (all gridders, nested uses included) with a closed-form asymmetric field "
             "and an exact-rational coordinate reference; seeded random workload")
