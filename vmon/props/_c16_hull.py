"""
C16 reference side: exact convex hull of float points (integer arithmetic on the exact binary values of the
floats - the same decision procedure as ``ref.convex_hull``, which uses Fractions and is used to cross-check
this one on small inputs), exact inside/boundary/outside classification, and the signed distance to the
hull in the per-axis normalised frame (each axis divided by the extent of the data) that defines the
either-way band "within 1e-9 hull diameters of the boundary". Nothing here imports verde or scipy.
"""
import numpy as np

from .. import ref

EPS = ref.EPS
MARGIN = 1e-9  # hull diameters


def _common_ints(*arrays):
    """Exact integers proportional (one common positive factor) to the float values of all arrays."""
    ratios = [[float(v).as_integer_ratio() for v in np.asarray(a, dtype="float64").ravel()] for a in arrays]
    den = 1
    for rs in ratios:
        for _, d in rs:
            if d > den:
                den = d
    return [[n * (den // d) for n, d in rs] for rs in ratios]


def hull_indices(xi, yi):
    """Andrew monotone chain on exact integers; returns the counter-clockwise hull as a list of (x, y) ints."""
    pts = sorted(set(zip(xi, yi)))
    if len(pts) <= 2:
        return pts

    def cross(o, a, b):
        return (a[0] - o[0]) * (b[1] - o[1]) - (a[1] - o[1]) * (b[0] - o[0])

    lower = []
    for p in pts:
        while len(lower) >= 2 and cross(lower[-2], lower[-1], p) <= 0:
            lower.pop()
        lower.append(p)
    upper = []
    for p in reversed(pts):
        while len(upper) >= 2 and cross(upper[-2], upper[-1], p) <= 0:
            upper.pop()
        upper.append(p)
    return lower[:-1] + upper[:-1]


class Hull:
    """
    Exact hull of the data points plus the float geometry used for the either-way band.

    degenerate: fewer than three hull vertices (all points collinear or coincident).
    """

    def __init__(self, x, y):
        x = np.asarray(x, dtype="float64").ravel()
        y = np.asarray(y, dtype="float64").ravel()
        self.x, self.y = x, y
        self.finite = bool(np.all(np.isfinite(x)) and np.all(np.isfinite(y))) and x.size > 0
        self.degenerate = True
        self.vertices = []
        if not self.finite:
            return
        xi, yi = _common_ints(x)[0], _common_ints(y)[0]
        # per-axis integer scaling keeps orientation signs (positive diagonal map)
        self._xden = max(float(v).as_integer_ratio()[1] for v in x)
        self._yden = max(float(v).as_integer_ratio()[1] for v in y)
        hull = hull_indices(xi, yi)
        self._hull_int = hull
        self.vertices = [(hx / self._xden, hy / self._yden) for hx, hy in hull]  # exact: these are the original floats
        self.degenerate = len(hull) < 3
        self.x0, self.y0 = float(x.min()), float(y.min())
        self.sx, self.sy = float(x.max() - x.min()), float(y.max() - y.min())
        if self.sx == 0 or self.sy == 0:
            self.degenerate = True
        if self.degenerate:
            return
        self.vx = np.array([(v[0] - self.x0) / self.sx for v in self.vertices])
        self.vy = np.array([(v[1] - self.y0) / self.sy for v in self.vertices])
        dx = self.vx[:, None] - self.vx[None, :]
        dy = self.vy[:, None] - self.vy[None, :]
        self.diameter = float(np.sqrt(dx * dx + dy * dy).max())
        # width: smallest extent of the hull across one of its edges (normalised frame)
        widths = []
        m = len(self.vertices)
        for k in range(m):
            ex, ey = self.vx[(k + 1) % m] - self.vx[k], self.vy[(k + 1) % m] - self.vy[k]
            length = np.hypot(ex, ey)
            if length == 0:
                continue
            widths.append(float(np.max((ex * (self.vy - self.vy[k]) - ey * (self.vx - self.vx[k])) / length)))
        self.width = min(widths) if widths else 0.0
        self.thin_ratio = self.width / self.diameter if self.diameter > 0 else 0.0

    def cross_check(self):
        """Same vertex set as ref.convex_hull (Fractions)? Only affordable for small inputs."""
        want = ref.convex_hull(zip(self.x, self.y))
        got = sorted((ref.frac(a), ref.frac(b)) for a, b in self.vertices)
        return sorted(want) == got

    def depth(self, qx, qy):
        """Signed distance to the hull boundary in the normalised frame (positive inside), float64."""
        qx = (np.asarray(qx, dtype="float64").ravel() - self.x0) / self.sx
        qy = (np.asarray(qy, dtype="float64").ravel() - self.y0) / self.sy
        return ref.hull_signed_distances(list(zip(self.vx, self.vy)), qx, qy)

    def margin(self, qx, qy, extra=0.0, eps=EPS):
        """Either-way band: 1e-9 hull diameters plus the round-off of evaluating distances at these magnitudes."""
        qx = np.asarray(qx, dtype="float64")
        qy = np.asarray(qy, dtype="float64")
        mag = max(np.max(np.abs(self.x)) / self.sx, np.max(np.abs(self.y)) / self.sy,
                  (np.max(np.abs(qx)) / self.sx) if qx.size else 0.0, (np.max(np.abs(qy)) / self.sy) if qy.size else 0.0)
        return MARGIN * self.diameter + 16 * eps * mag + extra

    def classify(self, qx, qy, extra=0.0, eps=EPS):
        """(must_be_inside, must_be_outside, either, depth, margin) boolean arrays over the raveled queries."""
        depth = self.depth(qx, qy)
        margin = self.margin(qx, qy, extra, eps)
        inside = depth > margin
        outside = depth < -margin
        return inside, outside, ~(inside | outside), depth, margin

    def classify_exact(self, qx, qy):
        """+1 strictly inside, 0 exactly on the boundary, -1 strictly outside: exact integer orientation tests."""
        qx = np.asarray(qx, dtype="float64").ravel()
        qy = np.asarray(qy, dtype="float64").ravel()
        qxden = max([float(v).as_integer_ratio()[1] for v in qx] + [self._xden])
        qyden = max([float(v).as_integer_ratio()[1] for v in qy] + [self._yden])
        fx, fy = qxden // self._xden, qyden // self._yden
        hull = [(hx * fx, hy * fy) for hx, hy in self._hull_int]
        out = np.empty(qx.size, dtype=int)
        m = len(hull)
        for k in range(qx.size):
            nx, dx = float(qx[k]).as_integer_ratio()
            ny, dy = float(qy[k]).as_integer_ratio()
            px, py = nx * (qxden // dx), ny * (qyden // dy)
            sign = 1
            for j in range(m):
                ax, ay = hull[j]
                bx, by = hull[(j + 1) % m]
                c = (bx - ax) * (py - ay) - (by - ay) * (px - ax)
                if c < 0:
                    sign = -1
                    break
                if c == 0:
                    sign = 0
            out[k] = sign
        return out
