"""
Workloads of the C12 check: seeded hostile datasets, estimators, cross-validators, scorers and the
schedule exploration of the dask.delayed score lists.
"""
import sys
import warnings

import numpy as np

from .. import gen
from . import _c12_mon as M
from . import _c12_ref as R

S = M.S
SCORINGS = [None, "r2", "neg_mean_squared_error", "neg_root_mean_squared_error", "neg_mean_absolute_error", "callable"]
SCHEDULES = ["synchronous", "threads-2", "threads-4", "threads-16", "threads-4-reversed", "threads-4-random",
             "one-at-a-time-synchronous", "one-at-a-time-threads-4"]


# --------------------------------------------------------------------------
# generators
# --------------------------------------------------------------------------
ARRAY_LAYOUTS = ("C", "fortran", "transposed_view", "strided", "negative_stride", "readonly_C", "readonly_fortran")


def lay_out(logical, kind):
    """
    The logical 2-D array (row identity = its C / row-major ravel) in another memory layout.
    np.ravel(result) (C order) is always np.ravel(logical); only the strides / flags differ.
    """
    if kind == "C":
        out = np.ascontiguousarray(logical).copy()
    elif kind == "fortran":
        out = np.asfortranarray(logical).copy(order="F")
    elif kind == "transposed_view":  # F-contiguous *view* of a C-contiguous buffer holding the transpose
        out = np.ascontiguousarray(logical.T).T
    elif kind == "strided":
        big = np.full((logical.shape[0] * 2, logical.shape[1] * 3), -777.0)
        big[1::2, 2::3] = logical
        out = big[1::2, 2::3]
    elif kind == "negative_stride":
        out = np.ascontiguousarray(logical[::-1, ::-1])[::-1, ::-1]
    elif kind == "readonly_C":
        out = np.ascontiguousarray(logical).copy()
        out.setflags(write=False)
    elif kind == "readonly_fortran":
        out = np.asfortranarray(logical).copy(order="F")
        out.setflags(write=False)
    else:
        raise ValueError(kind)
    assert out.shape == logical.shape and np.array_equal(np.ravel(out), np.ravel(logical))
    return out


def make_dataset(rng, run, ncomp=None, weighted=None, single=False, nmax=None, away_from_blocks=None):
    """
    Unique coordinates, noisy multi-component data, per-component distinct weights, hostile layouts.

    Half of the datasets are 1-D (contiguous / strided / read-only); the other half are gridded 2-D
    (both dimensions > 1, non-square) and every coordinate, data-component and weight-component array
    draws its memory layout independently (C, Fortran, transposed view, strided, negative strides,
    read-only). Row identity on the reference side is the C ravel of the logical arrays.
    """
    nmax = nmax or (80 if run.tier == "quick" else 100)
    shape2d = None
    layout = str(rng.choice(["1d", "1d", "strided", "readonly", "2d", "2d", "2d", "2d"]))
    if layout == "2d":
        while True:
            shape2d = (int(rng.integers(4, 11)), int(rng.integers(4, 13)))
            if shape2d[0] != shape2d[1] and 36 <= shape2d[0] * shape2d[1] <= nmax:
                break
        n = shape2d[0] * shape2d[1]
    else:
        n = int(rng.integers(36, nmax + 1))
    scale = gen.log_uniform(rng, 1e-2, 1e5)
    offset = float(rng.choice([0.0, 1.0, 30.0]))
    if layout == "2d" and rng.random() < 0.4:
        # a real (slightly irregular) mesh: easting varies along axis 1, northing along axis 0
        layout_points = "mesh"
        ge = np.sort(rng.uniform(0, 1, shape2d[1])) + np.arange(shape2d[1]) * 0.2
        gn = np.sort(rng.uniform(0, 1, shape2d[0])) + np.arange(shape2d[0]) * 0.2
        ee, nn_ = np.meshgrid(ge, gn)
        jit = 0.02 * rng.uniform(-1, 1, (2,) + shape2d)
        sign = rng.choice([-1.0, 1.0], 2)
        east = ((ee + jit[0]) / ge.max() + offset * sign[0]).ravel() * scale
        north = ((nn_ + jit[1]) / gn.max() + offset * sign[1]).ravel() * scale
    else:
        layout_points = "cloud"
        east, north = gen.cloud(rng, n, scale=scale, offset_factor=offset)
    if ncomp is None:
        ncomp = 1 if single else int(rng.choice([1, 1, 1, 2, 3]))
    if weighted is None:
        weighted = bool(rng.random() < 0.6)
    extra = bool(rng.random() < 0.3)
    coords = [east, north] + ([rng.uniform(-1, 1, n) * scale] if extra else [])
    data = []
    for _ in range(ncomp):
        amp = gen.log_uniform(rng, 1e-2, 1e4)
        field = gen.smooth_field(rng, east, north, amplitude=amp)
        noise = rng.uniform(0.15, 0.6) * (np.std(field) or amp) * rng.normal(size=n)
        data.append(field + noise + amp * rng.normal())
    weights = None
    if weighted:
        weights = [10 ** rng.uniform(-1.5, 1.0, n) for _ in range(ncomp)]
    ds = R.Dataset(coords, data, weights)
    used = []

    def present(a, role):
        if layout == "2d":
            kind = str(rng.choice(ARRAY_LAYOUTS))
            used.append(kind)
            run.count("class:array_layout:" + kind)
            run.count("class:array_layout:%s:%s" % (role, "C-ravel-is-memory-order" if kind in ("C", "readonly_C") else "other-memory-order"))
            return lay_out(a.reshape(shape2d), kind)
        if layout == "strided":
            big = np.full(a.size * 2, -777.0)
            big[::2] = a
            return big[::2]
        if layout == "readonly":
            b = a.copy()
            b.setflags(write=False)
            return b
        return a.copy()

    p_coords = tuple(present(c, "coordinate") for c in ds.coordinates)
    p_data = tuple(present(d, "data") for d in ds.data)
    p_weights = None if weights is None else tuple(present(w, "weights") for w in ds.weights)
    if ncomp == 1:
        p_data = p_data[0]
        p_weights = None if p_weights is None else p_weights[0]
    run.count("class:layout:" + layout)
    if layout == "2d":
        run.count("class:layout:2d:" + layout_points)
        memory_orders = {"C" if k in ("C", "readonly_C") else ("F" if k in ("fortran", "transposed_view", "readonly_fortran") else "S") for k in used}
        if len(memory_orders) > 1:
            run.count("class:layout:2d:arrays_in_different_memory_orders")
    run.count("class:components:%d" % ncomp)
    run.count("class:weights:" + ("per_component" if weighted else "none"))
    if extra:
        run.count("class:extra_coordinate")
    info = {"n": n, "layout": layout, "shape": shape2d, "array_layouts": used, "components": ncomp, "weighted": weighted,
            "extra_coordinate": extra, "scale": scale}
    return ds, p_coords, p_data, p_weights, info


def make_estimator(rng, run, vd, ncomp):
    def single(allowed=("trend", "spline", "knn1", "knn3", "chain", "chain_knn")):
        kind = str(rng.choice(allowed))
        if kind == "trend":
            return vd.Trend(degree=int(rng.integers(1, 4))), "Trend"
        if kind == "spline":
            if rng.random() < 0.3:
                value = [1, 2, 10][int(rng.integers(0, 3))]
                damping = [int, np.int64, float][int(rng.integers(0, 3))](value)
                run.count("class:spline_damping_spelling:integral_as_" + type(damping).__name__)
            else:
                damping = float(10 ** rng.uniform(-4, 0))
                if rng.random() < 0.3:
                    damping = np.float64(damping)
                run.count("class:spline_damping_spelling:" + type(damping).__name__)
            return vd.Spline(damping=damping), "Spline"
        if kind == "knn1":
            return vd.KNeighbors(k=1), "KNeighbors(k=1)"
        if kind == "knn3":
            return vd.KNeighbors(k=3, reduction=np.median if rng.random() < 0.5 else np.mean), "KNeighbors(k=3)"
        if kind == "chain":
            return vd.Chain([("trend", vd.Trend(degree=1)), ("spline", vd.Spline(damping=float(10 ** rng.uniform(-3, 0))))]), "Chain(Trend,Spline)"
        if kind == "nested_chain":
            inner = vd.Chain([("trend", vd.Trend(degree=1)), ("spline", vd.Spline(damping=float(10 ** rng.uniform(-2, 0))))])
            return vd.Chain([("inner", inner), ("knn", vd.KNeighbors(k=int(rng.integers(1, 4))))]), "Chain(Chain(Trend,Spline),KNeighbors)"
        return vd.Chain([("trend", vd.Trend(degree=2)), ("knn", vd.KNeighbors(k=1))]), "Chain(Trend,KNeighbors)"

    with warnings.catch_warnings():
        warnings.simplefilter("ignore")
        if ncomp == 1:
            pick = ("knn1", "knn1", "knn1", "trend", "spline", "spline", "knn3", "chain", "chain_knn", "nested_chain")
            est, label = single(pick)
        else:
            comps = [single(("trend", "spline", "knn1", "knn1", "chain"))[0] for _ in range(ncomp)]
            est, label = vd.Vector(comps), "Vector"
            if rng.random() < 0.3:
                est, label = vd.Chain([("vector", est)]), "Chain(Vector)"
    run.count("class:estimator:" + label)
    return est, label


RS_KINDS = ("int", "None", "RandomState")


def make_cv(rng, run, vd, ds, allow_default=True, max_splits=6, rs_kind_wanted=None):
    """-> (factory of RecordingCV | None, label, n_splits). Every test set has >= 3 rows, every train set >= 12."""
    from sklearn.model_selection import KFold, ShuffleSplit

    feat = np.transpose([ds.coordinates[0], ds.coordinates[1]])
    for _ in range(40):
        kind = str(rng.choice(["kfold", "shuffle", "blockkfold", "blockshuffle", "thin", "default"]))
        seed = int(rng.integers(0, 2 ** 31 - 1))
        thin = 0.0
        rs_kind = RS_KINDS[int(rng.integers(0, 3))] if rs_kind_wanted is None else rs_kind_wanted
        randomised = True

        def rs(seed=seed, rs_kind=rs_kind):
            """The random_state of the cross-validator, equally seeded on every call (so that a replay is well defined)."""
            if rs_kind == "int":
                return seed
            if rs_kind == "RandomState":
                return np.random.RandomState(seed % (2 ** 32))
            np.random.seed(seed % (2 ** 32))  # None: numpy's global generator, re-seeded right before the cross-validator is used
            return None

        if kind == "default":
            if not allow_default or rng.random() < 0.5:
                continue
            run.count("class:cv:default(None)")
            return (lambda how=None: None), "None", 5
        if kind in ("kfold", "thin"):
            k, shuffle = int(rng.integers(2, max_splits + 1)), bool(rng.random() < 0.7)
            make = lambda k=k, shuffle=shuffle, rs=rs: KFold(n_splits=k, shuffle=shuffle, random_state=rs() if shuffle else None)  # noqa: E731
            randomised = shuffle
            label = "KFold(%d,shuffle=%s)" % (k, shuffle)
            if kind == "thin":
                thin, label = 0.25, "Thinned" + label
        elif kind == "shuffle":
            k, ts = int(rng.integers(2, max_splits)), float(rng.uniform(0.1, 0.5))
            make = lambda k=k, ts=ts, rs=rs: ShuffleSplit(n_splits=k, test_size=ts, random_state=rs())  # noqa: E731
            label = "ShuffleSplit(%d,%.2f)" % (k, ts)
        else:
            if rng.random() < 0.5:
                kw = {"shape": (int(rng.integers(2, 5)), int(rng.integers(2, 5)))}
            else:
                ext = min(np.ptp(ds.coordinates[0]), np.ptp(ds.coordinates[1]))
                kw = {"spacing": float(ext / rng.uniform(1.6, 4.4))}
            if kind == "blockkfold":
                k = int(rng.integers(2, 5))
                shuffle, balance = bool(rng.random() < 0.5), bool(rng.random() < 0.7)
                make = lambda k=k, kw=kw, shuffle=shuffle, balance=balance, rs=rs: vd.BlockKFold(  # noqa: E731
                    n_splits=k, shuffle=shuffle, random_state=rs() if shuffle else None, balance=balance, **kw)
                randomised = shuffle
                label = "BlockKFold(%d,%s)" % (k, sorted(kw)[0])
            else:
                k, ts = int(rng.integers(2, 5)), float(rng.uniform(0.2, 0.5))
                make = lambda k=k, kw=kw, ts=ts, rs=rs: vd.BlockShuffleSplit(n_splits=k, test_size=ts, random_state=rs(), **kw)  # noqa: E731
                label = "BlockShuffleSplit(%d,%s)" % (k, sorted(kw)[0])
        try:
            with warnings.catch_warnings():
                warnings.simplefilter("ignore")
                splits = list(R.RecordingCV(make(), label, thin, seed).split(feat))
        except (ValueError, ZeroDivisionError):
            run.count("cv_config_refused")
            continue
        if len(splits) < 2 or any(len(te) < 3 or len(tr) < 12 for tr, te in splits):
            continue
        run.count("class:cv:" + label.split("(")[0])
        # a bare instance can only be judged if a replay gives the same splits: int seed, or no shuffling at all
        hows = ["proxy", "proxy", "proxy_list"] + ([] if thin or (randomised and rs_kind != "int") else ["bare"])
        run.count("class:random_state:cv:" + (rs_kind if randomised else "not_randomised"))
        default_how = str(rng.choice(hows))

        replayable = (not randomised) or rs_kind == "int"

        def factory(how=None, make=make, label=label, thin=thin, default_how=default_how, hows=tuple(hows), replayable=replayable):
            """how: proxy (recording, split is a generator) | proxy_list (recording, split returns a list) | bare (the instance itself)
            | other (any spelling different from the default one)."""
            if how is None:
                how = default_how
            elif how == "other":
                how = [h for h in ("proxy", "proxy_list", "bare") if h != default_how and h in hows][0]
            run.count("class:cv_spelling:" + how)
            if how == "bare":
                return make()
            return R.RecordingCV(make(), label, thin, seed, as_list=(how == "proxy_list"), remake=make if replayable else None)

        return factory, label, len(splits)
    k = 4
    run.count("class:cv:KFold")
    return (lambda how=None: R.RecordingCV(KFold(n_splits=k, shuffle=True, random_state=1), "KFold(4)")), "KFold(4)", k


SPELLINGS = ("string", "get_scorer", "make_scorer", "plain_callable")


def pick_scoring(rng, run, name=None, avoid=None):
    """A metric (None = default R2) in one of its equivalent spellings: string, scorer object, plain callable."""
    if name is None:
        name = SCORINGS[int(rng.integers(0, len(SCORINGS)))]
        run.count("class:scoring:" + str(name))
    if name == "callable":
        return R.HarnessScorer()
    metric = "r2" if name is None else name
    options = [sp for sp in SPELLINGS + (("none",) if metric == "r2" else ()) if sp != avoid]
    spelling = "none" if (name is None and avoid is None) else str(rng.choice(options))
    run.count("class:scoring_spelling:" + spelling)
    return R.spell_scoring(metric, spelling)


def spelling_of(scoring):
    if scoring is None:
        return "none"
    if isinstance(scoring, str):
        return "string"
    if isinstance(scoring, R.PlainCallable):
        return "plain_callable"
    if isinstance(scoring, R.HarnessScorer):
        return "harness_callable"
    return "get_scorer"  # a scikit-learn scorer object (get_scorer and make_scorer build the same kind of object)


# --------------------------------------------------------------------------
# schedules
# --------------------------------------------------------------------------
def compute_under(run, ticket, lazy, schedule, rng, serial_values):
    """Compute the delayed scores under one schedule, judge the execution, compare with the serial result."""
    import dask

    n = len(lazy)
    order = list(range(n))
    if "reversed" in schedule:
        order = order[::-1]
    elif "random" in schedule or schedule == "one-at-a-time-threads-4":
        order = [int(i) for i in rng.permutation(n)]
    kwargs = {"scheduler": "synchronous"}
    if "threads" in schedule:
        workers = int([p for p in schedule.split("-") if p.isdigit()][0])
        kwargs = {"scheduler": "threads", "num_workers": workers}
    start = S.mark()
    old = sys.getswitchinterval()
    sys.setswitchinterval(1e-5)
    try:
        with warnings.catch_warnings():
            warnings.simplefilter("ignore")
            if schedule.startswith("one-at-a-time"):
                got = [lazy[k].compute(**kwargs) for k in order]
            else:
                got = dask.compute(*[lazy[k] for k in order], **kwargs)
    finally:
        sys.setswitchinterval(old)
    values = [None] * n
    for pos, k in enumerate(order):
        values[k] = got[pos]
    events = S.since(start)
    run.count("schedule:" + schedule)
    run.seen("schedulers", schedule)
    with M.GL:
        _, completion = M.judge_batch(run, ticket, events, values, schedule)
        M.check_untouched(run, ticket, "after computing under " + schedule)
        M.flush_local(run)
        run.seen("completion_orders", "%d:%s" % (n, ",".join(str(k) for k in completion)))
        if completion != sorted(completion):
            run.count("schedules_completed_out_of_split_order")
        threads = {e.thread for e in events}
        run.observe_max("worker_threads_in_one_compute", len(threads))
        # did two tasks overlap in time?
        open_objs, overlapped = set(), False
        for e in events:
            if e.kind == "fit" and e.top:
                if open_objs:
                    overlapped = True
                open_objs.add(id(e.obj))
            elif e.kind == "score":
                open_objs.discard(id(e.obj))
        if overlapped:
            run.count("schedules_with_overlapping_tasks")
        if serial_values is not None:
            run.evaluated("serial_equals_delayed")
            same = len(values) == len(serial_values) and all(
                isinstance(v, (float, np.floating)) and np.float64(v).tobytes() == np.float64(s).tobytes() for v, s in zip(values, serial_values))
            if not same:
                run.violation("serial_equals_delayed", "[%s] the delayed scores differ from the serial scores" % schedule,
                              {"serial": np.asarray(serial_values), "delayed": [float(v) if isinstance(v, (float, np.floating)) else repr(v) for v in values],
                               "estimator": ticket.est_key, "scoring": repr(ticket.scoring), "coordinates": list(ticket.dataset.coordinates),
                               "data": list(ticket.dataset.data)}, key="serial-vs-delayed")
    return values


def last_ticket(result):
    for t in reversed(S.tickets):
        if t.result is result:
            return t
    return None


def same_splits(a, b):
    return a is not None and b is not None and len(a) == len(b) and all(
        np.array_equal(x[0], y[0]) and np.array_equal(x[1], y[1]) for x, y in zip(a, b))


# --------------------------------------------------------------------------
# streams
# --------------------------------------------------------------------------
def case_cv(run, rng, vd, schedules=None, client=None, index=None):
    ds, coords, data, weights, info = make_dataset(rng, run)
    S.register(ds)
    est, est_label = make_estimator(rng, run, vd, len(ds.data))
    prefit = bool(rng.random() < 0.3)
    with warnings.catch_warnings():
        warnings.simplefilter("ignore")
        if prefit:
            run.count("class:estimator_already_fitted")
            est.fit(coords, data, weights)
        factory, cv_label, n_splits = make_cv(rng, run, vd, ds, rs_kind_wanted=None if index is None else RS_KINDS[index % 3])
        scoring = pick_scoring(rng, run)
        cv1 = factory()
        serial = vd.cross_val_score(est, coords, data, weights=weights, cv=cv1, scoring=scoring)
        st = last_ticket(serial)
        if st is None or st.serial_values is None:
            run.count("cv_case_not_judged")
            return
        vals = st.serial_values
        if len(vals) >= 2 and not np.all(vals == vals[0]) and not np.all(vals == 1.0):
            run.mark_nontrivial("cv", ds.coordinates[0], ds.data[0], st.est_key, cv_label, repr(scoring), info["weighted"], [s[1] for s in st.splits])
        if est_label == "KNeighbors(k=1)":
            run.count("knn1_cases")
        run.sample("cross_val_score", {"dataset": info, "estimator": st.est_key, "cv": cv_label, "scoring": repr(scoring), "already_fitted": prefit,
                                       "test_sets": [np.sort(s[1]) for s in st.splits], "scores": vals,
                                       "reference": [st.ref.score(tr, te)["value"] for tr, te in st.splits],
                                       "tolerance": [st.ref.score(tr, te)["tol"] for tr, te in st.splits]})
        # the same request in other, equivalent spellings must give the same numbers
        if client is None and cv_label != "None":
            metric = R.scoring_name(scoring)
            alt_scoring = scoring if metric == "callable" else pick_scoring(rng, run, name=metric, avoid=spelling_of(scoring))
            alt_weights = weights
            if weights is None and rng.random() < 0.7:
                alt_weights = (None,) * len(ds.data)
                run.count("class:weights_spelling:tuple_of_None")
            alt = vd.cross_val_score(est, coords, data, weights=alt_weights, cv=factory("other"), scoring=alt_scoring)
            at = last_ticket(alt)
            with M.GL:
                if at is None or at.serial_values is None or not same_splits(at.splits, st.splits):
                    run.count("spelling_case_not_comparable")
                else:
                    run.evaluated("equivalent_spellings_agree")
                    tols = [st.ref.score(tr, te) for tr, te in st.splits]
                    worst = [k for k, r in enumerate(tols) if r["skip"] is None and not abs(at.serial_values[k] - vals[k]) <= r["tol"]]
                    if worst:
                        run.violation("equivalent_spellings_agree",
                                      "cross_val_score gives %r for scoring=%r, cv=%r, weights=%s but %r for the equivalent scoring=%r, cv=%r, weights=%s"
                                      % (vals[worst[0]], scoring, cv1, "None" if weights is None else "arrays", at.serial_values[worst[0]], alt_scoring,
                                         at and "other spelling", "tuple of None" if alt_weights is not weights else "same"),
                                      {"first": vals, "second": at.serial_values, "estimator": st.est_key, "cv": cv_label}, key="spellings")
        if client is not None:
            cv3 = factory()
            futures = vd.cross_val_score(est, coords, data, weights=weights, cv=cv3, scoring=scoring, client=client)
            ct = last_ticket(futures)
            start = 0
            got = [f.result() for f in futures]
            if ct is not None:
                if ct.splits is None:
                    ct.splits = st.splits
                with M.GL:
                    M.judge_batch(run, ct, [e for e in S.since(start) if e.thread != S.main], got, "client.submit")
                    M.check_untouched(run, ct, "after client futures")
                    run.evaluated("serial_equals_client")
                    if not (same_splits(ct.splits, st.splits) and np.array_equal(np.asarray(got, dtype="float64"), vals)):
                        run.violation("serial_equals_client", "scores through client.submit differ from the serial scores",
                                      {"serial": vals, "client": got}, key="serial-vs-client")
            run.count("schedule:distributed-client")
            run.seen("schedulers", "distributed-client(threads)")
            return
        cv2 = factory()
        lazy = vd.cross_val_score(est, coords, data, weights=weights, cv=cv2, scoring=scoring, delayed=True)
        dt = last_ticket(lazy)
        if dt is None:
            run.count("cv_case_not_judged")
            return
        if dt.splits is None:
            dt.splits = st.splits
        comparable = same_splits(dt.splits, st.splits)
        if not comparable:
            run.count("serial_and_delayed_splits_differ")
    for schedule in (schedules or SCHEDULES):
        compute_under(run, dt, lazy, schedule, rng, vals if comparable else None)
    run.sample("schedules", {"estimator": st.est_key, "cv": cv_label, "schedules": list(schedules or SCHEDULES), "serial_scores": vals})


def case_score(run, rng, vd):
    """
    estimator.score on held-out rows: the weighted R2, mean over components, of the fitted model; the model is not changed.
    The model is fitted either on a flat subset or on the whole dataset as presented (2-D arrays in independent memory layouts);
    the test arrays are 1-D or 2-D in independent layouts; the reference is a clone fitted and evaluated on flat C-ravelled arrays.
    """
    from sklearn.base import clone as sk_clone

    ds, coords, data, weights, info = make_dataset(rng, run)
    S.register(ds)
    est, est_label = make_estimator(rng, run, vd, len(ds.data))
    rows = rng.permutation(ds.size)
    whole = bool(rng.random() < 0.5)
    cut = 0 if whole else int(ds.size * rng.uniform(0.5, 0.8))
    train = np.arange(ds.size) if whole else rows[:cut]
    run.count("class:score:fitted_on_" + ("whole_dataset_as_presented" if whole else "flat_subset"))
    with warnings.catch_warnings():
        warnings.simplefilter("ignore")
        c, d, w = ds.take(train)
        with S.mute():
            ref_est = sk_clone(est)
            ref_est.fit(c, d if len(d) > 1 else d[0], None if w is None else (w if len(w) > 1 else w[0]))
        if whole:
            est.fit(coords, data, weights)
        else:
            est.fit(c, d if len(d) > 1 else d[0], None if w is None else (w if len(w) > 1 else w[0]))
        for _ in range(6):
            pool = rows[cut:]
            test = rng.permutation(pool)[: int(rng.integers(6, min(pool.size, 40) + 1))]
            c, d, w = ds.take(test)
            mode = str(rng.choice(["dataset", "none", "other"]))
            if mode == "none" or (mode == "dataset" and w is None):
                w = None
            elif mode == "other":
                w = tuple(10 ** rng.uniform(-1, 1, test.size) for _ in d)
            flat = (c, d, w)
            kinds = []
            if rng.random() < 0.6:
                r = int(rng.integers(2, 5))
                cols = test.size // r
                if cols > 1 and cols != r:
                    m = r * cols
                    test = test[:m]
                    flat = (tuple(x[:m] for x in c), tuple(x[:m] for x in d), None if w is None else tuple(x[:m] for x in w))

                    def lay(x):
                        kinds.append(str(rng.choice(ARRAY_LAYOUTS)))
                        run.count("class:score_array_layout:" + kinds[-1])
                        return lay_out(x[:m].reshape(r, cols), kinds[-1])

                    c, d = tuple(lay(x) for x in c), tuple(lay(x) for x in d)
                    w = None if w is None else tuple(lay(x) for x in w)
            score = est.score(c, d if len(d) > 1 else d[0], None if w is None else (w if len(w) > 1 else w[0]))
            fc, fd, fw = flat
            with S.mute():
                pred = ref_est.predict(fc)
            expected, scale = R.mean_metric("r2", fd, pred if isinstance(pred, tuple) else (pred,), fw if fw is not None else (None,) * len(fd))
            with M.GL:
                if expected is None:
                    run.count("skipped:score_vs_flat_reference")
                else:
                    run.evaluated("score_vs_flat_reference")
                    tol = 1e-9 * scale
                    err = abs(float(score) - expected)
                    run.observe_max("score_vs_flat_reference_error_over_tolerance", err / tol)
                    if not err <= tol:
                        run.violation("score_vs_flat_reference",
                                      "score() = %r, but the weighted R2 (mean over components) of the same model fitted and evaluated on the "
                                      "C-ravelled arrays is %r" % (score, expected),
                                      {"estimator": est_label, "fitted_on_whole_dataset_as_presented": whole, "dataset": info, "test_rows": test,
                                       "test_array_layouts": kinds, "test_coordinates": list(c), "test_data": list(d),
                                       "test_weights": None if w is None else list(w), "score": float(score), "expected": expected},
                                      key="score-flat:" + ("fit" if whole and info["layout"] == "2d" else "test"))
            if score != 1.0:
                run.mark_nontrivial("score", ds.coordinates[0], test, est_label, mode, float(score))
    run.sample("score", {"dataset": info, "estimator": est_label, "fitted_on_whole_dataset_as_presented": whole, "test_rows": np.sort(test),
                         "test_array_layouts": kinds, "weights": mode, "score": float(score), "reference": expected})
    with M.GL:
        M.flush_local(run)


def respell_tts(kwargs, rng, run):
    """The same train_test_split request in other spellings: numpy scalars, list / tuple / ndarray, int <-> float where the value is integral."""
    out = dict(kwargs)
    ts = kwargs.get("test_size")
    if ts is not None:
        if isinstance(ts, (int, np.integer)):
            out["test_size"] = np.int64(ts) if type(ts) is int else int(ts)
        else:
            out["test_size"] = np.float64(ts) if type(ts) is float else float(ts)
        run.count("class:tts_spelling:test_size:" + type(out["test_size"]).__name__)
    tr = kwargs.get("train_size")
    if tr is not None:
        if isinstance(tr, (int, np.integer)):
            out["train_size"] = np.int64(tr) if type(tr) is int else int(tr)
        else:
            out["train_size"] = np.float64(tr) if type(tr) is float else float(tr)
        run.count("class:tts_spelling:train_size:" + type(out["train_size"]).__name__)
    if kwargs.get("shape") is not None:
        kind = str(rng.choice(["list", "ndarray", "tuple_of_numpy.int64"]))
        shape = [int(v) for v in kwargs["shape"]]
        out["shape"] = shape if kind == "list" else (np.array(shape) if kind == "ndarray" else tuple(np.int64(v) for v in shape))
        run.count("class:tts_spelling:shape:" + kind)
        run.count("class:tts_spelling:shape")
    sp = kwargs.get("spacing")
    if sp is not None:
        if np.ndim(sp) == 0:
            out["spacing"] = float(sp) if type(sp) is not float else (np.float64(sp) if rng.random() < 0.5 else (sp, sp))
            kind = type(out["spacing"]).__name__
        else:
            kind = str(rng.choice(["list", "ndarray", "tuple_of_numpy.float64"]))
            vals = [float(v) for v in sp]
            out["spacing"] = vals if kind == "list" else (np.array(vals) if kind == "ndarray" else tuple(np.float64(v) for v in vals))
        run.count("class:tts_spelling:spacing:" + kind)
        run.count("class:tts_spelling:spacing")
    return out


SIZE_MODES = ("neither", "test_float", "test_int", "train_float", "train_int", "both_float", "both_int")


def pick_sizes(rng, mode, n):
    """test_size / train_size keyword arguments for *n* units (rows, or occupied blocks in the blocked mode); 'both' is always complementary."""
    half = max(n // 2, 1)
    if mode == "test_float":
        return {"test_size": float(rng.uniform(0.25 if n < 12 else 0.15, 0.5))}
    if mode == "test_int":
        return {"test_size": int(rng.integers(max(1, min(4, half)), half + 1))}
    if mode == "train_float":
        return {"train_size": float(rng.uniform(0.5, 0.75 if n < 12 else 0.85))}
    if mode == "train_int":
        return {"train_size": int(rng.integers(n - half, n - max(1, min(4, half)) + 1))}
    if mode == "both_float":
        t = float(rng.choice([0.25, 0.375, 0.5] if n >= 8 else [0.5]))  # dyadic: t and 1 - t are exact
        return {"test_size": t, "train_size": 1.0 - t}
    if mode == "both_int":
        k = int(rng.integers(max(1, min(4, half)), half + 1))
        return {"test_size": k, "train_size": n - k}
    return {}


def case_tts(run, rng, vd, index=0):
    for j in range(6):
        # the 7 ways of giving sizes x (plain | blocked) in rotation, so that every quick run sees all 14
        combo = (index * 6 + j) % 14
        blocked, mode = bool(combo % 2), SIZE_MODES[combo // 2]
        ds, coords, data, weights, info = make_dataset(rng, run)
        seed = int(rng.integers(0, 2 ** 32 - 1))
        rs_kind = RS_KINDS[(index * 6 + j) % 3]  # coprime with the 14 size/mode combinations: 42 consecutive calls see every pair
        run.count("class:random_state:tts:%s:%s" % (rs_kind, "blocked" if blocked else "plain"))

        def with_random_state(kw, seed=seed, rs_kind=rs_kind):
            """The keyword arguments with an equally seeded random_state of the wanted kind (int | RandomState instance | None = global generator)."""
            kw = dict(kw)
            if rs_kind == "int":
                kw["random_state"] = seed
            elif rs_kind == "RandomState":
                kw["random_state"] = np.random.RandomState(seed)
            else:
                np.random.seed(seed)
                if rng.random() < 0.5:
                    kw["random_state"] = None  # else: left out altogether
            return kw

        kwargs = {}
        units = ds.size
        if blocked:
            for _ in range(20):
                block_kw = {}
                if rng.random() < 0.5:
                    block_kw["shape"] = (int(rng.integers(2, 6)), int(rng.integers(2, 6)))
                else:
                    ext_e, ext_n = np.ptp(ds.coordinates[0]), np.ptp(ds.coordinates[1])
                    if rng.random() < 0.5:
                        block_kw["spacing"] = float(min(ext_e, ext_n) / rng.uniform(1.6, 5.4))
                        if block_kw["spacing"] >= 3 and rng.random() < 0.6:
                            block_kw["spacing"] = int(block_kw["spacing"])  # an integral block size, spelled as int
                    else:
                        block_kw["spacing"] = (float(ext_n / rng.uniform(1.6, 5.4)), float(ext_e / rng.uniform(1.6, 5.4)))
                labels, _ = R.block_labels(ds.coordinates[0], ds.coordinates[1], spacing=block_kw.get("spacing"), shape=block_kw.get("shape"))
                units = int(np.unique(labels).size)
                if units >= 4:
                    break
            if isinstance(block_kw.get("spacing"), int):
                run.count("class:tts:spacing_as_int")
            kwargs.update(block_kw)
            run.count("class:tts:" + ("shape" if "shape" in kwargs else "spacing"))
        else:
            run.count("class:tts:plain")
        kwargs.update(pick_sizes(rng, mode, units))
        if isinstance(kwargs.get("test_size"), int):
            run.count("class:tts:test_size_as_count")
        run.count("class:tts_sizes:%s:%s" % ("blocked" if blocked else "plain", mode))
        S.datasets = []
        S.register(ds)
        try:
            with warnings.catch_warnings():
                warnings.simplefilter("ignore")
                train, test = vd.train_test_split(coords, data, weights, **with_random_state(kwargs))
        except ValueError as exc:
            if "test_size" in str(exc) or "train_size" in str(exc) or "n_samples" in str(exc) or "empty" in str(exc):
                run.count("refused:train_test_split:" + str(exc)[:40])
                continue
            raise
        # the same request in an equivalent spelling (and weights=None as a tuple of None) must give the same split
        other = respell_tts(kwargs, rng, run)
        alt_weights = weights
        if weights is None and rng.random() < 0.5:
            alt_weights = (None,) * len(ds.data)
            run.count("class:weights_spelling:tuple_of_None")
        with warnings.catch_warnings():
            warnings.simplefilter("ignore")
            train2, test2 = vd.train_test_split(coords, data, alt_weights, **with_random_state(other))  # replayed with an equally seeded generator
        with M.GL:
            run.evaluated("tts_equivalent_spellings_agree")
            rows = [ds.rows(part[0]) for part in (train, test, train2, test2)]
            if any(r is None for r in rows) or not (np.array_equal(rows[0], rows[2]) and np.array_equal(rows[1], rows[3])):
                run.violation("tts_equivalent_spellings_agree", "train_test_split(%r) and train_test_split(%r) return different splits"
                              % ({k: v for k, v in kwargs.items()}, {k: v for k, v in other.items()}),
                              {"coordinates": list(ds.coordinates), "first_test": rows[1], "second_test": rows[3]}, key="tts-spellings")
    run.sample("train_test_split", {"dataset": info, "kwargs": kwargs, "random_state_kind": rs_kind, "respelled": {k: repr(v) for k, v in other.items()},
                                    "train_rows": np.sort(ds.rows(train[0])) if ds.rows(train[0]) is not None else None,
                                    "test_rows": np.sort(ds.rows(test[0])) if ds.rows(test[0]) is not None else None})


def spell_numbers(values, rng, run, what, container=None, scalar=None):
    """The same numbers in another container (tuple / list / ndarray) and scalar type (float, numpy.float64, and for integral values int / numpy.int64)."""
    values = list(values)
    has_none = any(v is None for v in values)
    integral = all(v is not None and float(v) == int(v) for v in values)
    if container is None:
        container = str(rng.choice(["list", "tuple"] + ([] if has_none else ["ndarray"])))
    if scalar is None:
        scalar = str(rng.choice(["float", "numpy.float64"] + (["int", "numpy.int64"] if integral else [])))
    if scalar in ("int", "numpy.int64") and not integral:
        raise AssertionError("harness: integer spelling requested for non-integral values %r" % (values,))
    conv = {"float": float, "numpy.float64": np.float64, "int": int, "numpy.int64": np.int64}[scalar]
    out = [None if v is None else conv(v) for v in values]
    run.count("class:%s_container:%s" % (what, container))
    run.count("class:%s_scalar:%s" % (what, scalar))
    if container == "tuple":
        return tuple(out)
    if container == "ndarray":
        return np.array(out)
    return out


def coarse_forces(rng, ds, as_2d=False):
    """A coarse regular grid of point forces over the data region: fewer forces than data points."""
    ny, nx = int(rng.integers(3, 6)), int(rng.integers(3, 6))
    fe, fn = np.meshgrid(np.linspace(ds.coordinates[0].min(), ds.coordinates[0].max(), nx),
                         np.linspace(ds.coordinates[1].min(), ds.coordinates[1].max(), ny))
    return (fe, fn) if as_2d else (fe.ravel(), fn.ravel())


def case_splinecv(run, rng, vd, client=None, index=None):
    import dask

    # option combinations forced in rotation (the random draws below add more): 0 scorer + weights, 1 two-dimensional grid,
    # 2 integral dampings spelled as int / numpy.int64, 3 coarse grid of forces + engine="numpy"
    forced = None if index is None else index % 4
    ds, coords, data, weights, info = make_dataset(rng, run, ncomp=1, nmax=60 if run.tier == "quick" else 80,
                                                   weighted=True if forced == 0 else None)
    S.register(ds)
    n_damp = int(rng.integers(1, 5))
    dampings = sorted({float(10 ** rng.uniform(-4, 0.5)) for _ in range(n_damp)})
    if rng.random() < 0.15:
        dampings = [None] + dampings
    if rng.random() < 0.15 and forced != 2:
        dampings = [1e-10, 1e-5, 1e-1]  # the documented default grid
    elif rng.random() < 0.3 or forced == 2:
        dampings = [[1, 10], [10, 1, 2], [1, 100], [2, 20]][int(rng.integers(0, 4))]  # integral values: spelled as int / numpy.int64 / float below
        run.count("class:splinecv:integral_dampings")
    if rng.random() < 0.5:
        dampings = dampings[::-1] if rng.random() < 0.5 else [dampings[i] for i in rng.permutation(len(dampings))]
    ext = max(np.ptp(ds.coordinates[0]), np.ptp(ds.coordinates[1]))
    mindists = None
    if rng.random() < 0.4:
        mindists = [float(ext * 10 ** rng.uniform(-3, -1)), float(ext * 10 ** rng.uniform(-6, -3))][: int(rng.integers(1, 3))]
    if index is not None and index % 4 == 1:
        # every fourth case is a genuinely two-dimensional grid (the order of product(mindists, dampings) is only visible there)
        mindists = [float(ext * 10 ** rng.uniform(-3, -1)), float(ext * 10 ** rng.uniform(-6, -3))]
        if len(dampings) < 2:
            dampings = [1e-3, 1e-1] if dampings[0] is None or dampings[0] > 1e-2 else [dampings[0], 0.3]
    if mindists is not None and len(mindists) > 1 and len(dampings) > 1:
        run.count("class:splinecv:two_dimensional_grid")
    force_coords = None
    if rng.random() < 0.35 or forced == 3:
        if rng.random() < 0.7 or forced == 3:
            force_coords = coarse_forces(rng, ds, as_2d=bool(rng.random() < 0.4))
            run.count("class:splinecv:force_coords:coarse_grid")
        else:
            k = int(rng.integers(12, 25))
            pick = rng.choice(ds.size, k, replace=False)
            force_coords = (ds.coordinates[0][pick] + 0.01 * ext, ds.coordinates[1][pick] - 0.01 * ext)
            run.count("class:splinecv:force_coords:scattered")
        run.count("class:splinecv:force_coords")
    engine = "numpy" if rng.random() < 0.25 or forced == 3 else "auto"
    run.count("class:splinecv:engine:" + engine)
    scoring = pick_scoring(rng, run)
    if forced == 0:
        # a scorer OBJECT / hand-written callable of an error metric (the sign convention matters for the argmax), together with weights
        metric = ["neg_mean_squared_error", "neg_root_mean_squared_error", "neg_mean_absolute_error", "r2"][(index // 4) % 4]
        spelling = ["make_scorer", "get_scorer", "plain_callable"][(index // 4) % 3]
        scoring = R.spell_scoring(metric, spelling)
        run.count("class:splinecv:scorer_object:" + spelling)
    if scoring is not None and weights is not None:
        run.count("class:splinecv:scoring_with_weights")
    if mindists is not None and len(mindists) > 1:
        run.count("class:splinecv:several_mindists")
    plain_dampings, plain_mindists = dampings, mindists
    dampings = spell_numbers(plain_dampings, rng, run, "dampings", scalar=None if forced != 2 else ("int" if (index // 4) % 2 == 0 else "numpy.int64"))
    if any(isinstance(d, (int, np.integer)) and not isinstance(d, bool) for d in dampings):
        run.count("class:splinecv:dampings_of_integer_type")
    mindists = None if plain_mindists is None else spell_numbers(plain_mindists, rng, run, "mindists")
    factory, cv_label, n_splits = make_cv(rng, run, vd, ds, allow_default=client is None, max_splits=5,
                                          rs_kind_wanted=None if index is None else RS_KINDS[(index // 4) % 3])
    n_cand = len(dampings) * (1 if mindists is None else len(mindists))
    run.count("class:splinecv:candidates:%d" % n_cand)
    common = {"dampings": dampings, "mindists": mindists, "force_coords": force_coords, "engine": engine}
    with warnings.catch_warnings():
        warnings.simplefilter("ignore")
        if client is not None:
            model = vd.SplineCV(cv=factory(), client=client, **common)
            model.fit(coords, data, weights)
            run.count("schedule:distributed-client-splinecv")
            run.seen("schedulers", "distributed-client(threads)")
            return
        model = vd.SplineCV(cv=factory(), scoring=scoring, **common)
        model.fit(coords, data, weights)
        serial_scores = np.array(model.scores_, dtype="float64")
        run.sample("SplineCV", {"dataset": info, "dampings": dampings, "mindists": mindists, "cv": cv_label, "scoring": repr(scoring),
                                "scores_": serial_scores, "selected": [model.mindist_, model.damping_]})
        if cv_label == "None":
            return
        # the delayed twin is configured with equivalent spellings: other containers / scalar types, delayed as True | numpy.True_ | 1
        truthy = [True, np.True_, 1][int(rng.integers(0, 3))]
        run.count("class:delayed_spelling:" + type(truthy).__name__)
        common = dict(common, dampings=spell_numbers(plain_dampings, rng, run, "dampings"),
                      mindists=None if plain_mindists is None else spell_numbers(plain_mindists, rng, run, "mindists"))
        lazy_model = vd.SplineCV(cv=factory(), scoring=scoring, delayed=truthy, **common)
        S.last_splinecv = None
        lazy_model.fit(coords, data, weights)
        state = S.last_splinecv
        run.count("schedule:SplineCV.fit(delayed)-default-threads")
        run.seen("schedulers", "SplineCV.fit(delayed): dask default (threads)")
        with M.GL:
            run.evaluated("splinecv_serial_equals_delayed_selection")
            if (lazy_model.mindist_, lazy_model.damping_) != (model.mindist_, model.damping_):
                run.violation("splinecv_serial_equals_delayed_selection", "serial SplineCV selected %r, delayed SplineCV selected %r"
                              % ((model.mindist_, model.damping_), (lazy_model.mindist_, lazy_model.damping_)),
                              {"dampings": dampings, "mindists": mindists, "serial_scores": serial_scores}, key="splinecv-serial-vs-delayed")
        if state is None or state["mode"] != "delayed" or len(state["tickets"]) != len(state["cands"]):
            run.count("splinecv_delayed_not_judged")
            return
        # between creating the lazy scores_ and consuming them: re-configure the SplineCV object / overwrite the data in place.
        # scores_ must stay the scores of the grid, scorer and data in force when fit() was called (select() copied the rows then).
        lazy_scores = list(lazy_model.scores_)
        how = ["none", "set_params", "attribute", "data_in_place"][int(rng.integers(0, 4))] if index is None else \
            ["set_params", "data_in_place", "attribute", "none"][(index // 2) % 4]
        if how == "data_in_place":
            arrays = [a for a in ([data] + ([] if weights is None else [weights])) if isinstance(a, np.ndarray) and a.flags.writeable]
            if not arrays:
                how = "set_params"
            for a in arrays:
                a *= -3.0
                a += 1.0
        if how in ("set_params", "attribute"):
            other_grid = [float(d) * 7.0 + 0.01 for d in plain_dampings if d is not None][::-1] + [0.123]
            if how == "set_params":
                lazy_model.set_params(dampings=other_grid, scoring=pick_scoring(rng, run))
            else:
                lazy_model.dampings = other_grid
                lazy_model.mindists = [0.5 * ext]
        run.count("class:lazy_consumed_after:splinecv:" + how)
        if how != "none":
            run.count("class:lazy_consumed_after:splinecv:any_change")
        for schedule in (["threads-4", "threads-16-random"] if run.tier == "quick" else ["synchronous", "threads-2", "threads-16-random", "threads-4-reversed"]):
            order = list(range(len(lazy_scores)))
            if "random" in schedule:
                order = [int(i) for i in rng.permutation(len(order))]
            elif "reversed" in schedule:
                order = order[::-1]
            kwargs = {"scheduler": "synchronous"}
            if "threads" in schedule:
                kwargs = {"scheduler": "threads", "num_workers": int([p for p in schedule.split("-") if p.isdigit()][0])}
            start = S.mark()
            old = sys.getswitchinterval()
            sys.setswitchinterval(1e-5)
            try:
                got = dask.compute(*[lazy_scores[k] for k in order], **kwargs)
            finally:
                sys.setswitchinterval(old)
            values = np.empty(len(order))
            for pos, k in enumerate(order):
                values[k] = got[pos]
            events = S.since(start)
            run.count("schedule:scores_:" + schedule)
            run.seen("schedulers", "scores_:" + schedule)
            with M.GL:
                M.judge_candidates(run, state["tickets"], state["cands"], state["per_cand"], events, "scores_ under " + schedule)
                M.flush_local(run)
                run.observe_max("worker_threads_in_one_compute", len({e.thread for e in events}))
                done = [e for e in events if e.kind == "score"]
                run.seen("completion_orders_grid", "%d:%s" % (len(done), ",".join(
                    str(state["cands"].index((e.obj.mindist, e.obj.damping))) if (e.obj.mindist, e.obj.damping) in state["cands"] else "?" for e in done))[:200])
                run.evaluated("splinecv_serial_equals_delayed_scores")
                if values.tobytes() != serial_scores.tobytes():
                    run.violation("splinecv_serial_equals_delayed_scores", "[%s] delayed scores_ differ from the serial scores_" % schedule,
                                  {"serial": serial_scores, "delayed": values, "dampings": dampings, "mindists": mindists}, key="splinecv-scores-serial-vs-delayed")


def case_client(run, rng, vd, index):
    """The deprecated client= path, through an in-process dask.distributed cluster (threads)."""
    try:
        from dask.distributed import Client, LocalCluster

        cluster = LocalCluster(processes=False, n_workers=1, threads_per_worker=3, dashboard_address=None)
        client = Client(cluster)
    except Exception as exc:  # noqa: BLE001
        run.count("client_path_unavailable:" + type(exc).__name__)
        return
    try:
        if index % 2 == 0:
            case_cv(run, rng, vd, client=client)
        else:
            case_splinecv(run, rng, vd, client=client)
    finally:
        client.close()
        cluster.close()
    with M.GL:
        M.flush_local(run)


def case_splinecv_history(run, rng, vd, index=0):
    """
    Re-configuration histories: one SplineCV object is constructed with one candidate grid / scorer / cross-validator / delayed flag,
    then re-configured (set_params or attribute assignment) before its first fit and again between two fits; the second fit may be on
    other data. The SplineCV monitor judges every fit with the parameters in force at fit time.
    """
    def grid():
        dampings = sorted({float(10 ** rng.uniform(-4, 0.5)) for _ in range(int(rng.integers(1, 4)))})
        if rng.random() < 0.5:
            dampings = dampings[::-1]
        if rng.random() < 0.25:
            dampings = [[1, 10], [10, 2], [100, 1]][int(rng.integers(0, 3))]
        return spell_numbers(dampings, rng, run, "dampings")

    def some_mindists(ext):
        return [float(ext * 10 ** rng.uniform(-3, -1)), float(ext * 10 ** rng.uniform(-6, -3))][: int(rng.integers(1, 3))]

    first = make_dataset(rng, run, ncomp=1, nmax=60 if run.tier == "quick" else 80)
    ds1 = first[0]
    S.register(ds1)
    ext = max(np.ptp(ds1.coordinates[0]), np.ptp(ds1.coordinates[1]))
    with warnings.catch_warnings():
        warnings.simplefilter("ignore")
        factory, cv_label, _ = make_cv(rng, run, vd, ds1, allow_default=False, max_splits=4)
        state = {"dampings": grid(), "mindists": some_mindists(ext) if rng.random() < 0.4 else None, "scoring": pick_scoring(rng, run),
                 "cv": factory(), "delayed": bool(rng.random() < 0.3)}
        model = vd.SplineCV(**state)
        if state["mindists"] is None:
            state["mindists"] = [0]
        log = []

        def reconfigure(when, ds, ext, forced):
            names = [n for n in ("dampings", "mindists", "scoring", "cv", "delayed") if rng.random() < 0.35 or n == forced]
            for name in names:
                if name == "dampings":
                    value = grid()
                    while [float(v) for v in value] == [float(v) for v in state["dampings"]]:
                        value = grid()
                elif name == "mindists":
                    value = some_mindists(ext)
                elif name == "scoring":
                    value = pick_scoring(rng, run)
                    while R.scoring_name(value) == R.scoring_name(state["scoring"]):
                        value = pick_scoring(rng, run)
                elif name == "cv":
                    value = make_cv(rng, run, vd, ds, allow_default=False, max_splits=4)[0]()
                else:
                    value = not state["delayed"]
                how = "set_params" if rng.random() < 0.5 else "attribute"
                if how == "set_params":
                    model.set_params(**{name: value})
                else:
                    setattr(model, name, value)
                state[name] = value
                run.count("class:splinecv_history:%s:%s:%s" % (name, how, when))
                run.count("class:splinecv_history:changed:" + name)
                run.count("class:splinecv_history:how:" + how)
                run.count("class:splinecv_history:when:" + when)
                log.append([when, name, how, repr(value)[:80]])

        def fit_and_check(dataset, label):
            ds, coords, data, weights, info = dataset
            S.last_splinecv = None
            model.fit(coords, data, weights)
            with M.GL:
                run.evaluated("splinecv_history_fit_judged")
                if S.last_splinecv is None:
                    run.count("splinecv_history_fit_not_judged(skipped as ill-conditioned)")
                run.evaluated("splinecv_parameters_kept")
                same = (list(model.dampings) == list(state["dampings"]) and list(model.mindists) == list(state["mindists"])
                        and model.scoring is state["scoring"] and model.cv is state["cv"] and model.delayed == state["delayed"])
                if not same:
                    run.violation("splinecv_parameters_kept", "[%s] fit rewrote the constructor parameters of the SplineCV object" % label,
                                  {"history": log, "get_params": repr(model.get_params())[:600]}, key="splinecv-params-rewritten")
                cands = [(m, d) for m in state["mindists"] for d in state["dampings"]]
                if S.last_splinecv is not None:
                    run.evaluated("splinecv_current_grid")
                    if [tuple(c) for c in S.last_splinecv["cands"]] != cands or (model.mindist_, model.damping_) not in cands:
                        run.violation("splinecv_current_grid", "[%s] the fit used candidates %s / selected %r; the grid in force is %s"
                                      % (label, S.last_splinecv["cands"], (model.mindist_, model.damping_), cands), {"history": log}, key="splinecv-stale-grid")

        order = ("dampings", "scoring", "mindists", "cv")
        reconfigure("before_first_fit", ds1, ext, order[index % 4])
        fit_and_check(first, "first fit")
        second = first
        if rng.random() < 0.6:
            second = make_dataset(rng, run, ncomp=1, weighted=ds1.weights is not None, nmax=60 if run.tier == "quick" else 80)
            S.register(second[0])
            run.count("class:splinecv_history:second_fit_on_other_data")
        ds2 = second[0]
        ext2 = max(np.ptp(ds2.coordinates[0]), np.ptp(ds2.coordinates[1]))
        if second is not first:
            # a cross-validator valid for the new data (block shapes / test sizes depend on it)
            value = make_cv(rng, run, vd, ds2, allow_default=False, max_splits=4)[0]()
            model.set_params(cv=value)
            state["cv"] = value
            run.count("class:splinecv_history:cv:set_params:between_fits")
            log.append(["between_fits", "cv", "set_params", repr(value)])
        reconfigure("between_fits", ds2, ext2, order[(index + 2) % 4])
        fit_and_check(second, "second fit")
    run.sample("SplineCV_history", {"history": log, "first_dataset": first[4], "second_dataset": second[4],
                                    "selected_after_second_fit": [model.mindist_, model.damping_]})
    with M.GL:
        M.flush_local(run)


def case_lazy_scan(run, rng, vd, index=0):
    """
    A parameter scan that reuses ONE estimator object: for every value, cross_val_score(..., delayed=True) is called and the estimator is
    re-configured (set_params / attribute assignment) for the next value; finally the estimator is changed once more (another value, a fit
    on the data, or the data / weights arrays overwritten in place) and only then are all lazy scores computed. Every lazy score must be
    the score of a clone as configured when its cross_val_score call was made, on the rows as they were then (= the serial call made at
    that time = the harness reference built from a clone taken before that call).
    """
    ds, coords, data, weights, info = make_dataset(rng, run, ncomp=1)
    S.register(ds)
    kind = ("spline", "trend", "knn", "chain")[index % 4]
    if kind == "spline":
        values = [float(10 ** v) for v in rng.permutation([-3.5, -2.0, -0.5, 0.5])]
        build, param = (lambda v: vd.Spline(damping=v)), "damping"
    elif kind == "trend":
        values = [int(v) for v in rng.permutation([1, 2, 3, 4])]
        build, param = (lambda v: vd.Trend(degree=v)), "degree"
    elif kind == "knn":
        values = [int(v) for v in rng.permutation([1, 2, 4, 7])]
        build, param = (lambda v: vd.KNeighbors(k=v)), "k"
    else:
        values = [float(10 ** v) for v in rng.permutation([-3.0, -1.5, 0.0, 0.7])]
        build, param = (lambda v: vd.Chain([("trend", vd.Trend(degree=1)), ("spline", vd.Spline(damping=v))])), "damping of the held Spline step"
    run.count("class:lazy_scan:estimator:" + kind)
    n_steps = 2 if run.tier == "quick" else 3
    pending = []

    def rebaseline():
        for dt, _, _, _ in pending:  # the harness itself changed the estimator: that is the new state to be left untouched
            dt.snap = R.snapshot(dt.estimator, probe=dt.probe)

    def reconfigure(value):
        how = "set_params" if rng.random() < 0.5 else "attribute"
        if kind == "chain":  # Chain exposes no nested parameter names: the held step itself is re-configured
            how = "held_step_" + how
            step = est.named_steps["spline"]
            if how.endswith("set_params"):
                step.set_params(damping=value)
            else:
                step.damping = value
        elif how == "set_params":
            est.set_params(**{param: value})
        else:
            setattr(est, param, value)
        run.count("class:lazy_scan:reconfigured_by:" + how)
        rebaseline()

    with warnings.catch_warnings():
        warnings.simplefilter("ignore")
        est = build(values[0])
        factory, cv_label, _ = make_cv(rng, run, vd, ds, allow_default=False, max_splits=4)
        scoring = pick_scoring(rng, run)
        for step in range(n_steps):
            if step > 0:
                reconfigure(values[step])
            serial = vd.cross_val_score(est, coords, data, weights=weights, cv=factory(), scoring=scoring)
            st = last_ticket(serial)
            lazy = vd.cross_val_score(est, coords, data, weights=weights, cv=factory(), scoring=scoring, delayed=True)
            dt = last_ticket(lazy)
            if st is None or st.serial_values is None or dt is None:
                run.count("lazy_scan_step_not_judged")
                continue
            if dt.splits is None:
                dt.splits = st.splits
            pending.append((dt, lazy, st.serial_values, same_splits(dt.splits, st.splits)))
        # one more change before anything is consumed
        final = ("reconfigure", "fit_on_the_data", "data_in_place", "weights_in_place")[(index // 4) % 4]
        if final == "weights_in_place" and not (isinstance(weights, np.ndarray) and weights.flags.writeable):
            final = "data_in_place"
        if final == "data_in_place" and not (isinstance(data, np.ndarray) and data.flags.writeable):
            final = "reconfigure"
        if final == "reconfigure":
            reconfigure(values[n_steps])
        elif final == "fit_on_the_data":
            with S.mute():
                est.fit(coords, data, weights)
            rebaseline()
        elif final == "data_in_place":
            data *= -2.0
            data += 3.0
        else:
            weights[...] = weights[..., ::-1].copy() * 5.0
        run.count("class:lazy_consumed_after:cross_val_score:" + final)
    for dt, lazy, vals, comparable in pending:
        compute_under(run, dt, lazy, "synchronous", rng, vals if comparable else None)  # binds every clone to its call and split
        with M.GL:
            run.evaluated("lazy_score_is_of_call_time")
    # the lazy scores of SEVERAL cross_val_score calls computed in ONE dask graph: each must be its own call's score
    if len(pending) >= 2:
        import dask

        start = S.mark()
        flat = [x for _, lazy, _, _ in pending for x in lazy]
        old_interval = sys.getswitchinterval()
        sys.setswitchinterval(1e-5)
        try:
            got = list(dask.compute(*flat, scheduler="threads", num_workers=4))
        finally:
            sys.setswitchinterval(old_interval)
        events = S.since(start)
        run.count("schedule:one-graph-for-several-calls")
        run.seen("schedulers", "one graph for several cross_val_score calls (threads-4)")
        with M.GL:
            for dt, lazy, vals, comparable in pending:
                mine, got = got[: len(lazy)], got[len(lazy):]
                own = [e for e in events if id(e.obj) in dt.binding]
                M.judge_batch(run, dt, own, mine, "one graph for several calls")
                run.evaluated("several_calls_in_one_graph")
                if comparable and not (len(mine) == len(vals) and all(np.float64(a).tobytes() == np.float64(b).tobytes() for a, b in zip(mine, vals))):
                    run.violation("several_calls_in_one_graph", "computed in one graph with the lazy scores of other calls, the scores of a call "
                                  "differ from that call's serial scores", {"serial": vals, "in_one_graph": [float(v) for v in mine],
                                                                           "estimator": dt.est_key}, key="one-graph")
            claimed = set().union(*[set(dt.binding) for dt, _, _, _ in pending])
            strangers = [e for e in events if e.kind == "score" and id(e.obj) not in claimed]
            run.evaluated("several_calls_in_one_graph")
            if strangers:
                run.violation("several_calls_in_one_graph", "%d scoring event(s) in the joint graph on objects that belong to none of the calls" % len(strangers),
                              {}, key="one-graph-strangers")
            M.flush_local(run)
    for dt, lazy, vals, comparable in pending:
        for schedule in ("threads-4-random",):
            compute_under(run, dt, lazy, schedule, rng, vals if comparable else None)
            with M.GL:
                run.evaluated("lazy_score_is_of_call_time")
    run.sample("lazy_scan", {"dataset": info, "estimator": kind, "parameter": param, "values": values[: n_steps + 1], "cv": cv_label,
                             "changed_before_compute": final, "serial_scores_at_call_time": [p[2] for p in pending]})


def case_defaults(run, rng, vd, index=0):
    """
    Calls that rely on the documented defaults must behave like the same call with the defaults spelled out:
    SplineCV() == SplineCV(mindists=None, dampings=(1e-10, 1e-5, 1e-1), force_coords=None, engine="auto", cv=None, client=None,
    delayed=False, scoring=None); cross_val_score(est, c, d) == cv=KFold(n_splits=5, shuffle=True, random_state=0), no weights,
    serial, R2; score(c, d) == unweighted R2; train_test_split(c, d) == no weights, no blocks.
    """
    from sklearn.model_selection import KFold

    ds, coords, data, weights, info = make_dataset(rng, run, ncomp=1, weighted=False, nmax=60 if run.tier == "quick" else 80)
    S.register(ds)
    with warnings.catch_warnings():
        warnings.simplefilter("ignore")
        # --- SplineCV()
        bare = vd.SplineCV()
        documented = {"mindists": None, "dampings": (1e-10, 1e-5, 1e-1), "force_coords": None, "engine": "auto", "cv": None, "client": None,
                      "delayed": False, "scoring": None}
        spelled = vd.SplineCV(**documented)
        with M.GL:
            run.evaluated("defaults:SplineCV_constructor")
            have = {k: getattr(bare, k, "<missing>") for k in documented}
            want = dict(documented, mindists=[0])  # documented: mindists=None gives the future behaviour, a single mindist of 0
            wrong = [k for k in documented if not (have[k] is want[k] or (k in ("dampings", "mindists") and have[k] is not None
                                                                         and list(have[k]) == list(want[k])) or (k not in ("dampings", "mindists") and have[k] == want[k]))]
            if wrong:
                run.violation("defaults:SplineCV_constructor", "SplineCV() is configured with %s, the documented defaults are %s"
                              % ({k: have[k] for k in wrong}, {k: want[k] for k in wrong}), {"get_params": repr(bare.get_params())[:600]}, key="defaults-splinecv-init")
        bare.fit(coords, data)
        spelled.fit(coords, data, weights=None)
        probe = (ds.coordinates[0][::3] * 1.0, ds.coordinates[1][::3] * 1.0)
        with M.GL:
            run.evaluated("defaults:SplineCV_fit")
            same = (np.asarray(bare.scores_, dtype="float64").tobytes() == np.asarray(spelled.scores_, dtype="float64").tobytes()
                    and (bare.mindist_, bare.damping_) == (spelled.mindist_, spelled.damping_)
                    and np.array_equal(bare.predict(probe), spelled.predict(probe)))
            if not same:
                run.violation("defaults:SplineCV_fit", "SplineCV().fit(c, d) differs from the fit with every documented default spelled out: scores_ %r vs %r, "
                              "selected %r vs %r" % (bare.scores_, spelled.scores_, (bare.mindist_, bare.damping_), (spelled.mindist_, spelled.damping_)),
                              {"coordinates": list(ds.coordinates), "data": list(ds.data)}, key="defaults-splinecv-fit")
        # --- cross_val_score(est, c, d)
        est, _ = make_estimator(rng, run, vd, 1)
        short = vd.cross_val_score(est, coords, data)
        full = vd.cross_val_score(est, coords, data, weights=None, cv=KFold(n_splits=5, shuffle=True, random_state=0), client=None,
                                  delayed=False, scoring=None)
        with M.GL:
            run.evaluated("defaults:cross_val_score")
            if not (isinstance(short, np.ndarray) and np.shape(short) == np.shape(full) and np.asarray(short).tobytes() == np.asarray(full).tobytes()):
                run.violation("defaults:cross_val_score", "cross_val_score(est, c, d) = %r; with the documented defaults spelled out (KFold(n_splits=5, "
                              "shuffle=True, random_state=0), no weights, serial, R2) it is %r" % (short, full),
                              {"coordinates": list(ds.coordinates), "data": list(ds.data), "estimator": repr(est)}, key="defaults-cvs")
        lazy = vd.cross_val_score(est, coords, data, delayed=True)  # everything else defaulted
        lt = last_ticket(lazy)
        st = last_ticket(short)
        if lt is not None and st is not None and st.splits is not None:
            lt.splits = st.splits
            compute_under(run, lt, lazy, "threads-4", rng, np.asarray(short, dtype="float64"))
        # --- score(c, d) and train_test_split(c, d)
        train, test = vd.train_test_split(coords, data)
        again = vd.train_test_split(coords, data, None, spacing=None, shape=None)
        est2, _ = make_estimator(rng, run, vd, 1)
        est2.fit(*train[0:1], train[1][0])
        value = est2.score(test[0], test[1][0])
        full_value = est2.score(test[0], test[1][0], weights=None)
        with M.GL:
            run.evaluated("defaults:score")
            if not (np.float64(value).tobytes() == np.float64(full_value).tobytes()):
                run.violation("defaults:score", "score(c, d) = %r but score(c, d, weights=None) = %r" % (value, full_value), {}, key="defaults-score")
            run.evaluated("defaults:train_test_split")
            if len(again) != 2 or any(w is not None for part in (train, test) for w in part[2]):
                run.violation("defaults:train_test_split", "train_test_split(c, d) returned weights although none were given", {}, key="defaults-tts")
        with M.GL:
            M.flush_local(run)
    run.sample("defaults", {"dataset": info, "SplineCV()": repr(bare.get_params())[:300], "cross_val_score(est, c, d)": short})


def case_utm(run, rng, vd, index=0):
    """
    Blocked cross-validators on large-offset (UTM-like) coordinates: eastings ~5e5, northings ~7.5e6, a third of the points moved to
    0.01 - 10 m from an interior block edge. The rows of every split must be the rows the cross-validator yields for the float64
    feature matrix built by the harness (replayed), the scores those of the reference fitted on these rows; train_test_split with the
    same blocks must keep blocks whole.
    """
    from .. import ref

    n = int(rng.integers(45, 70 if run.tier == "quick" else 90))
    width, height = float(rng.uniform(300, 5000)), float(rng.uniform(300, 5000))
    east = 5e5 + rng.uniform(-4e4, 4e4) + rng.uniform(0, width, n)
    north = 7.5e6 + rng.uniform(-4e5, 4e5) + rng.uniform(0, height, n)
    if rng.random() < 0.5:
        kw = {"shape": (int(rng.integers(2, 5)), int(rng.integers(2, 5)))}
        counts = [kw["shape"][1], kw["shape"][0]]
    else:
        sp_n, sp_e = float(np.ptp(north) / rng.uniform(1.6, 4.4)), float(np.ptp(east) / rng.uniform(1.6, 4.4))
        kw = {"spacing": (sp_n, sp_e)}
        counts = [ref.n_intervals_for(east.min(), east.max(), None, sp_e)[0], ref.n_intervals_for(north.min(), north.max(), None, sp_n)[0]]
    # move interior points next to interior block edges (never the extreme points: the region must stay the same)
    moved = 0
    for axis, (values, count) in enumerate(zip((east, north), counts)):
        if count < 2:
            continue
        lo, hi = values.min(), values.max()
        edges = lo + (hi - lo) * np.arange(1, count) / count
        inner = [i for i in range(n) if i not in (int(np.argmin(values)), int(np.argmax(values)))]
        for i in rng.choice(inner, size=max(3, n // 6), replace=False):
            delta = float(10 ** rng.uniform(-2, 1)) * (1 if rng.random() < 0.5 else -1)
            values[i] = float(rng.choice(edges)) + delta
            moved += 1
    run.count("class:utm:points_moved_next_to_block_edges", moved)
    amp = gen.log_uniform(rng, 1e-1, 1e3)
    field = gen.smooth_field(rng, east, north, amplitude=amp)
    data = field + rng.uniform(0.15, 0.5) * np.std(field) * rng.normal(size=n)
    weights = 10 ** rng.uniform(-1, 1, n) if rng.random() < 0.5 else None
    try:
        ds = R.Dataset((east, north), (data,), None if weights is None else (weights,))
    except ValueError:
        run.count("utm_case_dropped:duplicate_points")
        return
    S.register(ds)
    feat = np.column_stack([ds.coordinates[0], ds.coordinates[1]])
    with warnings.catch_warnings():
        warnings.simplefilter("ignore")
        seed = int(rng.integers(0, 2 ** 31 - 1))
        for _ in range(20):
            if (index + _) % 2 == 0:
                k, shuffle = int(rng.integers(2, 5)), bool(rng.random() < 0.5)
                make = lambda k=k, shuffle=shuffle: vd.BlockKFold(n_splits=k, shuffle=shuffle, random_state=seed if shuffle else None, **kw)  # noqa: E731
                label = "BlockKFold"
            else:
                k, ts = int(rng.integers(2, 5)), float(rng.uniform(0.25, 0.5))
                make = lambda k=k, ts=ts: vd.BlockShuffleSplit(n_splits=k, test_size=ts, random_state=seed, **kw)  # noqa: E731
                label = "BlockShuffleSplit"
            try:
                splits = list(make().split(feat))
            except ValueError:
                run.count("cv_config_refused")
                continue
            if len(splits) >= 2 and all(len(te) >= 3 and len(tr) >= 12 for tr, te in splits):
                break
        else:
            run.count("utm_case_dropped:no_valid_cv")
            return
        run.count("class:utm:cv:" + label)
        run.count("class:utm:blocks:" + sorted(kw)[0])
        est, est_label = make_estimator(rng, run, vd, 1)
        scoring = pick_scoring(rng, run)
        c, d = (ds.coordinates[0].copy(), ds.coordinates[1].copy()), ds.data[0].copy()
        w = None if weights is None else ds.weights[0].copy()
        serial = vd.cross_val_score(est, c, d, weights=w, cv=R.RecordingCV(make(), label, remake=make), scoring=scoring)
        st = last_ticket(serial)
        lazy = vd.cross_val_score(est, c, d, weights=w, cv=R.RecordingCV(make(), label, remake=make), scoring=scoring, delayed=True)
        dt = last_ticket(lazy)
        if st is None or st.serial_values is None or dt is None:
            run.count("utm_case_not_judged")
        else:
            run.mark_nontrivial("utm", ds.coordinates[0], ds.coordinates[1], label, sorted(kw.items()), [s_[1] for s_ in st.splits])
            compute_under(run, dt, lazy, "threads-4", rng, st.serial_values if same_splits(dt.splits, st.splits) else None)
        # the same blocks in train_test_split
        try:
            vd.train_test_split(c, d, w, test_size=0.3, random_state=seed, **kw)
        except ValueError as exc:
            run.count("refused:train_test_split:" + str(exc)[:40])
    run.sample("utm", {"easting": ds.coordinates[0], "northing": ds.coordinates[1], "blocks": kw, "cv": label, "estimator": est_label,
                       "scores": None if st is None else st.serial_values})
    with M.GL:
        M.flush_local(run)
