"""
C16 - hull masking and grid projection keep values only where data constrain them.

Monitors sit on ``convexhull_mask`` and ``project_grid`` and judge every return, nested ones included
(``project_grid`` calls ``convexhull_mask`` in its grid form):

* mask: an independent exact convex hull (integer arithmetic on the binary values of the floats, cross-checked
  against ``ref.convex_hull``) decides every query point: strictly inside => True, strictly outside => False,
  within 1e-9 hull diameters of the boundary => either way (counted). Integer lattices are decided exactly
  (only points exactly on the boundary go either way). The grid form must blank exactly the same nodes.
* metamorphic: the mask does not change when data and queries go through x -> a*x + b per axis; array and
  grid forms agree.
* project_grid: name, dims, regular coordinates of the projected bounding box (or the requested region /
  shape / spacing), NaN strictly outside / finite strictly inside the hull of the projected valid cells,
  value reproduction at coinciding nodes for axis-aligned affine maps without antialiasing, range
  preservation with antialiasing and the convex methods.
"""
import collections
import os
import threading
import warnings

import numpy as np

from .. import gen, ref
from . import _c16_hull as hullmod

ID = "C16"
LEVEL = "exploration"
RULE = (
    "cases = (data cloud, query points, form, projection) for convexhull_mask and (grid, projection, method, antialias, kwargs) for "
    "project_grid. Clouds: uniform / jittered / clustered / anisotropic, 3..300 points, scales 1e-2..1e6, offsets up to 1e3 extents, "
    "integer lattices (exact classification), rotated thin hulls (width/diameter down to 1e-4), axis-aligned thin clouds with per-axis "
    "scales 1e-3..1e7 (aspect up to 1e14); queries: uniform around the hull, points 1e-14..1e-3 diameters either side of hull edges, hull "
    "vertices and data points themselves (data points only on hulls with width/diameter >= 1e-2; thinner hulls queried at their own data "
    "points are the always-on stream thin_vertices = known finding F11), far points, 0-d/1-D/2-D arrays, Dataset grids (square and non-square, "
    "1-2 variables). "
    "Affine metamorphic maps a in 1e-3..1e7, b up to 1e7 per axis. Grids 3x3..25x40 with NaN holes (interior, corner, band), named/unnamed, "
    "three dim namings; projections: axis-aligned affine incl. reflections, shear/rotation, separable monotone non-linear, polar / sinusoidal; "
    "Memory layouts (stream layouts): the same logical query / data / grid arrays as C, Fortran, transposed views, strided and negative-stride views, "
    "read-only, 3-D, pandas Series and with easting and northing in different layouts - judged element-wise by the oracle and against the C-ordered copy. "
    "Call histories (stream twins): data set A, a twin B of equal size with bit-identical per-coordinate mean and std (point-reflected, mirrored, re-paired "
    "dyadic lattices) or identical bounding box but a different hull, then A again - fresh objects and the same ndarrays modified in place, array and grid "
    "forms, identical queries; twin grids with mirrored hole patterns for project_grid. Constructions (stream constructions): the same (northing, easting) "
    "variable in Datasets / DataArrays put together in nine / six different ways (coordinates declared in either order, to_dataset, non-index coordinates first). "
    "Axes (stream axes and every project_grid stream): grids whose northing and/or easting vector is stored in decreasing order, unevenly spaced monotone "
    "axes and both combined, with hulls that are not symmetric under a flip (triangles, L-shapes). Names: None, strings, falsy names (0, 0.0, '', False) and "
    "non-string names (1, (1, 2), numpy integers, True, 2.5) - compared by type and value. "
    "Extra coordinates (stream extras): data_coordinates with three / four arrays whose ignored height / time is NaN, +inf or -inf at all or some hull vertices, "
    "at interior points or everywhere - same mask as the two-coordinate call. "
    "Concurrent calls (stream concurrent): 2-4 project_grid calls with the same string method on different grids (same shape, values offset by 1000, own names, "
    "own affine maps, antialias off) at the same time in threads - with a rendezvous inside the projection callable and in plain rounds - and concurrent "
    "convexhull_mask calls; each judged against its own inputs and against the same call made alone. "
    "Byte order (stream byteorder): data, query and grid index coordinates of dtype >f8, >f4, >i4 (astype and read-only np.frombuffer views), one or both "
    "arrays swapped, and big-endian grid values - compared with native copies of the same values. "
    "methods nearest/linear/cubic and gridder objects, both antialias settings, region/shape/spacing/dims kwargs; projected grids keep "
    "cell_aspect*(1+offset/extent) <= 1e4 except in the always-on stream pg_anisotropic (>= 1e5, known finding F10). Non-trivial = at least one "
    "query strictly inside and one strictly outside (mask) or a non-identity projection with a non-square grid (project_grid); distinct = "
    "hash of the inputs."
)
ASSUMPTIONS = [
    "either-way band: 1e-9 hull diameters + 16 eps * |coordinate|/extent, measured in the frame where each axis is divided by the data extent",
    "on integer lattices (and power-of-two multiples) the classification is exact; only points exactly on the boundary go either way",
    "with antialiasing and linear/cubic interpolation the interpolated points are block means, whose hull is smaller than the hull of the "
    "projected cells by at most one block diagonal: 'finite inside' is demanded deeper than that and the ring is counted as either-way",
    "qhull refusing a degenerate cloud (collinear points, hull width/diameter < 1e-7) is a documented refusal, counted not failed",
    "value reproduction is judged at output nodes that coincide with a projected data node within 64 eps of the coordinates' magnitude",
    "known finding F10: the main project_grid streams keep cell_aspect * (1 + offset/extent) of the projected grid <= 1e4; the strongly "
    "anisotropic class (>= 1e5, where Linear()/Cubic() built with rescale=False lose grid points in qhull) runs in the small stream pg_anisotropic",
    "known finding F11: on hulls thinner than 1e-2 (width/diameter, normalised frame) the main streams do not query the data points themselves; "
    "that class runs in the small stream thin_vertices. All other queries on thin hulls (uniform, boundary-hugging, hull vertices) stay in the main streams",
]
BYTE_ORDER_DTYPES_ = [">f8", ">f4", ">i4"]
AXES_ORIENTATIONS_ = ["ascending", "northing_descending", "easting_descending", "both_descending"]
FLOORS = {
    "quick": {"eval:mask_array": 120000, "eval:mask_grid": 55000, "eval:mask_affine_invariance": 50000, "eval:mask_forms_agree": 14000,
              "eval:pg_container": 240, "eval:pg_coordinates": 240, "eval:pg_nan_outside_hull": 6500, "eval:pg_finite_inside_hull": 22000,
              "eval:pg_affine_reproduces_values": 8000, "eval:pg_antialias_range": 7500, "mask:lattice_points_decided_exactly": 15000,
              "mask:calls_nested_in_project_grid": 240, "distinct_nontrivial": 1100},
    "thorough": {"eval:mask_array": 2400000, "eval:mask_grid": 1100000, "eval:mask_affine_invariance": 1000000, "eval:mask_forms_agree": 280000,
                 "eval:pg_container": 4800, "eval:pg_coordinates": 4800, "eval:pg_nan_outside_hull": 130000, "eval:pg_finite_inside_hull": 440000,
                 "eval:pg_affine_reproduces_values": 160000, "eval:pg_antialias_range": 150000, "mask:lattice_points_decided_exactly": 300000,
                 "mask:calls_nested_in_project_grid": 4800, "distinct_nontrivial": 22000},
}
LAYOUT_CLASSES = (
    ["query_" + k for k in ("fortran", "transposed_view", "strided", "negative_strides", "negative_rows_fortran", "readonly", "readonly_fortran",
                            "mixed_fortran_easting", "mixed_transposed_northing", "mixed_strided_negative", "3d_c", "3d_fortran", "3d_mixed",
                            "3d_axes_moved_view", "series", "1d_reversed_view")]
    + ["data_" + k for k in ("fortran", "transposed_view", "strided", "negative_strides", "readonly_fortran", "mixed_fortran_easting",
                             "mixed_transposed_northing", "series")]
    + ["data_and_query_fortran", "projection_with_mixed_layouts", "grid_values_fortran", "grid_values_transposed_view", "grid_transposed_twice",
       "grid_strided_coordinate_vectors"]
)
PG_LAYOUT_CLASSES = ["pg_values_fortran", "pg_values_transposed_view", "pg_transposed_twice", "pg_values_strided_coords_views", "pg_values_readonly_fortran"]
for _tier, _n in (("quick", 50), ("thorough", 1000)):
    FLOORS[_tier].update({"layout:" + k: int(0.4 * _n) for k in LAYOUT_CLASSES})
    FLOORS[_tier].update({"layout:" + k: int(0.2 * _n) for k in PG_LAYOUT_CLASSES})
    FLOORS[_tier].update({"eval:mask_layout_invariance": 1300 * _n, "eval:pg_layout_invariance": 110 * _n,
                          "mask:query_layout:2d_F|2d_F": int(1.6 * _n), "mask:query_layout:2d_F|2d_C": int(0.4 * _n), "mask:query_layout:3d_F|3d_F": int(0.4 * _n),
                          "mask:data_layout:2d_F|2d_C": int(0.8 * _n), "mask:grid_values_layout:2d_F": int(0.8 * _n), "pg:grid_values_layout:2d_F": int(0.4 * _n)})
CONSTRUCTION_CLASSES = (
    ["mask_grid:" + k for k in ("canonical", "coords_first_easting_first", "coords_first_northing_first", "dataarray_to_dataset_easting_first",
                                "dataarray_to_dataset_northing_first", "non_index_coordinates_declared_first", "easting_declared_first_everywhere",
                                "assigned_coords_afterwards", "second_variable_same_dims")]
    + ["project_grid:" + k for k in ("canonical", "coords_easting_first", "from_dataset_easting_first", "to_dataset_and_back",
                                     "non_index_coordinates_declared_first", "coords_as_list_of_pairs")]
)
for _tier, _twins, _cons in (("quick", 50, 30), ("thorough", 1000, 600)):
    FLOORS[_tier].update({"twins:" + k: int(0.4 * _twins / 5) for k in ("point_reflected", "mirrored_about_mean", "bbox_mirrored", "re_paired", "same_bbox")})
    FLOORS[_tier].update({"twins:history:" + k: int(0.4 * _twins) for k in ("array_fresh_objects", "array_in_place", "grid_form", "grid_form_in_place",
                                                                          "pg_fresh_objects", "pg_in_place")})
    FLOORS[_tier].update({"twins:stats_bit_identical": int(0.3 * _twins), "twins:pg_stats_bit_identical": int(0.25 * _twins), "twins:pg_nan_patterns_differ": int(0.7 * _twins),
                          "eval:twins_masks_differ": 100 * _twins, "eval:twins_history_free": 850 * _twins, "eval:twins_pg_history_free": 50 * _twins,
                          "eval:construction_invariance": 470 * _cons, "constructions:square": int(0.12 * _cons), "constructions:non_square": int(0.25 * _cons)})
    FLOORS[_tier].update({"construction:" + k: int(0.4 * _cons) for k in CONSTRUCTION_CLASSES})
for _tier, _n, _pg in (("quick", 60, 600), ("thorough", 1200, 12000)):
    FLOORS[_tier].update({"axes:%s:%s" % (o, sp): int(0.4 * _n / 8) for o in AXES_ORIENTATIONS_ for sp in ("uniform", "uneven")})
    FLOORS[_tier].update({"eval:mask_axes_agree": 40 * _n,
                          "pg:input_axes:northing_descending:uniform": int(0.03 * _pg), "pg:input_axes:easting_descending:uniform": int(0.02 * _pg),
                          "pg:input_axes:both_descending:uniform": int(0.02 * _pg), "pg:input_axes:ascending:uneven": int(0.06 * _pg),
                          "pg:input_axes:northing_descending:uneven": int(0.01 * _pg), "pg:name_none": int(0.06 * _pg), "pg:name_falsy_int": int(0.015 * _pg),
                          "pg:name_falsy_str": int(0.015 * _pg), "pg:name_falsy_bool": int(0.015 * _pg), "pg:name_falsy_float": int(0.015 * _pg),
                          "pg:name_non_string_tuple": int(0.015 * _pg), "pg:name_non_string_int64": int(0.015 * _pg), "pg:name_non_string_int": int(0.015 * _pg)})
for _tier, _n in (("quick", 50), ("thorough", 1000)):
    FLOORS[_tier].update({"eval:mask_extra_coordinate_invariance": 450 * _n, "extras:form:three_arrays_height": int(0.4 * _n), "extras:form:four_arrays_height_time": int(0.4 * _n),
                          "extras:nan_at_all_hull_vertices": int(0.02 * _n), "extras:posinf_at_some_hull_vertices": int(0.02 * _n), "extras:neginf_at_interior_points": int(0.02 * _n)})
for _tier, _n in (("quick", 8), ("thorough", 160)):
    FLOORS[_tier].update({"eval:concurrent_equals_alone": int(0.4 * 11 * _n), "concurrent:project_grid_rendezvous_rounds": int(0.5 * _n),
                          "concurrent:rendezvous_met": int(0.4 * _n), "concurrent:project_grid_plain_rounds": int(0.5 * _n),
                          "concurrent:project_grid_shared_inputs_rounds": int(0.5 * _n), "concurrent:convexhull_mask_rounds": int(0.5 * _n),
                          "concurrent:plain_rounds_with_yield_injection": int(0.2 * _n), "yields_injected": 20 * _n})
for _tier, _n in (("quick", 350), ("thorough", 7000)):
    FLOORS[_tier].update({"eval:pg_defaults_equal_explicit": int(0.4 * _n / 2), "defaults:project_grid_without_method_and_antialias": int(0.4 * _n / 6),
                          "defaulted_argument:project_grid.method": int(0.4 * _n / 3), "defaulted_argument:project_grid.antialias": int(0.4 * _n / 3),
                          "defaulted_argument:convexhull_mask.projection": 1000 if _tier == "quick" else 20000})
for _tier, _n in (("quick", 36), ("thorough", 720)):
    FLOORS[_tier].update({"eval:byteorder_invariance": int(0.4 * 9 * _n), "byteorder:grid_index_coordinate_stays_non_native": int(0.4 * _n)})
    FLOORS[_tier].update({"byteorder:dtype_" + d: int(0.12 * _n) for d in BYTE_ORDER_DTYPES_})
    FLOORS[_tier].update({"byteorder:" + k: int(0.4 * _n) for k in ("mask_data_swapped", "mask_query_swapped", "mask_both_swapped", "mask_easting_only_swapped",
                                                                  "mask_query_1d_swapped", "mask_grid_index_coordinates_swapped", "mask_grid_and_data_swapped",
                                                                  "mask_data_swapped")})
    FLOORS[_tier]["byteorder:project_grid_values_swapped_no_antialias"] = int(0.25 * _n)
    FLOORS[_tier].update({"byteorder:made_by_frombuffer": int(0.2 * _n), "byteorder:made_by_astype": int(0.2 * _n)})
JOBS = {"quick": 1, "thorough": 8}
CASE_TIMEOUT_S = 300

_STATE = {}


def plan(tier):
    if tier == "quick":
        out = collections.OrderedDict(cloud=300, lattice=150, thin=200, affine=120, forms=120, layouts=50, twins=50, constructions=30, axes=60, extras=50, byteorder=36, concurrent=8, pg_affine=250, pg_general=350)
    else:
        out = collections.OrderedDict(cloud=6000, lattice=3000, thin=4000, affine=2400, forms=2400, layouts=1000, twins=1000, constructions=600, axes=1200, extras=1000, byteorder=720, concurrent=160, pg_affine=5000, pg_general=7000)
    # two small always-on streams reproduce the known findings F10 / F11 (known_findings.json) in every run: case 0 of each is a fixed
    # witness, the rest are seeded inputs of the same class. Everything they trigger must match the finding's classifier below,
    # anything else is reported as a plain violation.
    out["pg_anisotropic"] = 6 if tier == "quick" else 60
    out["thin_vertices"] = 6 if tier == "quick" else 60
    return out


def _is_anisotropic(vio):
    """F10: value reproduction fails for linear/cubic without antialiasing on a strongly anisotropic / offset projected grid."""
    wit = vio.get("witness") or {}
    cond = wit.get("conditioning")
    return (vio.get("monitor") == "pg_affine_reproduces_values" and isinstance(cond, (int, float)) and not isinstance(cond, bool) and cond >= 1e5
            and str(wit.get("method", "")).lower() in ("linear", "cubic") and wit.get("antialias") is False)


def _is_thin_hull_vertex(vio):
    """F11: data points strictly inside a thin (width/diameter < 1e-2) hull are masked False; nothing else is wrong."""
    wit = vio.get("witness") or {}
    thin = wit.get("thin_ratio")
    return (vio.get("monitor") == "mask_array" and isinstance(thin, (int, float)) and not isinstance(thin, bool) and thin < 1e-2
            and wit.get("wrong_points_are_data_points") is True and wit.get("wrong_points_strictly_inside") is True)


CLASSIFIERS = {"anisotropic_projected_grid": _is_anisotropic, "thin_hull_data_point_query": _is_thin_hull_vertex}


# ----------------------------------------------------------------------
# monitors
# ----------------------------------------------------------------------
def _two(coords):
    return tuple(np.ravel(np.atleast_1d(np.asarray(c, dtype="float64"))) for c in tuple(coords)[:2])


def _grid_nodes(grid):
    """(east2d, north2d, dims) of a Dataset / DataArray whose first dimension is northing-like."""
    if hasattr(grid, "data_vars"):
        dims = [grid[var].dims for var in grid.data_vars][0]
    else:
        dims = grid.dims
    north = np.asarray(grid.coords[dims[0]].values, dtype="float64")
    east = np.asarray(grid.coords[dims[1]].values, dtype="float64")
    east2d = np.broadcast_to(east[None, :], (north.size, east.size))
    north2d = np.broadcast_to(north[:, None], (north.size, east.size))
    return east2d, north2d, dims


def layout_of(arr):
    """Memory-layout class of an argument as the code under test receives it (what the evidence counts)."""
    name = type(arr).__name__
    if name == "Series":
        return "series"
    if not isinstance(arr, np.ndarray):
        return "sequence" if isinstance(arr, (list, tuple)) else name
    tags = ["%dd" % arr.ndim]
    if arr.ndim >= 2 and min(arr.shape) > 1:
        if arr.flags.c_contiguous:
            tags.append("C")
        elif arr.flags.f_contiguous:
            tags.append("F")
        else:
            tags.append("strided")
    elif arr.ndim == 1 and arr.size > 1 and not arr.flags.c_contiguous:
        tags.append("strided")
    if any(st < 0 for st in arr.strides):
        tags.append("negative")
    if not arr.flags.writeable:
        tags.append("readonly")
    return "_".join(tags)


def axes_class(east, north):
    """orientation:spacing class of a grid's two coordinate vectors."""
    def one(v):
        d = np.diff(np.asarray(v, dtype="float64"))
        if d.size == 0:
            return "single", True
        direction = "ascending" if np.all(d > 0) else "descending" if np.all(d < 0) else "unordered"
        uniform = bool(np.max(np.abs(d - d.mean())) <= 1e-9 * np.max(np.abs(d)))
        return direction, uniform
    (de_, ue), (dn_, un) = one(east), one(north)
    orient = {("ascending", "ascending"): "ascending", ("ascending", "descending"): "northing_descending",
              ("descending", "ascending"): "easting_descending", ("descending", "descending"): "both_descending"}.get((de_, dn_), "other")
    return "%s:%s" % (orient, "uniform" if ue and un else "uneven")


def _qhull_error():
    try:
        from scipy.spatial import QhullError
    except ImportError:  # pragma: no cover
        from scipy.spatial.qhull import QhullError
    return QhullError


def install(tap, run):
    import verde
    import verde.mask as vmask
    import verde.projections as vproj

    QhullError = _qhull_error()
    _STATE["QhullError"] = QhullError
    try:  # a broken tree that asks for a multi-gigabyte grid must fail with MemoryError (a recorded violation), not be OOM-killed
        import resource

        soft, hard = resource.getrlimit(resource.RLIMIT_AS)
        cap = 6 * 1024 ** 3
        if soft == resource.RLIM_INFINITY or soft > cap:
            resource.setrlimit(resource.RLIMIT_AS, (cap, hard))
    except (ImportError, ValueError, OSError):
        pass

    hull_cache = collections.OrderedDict()
    hull_lock = threading.Lock()  # monitors also run in the threads of the `concurrent` stream

    def make_hull(x, y):
        key = (np.asarray(x, dtype="float64").tobytes(), np.asarray(y, dtype="float64").tobytes())
        with hull_lock:
            if key in hull_cache:
                hull_cache.move_to_end(key)
                return hull_cache[key]
        hull = _make_hull(x, y)
        with hull_lock:
            hull_cache[key] = hull
            if len(hull_cache) > 16:
                hull_cache.popitem(last=False)
        return hull

    def _make_hull(x, y):
        hull = hullmod.Hull(x, y)
        if hull.finite and not hull.degenerate and hull.x.size <= 48:
            run.count("hull_cross_checked_against_ref")
            if not hull.cross_check():
                raise AssertionError("integer hull and ref.convex_hull disagree")
        return hull

    _STATE["make_hull"] = make_hull

    # -------------------------------------------------------------- convexhull_mask
    def post_mask(ev):
        a = ev.args
        grid, projection = a.get("grid"), a.get("projection")
        if a.get("coordinates") is None and grid is None:
            return
        try:
            dx, dy = _two(a["data_coordinates"])
            if grid is None:
                qshape = np.shape(a["coordinates"][0])
                qx, qy = _two(a["coordinates"])
            else:
                e2, n2, _ = _grid_nodes(grid)
                qshape = e2.shape
                qx, qy = e2.ravel(), n2.ravel()
            if projection is not None:
                dx, dy = _two(projection(dx, dy))
                qx, qy = _two(projection(qx, qy))
        except Exception:  # noqa: BLE001 - malformed arguments are not this property's business
            run.count("skipped:mask_arguments_not_understood")
            return
        if dx.size != dy.size or qx.size != qy.size:
            return
        if not (np.all(np.isfinite(qx)) and np.all(np.isfinite(qy))):
            run.count("skipped:mask_nonfinite_queries")
            return
        hull = make_hull(dx, dy)
        if not hull.finite:
            run.count("skipped:mask_nonfinite_data")
            return
        witness = {"thin_ratio": getattr(hull, "thin_ratio", None), "data_easting": dx, "data_northing": dy, "query_easting": qx, "query_northing": qy,
                   "form": "grid" if grid is not None else "array",
                   "projection": getattr(projection, "label", repr(projection)) if projection is not None else None}
        if ev.exc is not None:
            if isinstance(ev.exc, (QhullError, ValueError)):
                # qhull (or scipy's input validation, when a zero spread made the normalised coordinates NaN) refusing a degenerate
                # cloud is the documented refusal; refusing a cloud whose hull has a positive, well-conditioned area is not
                run.evaluated("mask_refusal")
                if hull.degenerate or hull.thin_ratio < 1e-7:
                    run.count("refused:degenerate_hull_%s" % type(ev.exc).__name__)
                else:
                    witness["thin_ratio"] = hull.thin_ratio
                    run.violation("mask_refusal", "%s for a non-degenerate cloud (hull width/diameter %.3g in the normalised frame): %s"
                                  % (type(ev.exc).__name__, hull.thin_ratio, str(ev.exc)[:200]), witness, key="mask:refusal:" + type(ev.exc).__name__)
            return
        if hull.degenerate:
            run.count("skipped:mask_degenerate_hull_accepted")
            return
        exact_mode = bool(_STATE.get("exact_lattice"))
        if exact_mode:
            sign = hull.classify_exact(qx, qy)
            inside, outside, either = sign > 0, sign < 0, sign == 0
            depth, margin = hull.depth(qx, qy), 0.0
        else:
            # coordinates handed over in single precision are normalised in single precision: the round-off part of the band follows the
            # precision of the arguments (the 1e-9 diameters stay)
            eps = ref.EPS
            try:
                given = list(a["data_coordinates"][:2]) + (list(a["coordinates"][:2]) if grid is None else [grid.coords[d].values for d in _grid_nodes(grid)[2][:2]])
                if any(getattr(np.asarray(c), "dtype", np.dtype("float64")) == np.dtype("float32").newbyteorder(o) for c in given for o in ("<", ">")):
                    eps = float(np.finfo("float32").eps)
                    run.count("mask:single_precision_arguments")
            except Exception:  # noqa: BLE001
                pass
            inside, outside, either, depth, margin = hull.classify(qx, qy, eps=eps)
            if margin > 1e-3:
                run.count("skipped:mask_uninformative_margin")
                return
        res = ev.result
        problems = []
        if grid is None:
            mask = np.asarray(res)
            if mask.dtype != bool:
                problems.append("mask dtype %s is not bool" % mask.dtype)
            elif mask.shape != tuple(qshape):
                problems.append("mask shape %r differs from the coordinates' shape %r" % (mask.shape, tuple(qshape)))
            else:
                flat = mask.ravel()
                wrong_in = inside & ~flat
                wrong_out = outside & flat
                if wrong_in.any() or wrong_out.any():
                    k = int(np.argmax(wrong_in | wrong_out))
                    bad = np.flatnonzero(wrong_in | wrong_out)
                    witness["wrong_points"] = [qx[bad], qy[bad]]
                    witness["wrong_points_depth"] = depth[bad]
                    witness["wrong_points_are_data_points"] = bool(all(np.any((dx == qx[j]) & (dy == qy[j])) for j in bad))
                    witness["wrong_points_strictly_inside"] = bool(not wrong_out.any())
                    problems.append("point (%r, %r) is %s the hull (depth %.3g diameters, band %.3g) but the mask says %s; %d of %d points wrong"
                                    % (float(qx[k]), float(qy[k]), "strictly inside" if inside[k] else "strictly outside", float(depth[k]),
                                       margin, bool(flat[k]), int(wrong_in.sum() + wrong_out.sum()), flat.size))
                witness["mask"] = mask
            run.evaluated("mask_array", int((~either).sum()))
        else:
            names = list(grid.data_vars) if hasattr(grid, "data_vars") else [None]
            for name in names:
                try:
                    got = np.asarray(res[name].values if name is not None else res.values)
                    src = np.asarray(grid[name].values if name is not None else grid.values)
                except Exception as exc:  # noqa: BLE001
                    problems.append("grid form did not return the variables of the grid: %r" % (exc,))
                    break
                if got.shape != tuple(qshape):
                    problems.append("masked variable %r has shape %r, grid nodes %r" % (name, got.shape, tuple(qshape)))
                    break
                got, src = got.ravel(), src.ravel()
                with np.errstate(invalid="ignore"):
                    kept = (got == src) | (np.isnan(got.astype("float64")) & np.isnan(src.astype("float64")))
                blanked = np.isnan(got.astype("float64"))
                wrong_in = inside & ~kept
                wrong_out = outside & ~blanked
                if wrong_in.any() or wrong_out.any():
                    k = int(np.argmax(wrong_in | wrong_out))
                    problems.append("grid node (%r, %r) is %s the hull (depth %.3g, band %.3g) but variable %r is %r there (input %r); %d nodes wrong"
                                    % (float(qx[k]), float(qy[k]), "strictly inside" if inside[k] else "strictly outside", float(depth[k]), margin,
                                       name, got[k].item(), src[k].item(), int(wrong_in.sum() + wrong_out.sum())))
                    witness["masked_values"] = got
                    break
            run.evaluated("mask_grid", int((~either).sum()))
        run.count("mask:points_strictly_inside", int(inside.sum()))
        run.count("mask:points_strictly_outside", int(outside.sum()))
        run.count("either_way:mask_boundary_band" if not exact_mode else "either_way:mask_exactly_on_boundary", int(either.sum()))
        if exact_mode:
            run.count("mask:lattice_points_decided_exactly", int((~either).sum()))
        if np.any(~either):
            run.observe_max("mask_smallest_decided_depth_log10_inverse", -np.log10(max(float(np.min(np.abs(depth[~either]))), 1e-300)))
        if inside.any() and outside.any():
            run.mark_nontrivial("mask", dx, dy, qx, qy, grid is not None)
        run.count("mask:calls_nested_in_project_grid" if ev.parent is not None else "mask:calls_direct")
        try:
            if grid is None:
                run.count("mask:query_layout:%s|%s" % (layout_of(a["coordinates"][0]), layout_of(a["coordinates"][1])))
            else:
                first = grid[list(grid.data_vars)[0]] if hasattr(grid, "data_vars") else grid
                run.count("mask:grid_values_layout:%s" % layout_of(np.asarray(first.values) if not isinstance(first.values, np.ndarray) else first.values))
            run.count("mask:data_layout:%s|%s" % (layout_of(a["data_coordinates"][0]), layout_of(a["data_coordinates"][1])))
        except Exception:  # noqa: BLE001
            pass
        for problem in problems[:1]:
            run.violation("mask_grid" if grid is not None else "mask_array", problem, witness,
                          key="mask:%s:%s" % ("grid" if grid is not None else "array", problem.split(" ")[0]))

    # -------------------------------------------------------------- project_grid
    def post_project(ev):
        import xarray as xr

        a = ev.args
        grid, projection, method, antialias = a["grid"], a["projection"], a["method"], a["antialias"]
        kwargs = dict(a.get("kwargs") or {})
        if ev.exc is not None:
            if isinstance(ev.exc, QhullError) and isinstance(grid, xr.DataArray) and grid.ndim == 2:
                # qhull refusing degenerate input is the documented refusal. Without antialiasing the triangulated points are the
                # projected valid cells themselves, so the refusal can be judged; with it they are block means (counted only).
                try:
                    e2, n2, _ = _grid_nodes(grid)
                    valid = ~np.isnan(np.asarray(grid.values, dtype="float64"))
                    pe, pn = _two(projection(np.ascontiguousarray(e2[valid]), np.ascontiguousarray(n2[valid])))
                    hull = make_hull(pe, pn)
                except Exception:  # noqa: BLE001
                    run.count("refused:project_grid_qhull_unjudged")
                    return
                if not hull.finite or hull.degenerate or hull.thin_ratio < 1e-7:
                    run.count("refused:project_grid_qhull_degenerate_cells")
                elif antialias:
                    run.count("refused:project_grid_qhull_on_block_means (%d valid cells)" % min(int(valid.sum()), 9))
                else:
                    run.evaluated("pg_refusal")
                    run.violation("pg_refusal", "project_grid raised QhullError although the projected valid cells have a non-degenerate hull "
                                  "(width/diameter %.3g, %d cells): %s" % (hull.thin_ratio, int(valid.sum()), str(ev.exc)[:200]),
                                  {"grid": grid, "grid_values": np.asarray(grid.values), "projection": getattr(projection, "label", None),
                                   "method": method if isinstance(method, str) else type(method).__name__, "antialias": bool(antialias),
                                   "thin_ratio": hull.thin_ratio}, key="pg:qhull_refusal")
            return
        if not isinstance(grid, xr.DataArray) or grid.ndim != 2:
            return
        res = ev.result
        label = getattr(projection, "label", "unlabelled")
        method_name = method if isinstance(method, str) else type(method).__name__
        witness = {"grid": grid, "grid_values": np.asarray(grid.values), "grid_dims": list(grid.dims),
                   "grid_northing": np.asarray(grid.coords[grid.dims[0]].values), "grid_easting": np.asarray(grid.coords[grid.dims[1]].values),
                   "projection": label, "method": method_name, "antialias": bool(antialias),
                   "kwargs": {k: v for k, v in kwargs.items()}, "result": res}
        unsupported = set(kwargs) - {"region", "shape", "spacing", "dims"}
        if unsupported:
            run.count("skipped:project_grid_kwargs_" + "_".join(sorted(unsupported)))
            return

        def fail(monitor, message, key):
            run.violation(monitor, message, witness, key="pg:" + key)

        # independent projection of the valid cells
        e2, n2, dims = _grid_nodes(grid)
        vals = np.asarray(grid.values, dtype="float64")
        valid = ~np.isnan(vals)
        if valid.sum() < 3:
            return
        pe, pn = _two(projection(np.ascontiguousarray(e2[valid]), np.ascontiguousarray(n2[valid])))
        if not (np.all(np.isfinite(pe)) and np.all(np.isfinite(pn))):
            run.count("skipped:project_grid_nonfinite_projection")
            return
        data_region = (float(pe.min()), float(pe.max()), float(pn.min()), float(pn.max()))
        witness["conditioning"] = conditioning(pe, pn, grid.shape)
        run.seen("pg_conditioning_decades", int(np.floor(np.log10(max(witness["conditioning"], 1.0)))) if np.isfinite(witness["conditioning"]) else "inf")

        # --- container: type, name, dims ------------------------------------
        run.evaluated("pg_container")
        want_name = grid.name if grid.name is not None else "scalars"
        want_dims = tuple(kwargs.get("dims", ("northing", "easting")))
        if not isinstance(res, xr.DataArray):
            fail("pg_container", "result is %s, not a DataArray" % type(res).__name__, "type")
            return
        run.count("pg:name_%s" % ("none" if grid.name is None else "str" if isinstance(grid.name, str) and grid.name else
                                  "falsy_%s" % type(grid.name).__name__ if not grid.name else "non_string_%s" % type(grid.name).__name__))
        same_name = type(res.name) is type(want_name) and res.name == want_name
        if not same_name:
            fail("pg_container", "result is named %r (%s), the input grid %r (%s): expected %r - only a grid without a name becomes 'scalars'"
                 % (res.name, type(res.name).__name__, grid.name, type(grid.name).__name__, want_name), "name")
        if tuple(res.dims) != want_dims:
            fail("pg_container", "result dims %r, expected %r (northing-like first, as in the input)" % (tuple(res.dims), want_dims), "dims")
            return

        # --- coordinates: regular grid of the region with the shape / spacing --
        run.evaluated("pg_coordinates")
        region = tuple(float(v) for v in kwargs.get("region", data_region))
        north_out = np.asarray(res.coords[want_dims[0]].values, dtype="float64")
        east_out = np.asarray(res.coords[want_dims[1]].values, dtype="float64")
        problem = None
        if "spacing" in kwargs:
            sp = np.atleast_1d(kwargs["spacing"])
            sp_n, sp_e = (float(sp[0]), float(sp[0])) if sp.size == 1 else (float(sp[0]), float(sp[1]))
            pe_, ie = ref.check_line(east_out, region[0], region[1], None, sp_e, "spacing", False)
            pn_, inn = ref.check_line(north_out, region[2], region[3], None, sp_n, "spacing", False)
            if ie.get("tie") or inn.get("tie"):
                run.count("either_way:pg_spacing_tie")
            problem = ("easting: " + pe_) if pe_ else ("northing: " + pn_) if pn_ else None
        else:
            shape = tuple(int(v) for v in kwargs.get("shape", grid.shape))
            for name, got, lo, hi, n in (("easting", east_out, region[0], region[1], shape[1]), ("northing", north_out, region[2], region[3], shape[0])):
                if got.shape != (n,):
                    problem = "%s has %d nodes, expected %d (shape %r)" % (name, got.size, n, shape)
                    break
                want = ref.line_nodes(lo, hi, n - 1, False)
                tol = 2 * ref.line_tolerance(lo, hi) + (16 * ref.EPS * max(abs(lo), abs(hi)) if "region" not in kwargs else 0.0)
                err = float(np.max(np.abs(got - want)))
                run.observe_max("pg_coordinate_error_over_tolerance", err / tol)
                if not err <= tol:
                    problem = "%s is not the regular grid of %s [%r, %r] with %d nodes: off by %.3g (tolerance %.3g)" % (
                        name, "the requested region" if "region" in kwargs else "the projected data's bounding box", lo, hi, n, err, tol)
                    break
        if problem is None and tuple(res.shape) != (north_out.size, east_out.size):
            problem = "values have shape %r, coordinates %r" % (tuple(res.shape), (north_out.size, east_out.size))
        if problem:
            fail("pg_coordinates", problem, "coordinates:" + problem.split(" ")[0])
            return

        # --- NaN outside / finite inside the hull of the projected valid cells --
        out = np.asarray(res.values, dtype="float64")
        hull = make_hull(pe, pn)
        nodes_e = np.broadcast_to(east_out[None, :], out.shape).ravel()
        nodes_n = np.broadcast_to(north_out[:, None], out.shape).ravel()
        flat = out.ravel()
        if hull.degenerate:
            run.count("skipped:pg_degenerate_hull")
            return
        inside, outside, either, depth, margin = hull.classify(nodes_e, nodes_n)
        if margin > 1e-3:
            run.count("skipped:pg_uninformative_margin")
            return
        run.evaluated("pg_nan_outside_hull", int(outside.sum()))
        wrong = outside & ~np.isnan(flat)
        if wrong.any():
            k = int(np.argmax(wrong))
            fail("pg_nan_outside_hull", "node (%r, %r) lies strictly outside the hull of the projected data (depth %.3g, band %.3g) but holds %r; %d such nodes"
                 % (float(nodes_e[k]), float(nodes_n[k]), float(depth[k]), margin, float(flat[k]), int(wrong.sum())), "finite_outside")
        convex = isinstance(method, str) and method in ("nearest", "linear") or (
            type(method) in (verde.KNeighbors, verde.Linear) and getattr(method, "reduction", np.mean) is np.mean)
        nearest = (isinstance(method, str) and method == "nearest") or type(method) is verde.KNeighbors
        interpolating = isinstance(method, str) or type(method) in (verde.KNeighbors, verde.Linear, verde.Cubic)
        ring = 0.0
        if antialias and not nearest:
            # block means move the interpolated points inwards by at most one block diagonal (normalised frame)
            if "spacing" in kwargs:
                sp = np.atleast_1d(kwargs["spacing"])
                sp_n, sp_e = (float(sp[0]), float(sp[0])) if sp.size == 1 else (float(sp[0]), float(sp[1]))
            else:
                shape = tuple(int(v) for v in kwargs.get("shape", grid.shape))
                sp_e = (region[1] - region[0]) / max(shape[1] - 1, 1)
                sp_n = (region[3] - region[2]) / max(shape[0] - 1, 1)
            blocks = []
            for extent, sp_k in ((data_region[1] - data_region[0], sp_e), (data_region[3] - data_region[2], sp_n)):
                q = extent / sp_k if sp_k > 0 else 1.0
                nb = int(np.floor(q + 0.5))
                if abs((q + 0.5) - round(q + 0.5)) < 1e-6:
                    nb -= 1
                blocks.append(extent / max(nb, 1))
            ring = 1.001 * float(np.hypot(blocks[0] / hull.sx, blocks[1] / hull.sy))
        deep = depth > margin + ring
        if interpolating or nearest:
            run.evaluated("pg_finite_inside_hull", int(deep.sum()))
            run.count("either_way:pg_antialias_boundary_ring", int((inside & ~deep).sum()))
            wrong = deep & np.isnan(flat)
            if wrong.any():
                k = int(np.argmax(wrong))
                fail("pg_finite_inside_hull", "node (%r, %r) lies strictly inside the hull of the projected data (depth %.3g, band %.3g, antialias ring %.3g) "
                     "but is NaN; %d such nodes" % (float(nodes_e[k]), float(nodes_n[k]), float(depth[k]), margin, ring, int(wrong.sum())), "nan_inside")
        run.count("either_way:pg_hull_boundary_band", int(either.sum()))
        run.count("pg:nodes_strictly_outside", int(outside.sum()))
        run.count("pg:nodes_strictly_inside", int(inside.sum()))

        # --- values: reproduction (no antialias, axis-aligned affine) ----------
        good = vals[valid]
        vmin, vmax = float(good.min()), float(good.max())
        vscale = max(abs(vmin), abs(vmax), np.finfo("float64").tiny)
        affine = getattr(projection, "axis_affine", None)
        if not antialias and affine is not None and (isinstance(method, str) or type(method) in (verde.Linear, verde.Cubic)
                                                     or (type(method) is verde.KNeighbors and method.k == 1)):
            step_e = (east_out[-1] - east_out[0]) / max(east_out.size - 1, 1)
            step_n = (north_out[-1] - north_out[0]) / max(north_out.size - 1, 1)
            if step_e > 0 and step_n > 0:
                je = np.rint((pe - east_out[0]) / step_e).astype(int)
                jn = np.rint((pn - north_out[0]) / step_n).astype(int)
                ok = (je >= 0) & (je < east_out.size) & (jn >= 0) & (jn < north_out.size)
                je, jn = np.clip(je, 0, east_out.size - 1), np.clip(jn, 0, north_out.size - 1)
                tol_e = 64 * ref.EPS * max(np.max(np.abs(east_out)), np.max(np.abs(pe)))
                tol_n = 64 * ref.EPS * max(np.max(np.abs(north_out)), np.max(np.abs(pn)))
                if tol_e > 1e-10 * step_e or tol_n > 1e-10 * step_n:
                    run.count("skipped:pg_reproduction_coordinates_too_coarse")
                else:
                    coincide = ok & (np.abs(east_out[je] - pe) <= tol_e) & (np.abs(north_out[jn] - pn) <= tol_n)
                    got = out[jn, je]
                    check = coincide & ~np.isnan(got)
                    run.evaluated("pg_affine_reproduces_values", int(check.sum()))
                    run.count("pg:coinciding_nodes_masked_on_boundary", int((coincide & np.isnan(got)).sum()))
                    if check.any():
                        err = np.abs(got[check] - good[check])
                        run.observe_max("pg_reproduction_error_over_1e-9_scale" + ("" if witness["conditioning"] < 1e5 else ":known_finding_F10_class"),
                                        float(err.max()) / (1e-9 * vscale))
                        if not err.max() <= 1e-9 * vscale:
                            k = int(np.argmax(np.where(check, np.abs(got - good), 0)))
                            try:  # mechanism evidence only (scipy, not verde): how many points does an unscaled triangulation keep?
                                from scipy.spatial import Delaunay

                                tri = Delaunay(np.transpose([pe, pn]))
                                witness["delaunay_points"] = int(pe.size)
                                witness["delaunay_vertices_used"] = int(np.unique(tri.simplices).size)
                            except Exception as exc:  # noqa: BLE001
                                witness["delaunay_evidence_failed"] = repr(exc)[:200]
                            fail("pg_affine_reproduces_values", "axis-aligned affine projection without antialiasing: output node (%r, %r) coincides with a "
                                 "projected data node carrying %r but holds %r; %d of %d coinciding nodes differ by more than 1e-9 of the data scale"
                                 % (float(pe[k]), float(pn[k]), float(good[k]), float(got[k]), int((err > 1e-9 * vscale).sum()), int(check.sum())),
                                 "reproduction:" + method_name)
        # --- values: range under antialiasing with the convex methods ----------
        if antialias and convex:
            finite = ~np.isnan(flat)
            run.evaluated("pg_antialias_range", int(finite.sum()))
            tol = 1e-12 * vscale
            if finite.any():
                over = max(float(flat[finite].max()) - vmax, vmin - float(flat[finite].min()))
                run.observe_max("pg_range_excess_over_1e-12_scale", over / tol)
                if over > tol:
                    fail("pg_antialias_range", "with antialiasing and method %s a projected value leaves the input range [%r, %r] by %.3g (result min %r max %r)"
                         % (method_name, vmin, vmax, over, float(flat[finite].min()), float(flat[finite].max())), "range:" + method_name)
        run.count("pg:method_%s:antialias_%s" % (method_name, bool(antialias)))
        run.count("pg:grid_values_layout:%s" % layout_of(grid.values))
        run.count("pg:input_axes:%s" % axes_class(np.asarray(grid.coords[dims[1]].values), np.asarray(grid.coords[dims[0]].values)))
        run.count("pg:projection_%s" % label)
        run.count("pg:holes_%s" % ("yes" if not valid.all() else "no"))
        run.count("pg:kwargs_%s" % ("+".join(sorted(kwargs)) or "none"))
        if label != "identity" and grid.shape[0] != grid.shape[1]:
            run.mark_nontrivial("pg", vals, np.asarray(grid.coords[dims[0]].values), np.asarray(grid.coords[dims[1]].values), label,
                                getattr(projection, "params", None), method_name, bool(antialias), sorted(kwargs.items(), key=str))

    # documented defaults (docstrings of the tree as pinned): a caller that leaves them out is judged against these, not against
    # whatever the signature under test supplies
    tap.function(vmask, "convexhull_mask", post=post_mask, documented={"coordinates": None, "grid": None, "projection": None})
    tap.function(vproj, "project_grid", post=post_project, documented={"method": "linear", "antialias": True})


# ----------------------------------------------------------------------
# generators
# ----------------------------------------------------------------------
class Projection:
    """A callable projection with a label (and, for axis-aligned affine maps, the tag the reproduction monitor needs)."""

    def __init__(self, label, fn, params=None, axis_affine=None):
        self.label, self.fn, self.params, self.axis_affine = label, fn, params, axis_affine

    def __call__(self, easting, northing):
        return self.fn(np.asarray(easting, dtype="float64"), np.asarray(northing, dtype="float64"))

    def __repr__(self):
        return "Projection(%s, %r)" % (self.label, self.params)


def conditioning(pe, pn, shape):
    """cell aspect * (1 + offset / extent) of projected coordinates: what unscaled triangulation back-ends are sensitive to."""
    ext_e, ext_n = float(np.ptp(pe)), float(np.ptp(pn))
    if ext_e <= 0 or ext_n <= 0:
        return np.inf
    cell_e, cell_n = ext_e / max(shape[1] - 1, 1), ext_n / max(shape[0] - 1, 1)
    aspect = max(cell_e / cell_n, cell_n / cell_e)
    offset = max(np.max(np.abs(pe)) / ext_e, np.max(np.abs(pn)) / ext_n)
    return float(aspect * (1.0 + offset))


def axis_affine(rng, grid_e, grid_n, reflect=None, anisotropic=False):
    """
    x -> a*x + b, y -> c*y + d (reflections when a or c < 0). The projected cell aspect stays within 1/20..20 and the
    offset within 300 extents (conditioning <= 1e4) unless ``anisotropic``: see the finding recorded in the module docstring.
    """
    ext_e, ext_n = float(np.ptp(grid_e)) or 1.0, float(np.ptp(grid_n)) or 1.0
    cell_e, cell_n = ext_e / max(grid_e.size - 1, 1), ext_n / max(grid_n.size - 1, 1)
    size = float(10 ** rng.uniform(-2, 4))  # projected easting cell
    aspect = float(10 ** rng.uniform(-1.3, 1.3)) if not anisotropic else float(10 ** rng.uniform(3, 7) * rng.choice([1.0, -1.0]))
    if anisotropic:
        aspect = abs(aspect) if aspect > 0 else 1.0 / abs(aspect)
    sign = (rng.choice([-1.0, 1.0]), rng.choice([-1.0, 1.0])) if reflect is None else reflect
    a = float(sign[0] * size / cell_e)
    c = float(sign[1] * size * aspect / cell_n)
    factor = float(rng.choice([0.0, 1.0, 30.0, 300.0])) if not anisotropic else float(rng.choice([0.0, 10.0, 1e3]))
    b = factor * rng.uniform(-1, 1) * abs(a) * ext_e - a * float(np.mean(grid_e)) * (factor > 0 or rng.random() < 0.5)
    d = factor * rng.uniform(-1, 1) * abs(c) * ext_n - c * float(np.mean(grid_n)) * (factor > 0 or rng.random() < 0.5)
    b, d = float(b), float(d)
    top = max(abs(a) * np.max(np.abs(grid_e)) + abs(b), abs(c) * np.max(np.abs(grid_n)) + abs(d))
    if top > 1e7:  # the statement quantifies over coordinates up to 1e7
        shrink = 1e7 / top
        a, b, c, d = a * shrink, b * shrink, c * shrink, d * shrink
    return Projection("axis_affine" + ("_reflected" if a < 0 or c < 0 else "") + ("_anisotropic" if anisotropic else ""),
                      lambda x, y: (a * x + b, c * y + d), (a, b, c, d), axis_affine=(a, b, c, d))


def general_projection(rng, grid_e, grid_n):
    """Shear / rotation / separable monotone / polar / sinusoidal maps scaled to the grid at hand."""
    e0, e1, n0, n1 = float(grid_e.min()), float(grid_e.max()), float(grid_n.min()), float(grid_n.max())
    we, wn = (e1 - e0) or 1.0, (n1 - n0) or 1.0
    kind = str(rng.choice(["shear", "rotation", "square", "exp", "cubic_root", "polar", "sinusoidal", "mercator", "identity"]))
    scale = float(10 ** rng.uniform(0, 5))
    off = float(rng.choice([0.0, 1.0, 50.0]) * scale * rng.uniform(-1, 1))
    if kind == "shear":
        k = float(rng.uniform(-1.5, 1.5))
        return Projection(kind, lambda x, y: (scale * ((x - e0) / we + k * (y - n0) / wn) + off, scale * (y - n0) / wn - off), (scale, k, off))
    if kind == "rotation":
        t = float(rng.uniform(0, 2 * np.pi))
        c, s = np.cos(t), np.sin(t)
        return Projection(kind, lambda x, y: (scale * (c * (x - e0) / we - s * (y - n0) / wn) + off, scale * (s * (x - e0) / we + c * (y - n0) / wn)),
                          (scale, t, off))
    if kind == "square":
        return Projection(kind, lambda x, y: (scale * ((x - e0) / we + 0.1) ** 2 + off, scale * ((y - n0) / wn + 0.05) ** 2), (scale, off))
    if kind == "exp":
        r = float(rng.uniform(0.5, 3))
        return Projection(kind, lambda x, y: (scale * np.exp(r * (x - e0) / we), -scale * np.exp(-r * (y - n0) / wn) + off), (scale, r, off))
    if kind == "cubic_root":
        return Projection(kind, lambda x, y: (scale * np.cbrt((x - e0) / we - 0.3), scale * ((y - n0) / wn - 0.5) ** 3 + off), (scale, off))
    if kind == "polar":  # an annular sector: radius from northing, angle from easting
        span = float(rng.uniform(0.5, 5.5))
        return Projection(kind, lambda x, y: (scale * (0.15 + (n1 - y) / wn) * np.cos(span * (x - e0) / we) + off,
                                              scale * (0.15 + (n1 - y) / wn) * np.sin(span * (x - e0) / we)), (scale, span, off))
    if kind == "sinusoidal":
        lat = float(rng.uniform(0.3, 1.4))
        return Projection(kind, lambda x, y: (scale * ((x - e0) / we - 0.5) * np.cos(lat * ((y - n0) / wn * 2 - 1)) + off, scale * (y - n0) / wn), (scale, lat, off))
    if kind == "mercator":
        lat = float(rng.uniform(0.3, 1.3))
        return Projection(kind, lambda x, y: (scale * (x - e0) / we + off, scale * np.log(np.tan(np.pi / 4 + lat * ((y - n0) / wn - 0.5)))), (scale, lat, off))
    return Projection("identity", lambda x, y: (x, y), None, axis_affine=(1.0, 0.0, 1.0, 0.0))


def random_grid(rng, tier_big=False):
    """A DataArray on a regular (northing-like, easting-like) grid, non-square, with optional NaN holes."""
    import xarray as xr

    if rng.random() < (0.25 if tier_big else 0.1):
        n_n, n_e = int(rng.integers(10, 26)), int(rng.integers(15, 41))
    else:
        n_n, n_e = int(rng.integers(3, 13)), int(rng.integers(3, 16))
    if n_n == n_e:
        n_e += 1
    scale = float(10 ** rng.uniform(-1, 5))
    w = float(rng.choice([0.0, 1.0, 40.0]) * scale * rng.uniform(-1, 1))
    s = float(rng.choice([0.0, 1.0, 40.0]) * scale * rng.uniform(-1, 1))
    east = np.linspace(w, w + scale * rng.uniform(0.5, 2), n_e)
    north = np.linspace(s, s + scale * rng.uniform(0.5, 2), n_n)
    if rng.random() < 0.3:  # unevenly spaced (monotone) axes: cell sizes vary by up to a factor of four
        east = east[0] + np.concatenate([[0.0], np.cumsum(rng.uniform(0.5, 2.0, n_e - 1))]) * (east[-1] - east[0]) / (n_e - 1) / 1.25
        north = north[0] + np.concatenate([[0.0], np.cumsum(rng.uniform(0.5, 2.0, n_n - 1))]) * (north[-1] - north[0]) / (n_n - 1) / 1.25
    flip = rng.random()
    if flip < 0.15:  # north-up rasters and other decreasing axes
        north = north[::-1].copy()
    elif flip < 0.25:
        east = east[::-1].copy()
    elif flip < 0.35:
        east, north = east[::-1].copy(), north[::-1].copy()
    e2, n2 = np.meshgrid(east, north)
    values = gen.smooth_field(rng, e2, n2) + float(rng.choice([0.0, 10.0, -1e3])) * rng.uniform(0, 1)
    holes = str(rng.choice(["none", "none", "interior", "corner", "band", "scattered_edge"]))
    if holes == "interior" and n_n > 3 and n_e > 3:
        mask = np.zeros(values.shape, bool)
        mask[1:-1, 1:-1] = rng.random((n_n - 2, n_e - 2)) < rng.uniform(0.05, 0.3)
        values[mask] = np.nan
    elif holes == "corner":
        cut = rng.uniform(0.3, 0.9)
        u = (e2 - east.min()) / (east.max() - east.min())
        v = (n2 - north.min()) / (north.max() - north.min())
        if rng.random() < 0.5:
            u = 1 - u
        if rng.random() < 0.5:
            v = 1 - v
        values[u + v < cut] = np.nan
    elif holes == "band":
        k = int(rng.integers(1, max(2, n_e // 3)))
        if rng.random() < 0.5:
            values[:, :k] = np.nan
        else:
            values[: max(1, min(k, n_n - 2)), :] = np.nan
    elif holes == "scattered_edge":
        values[rng.random(values.shape) < 0.25] = np.nan
    if np.isfinite(values).sum() < 4:
        values = np.where(np.isnan(values), 1.0, values)
    dims = [("northing", "easting"), ("latitude", "longitude"), ("y", "x")][int(rng.integers(0, 3))]
    # only a missing name becomes "scalars": falsy and non-string names are names
    name = [None, "scalars", "temperature", "yara", None, "temperature", 0, 0.0, "", False, 1, (1, 2), np.int64(3), True, 2.5][int(rng.integers(0, 15))]
    grid = xr.DataArray(values, coords={dims[0]: north, dims[1]: east}, dims=dims, name=name)
    return grid, holes


def queries_for(rng, hull, dx, dy, n_uniform=200, n_edge=80):
    """Query points that make a wrong mask visible: around the hull, hugging its edges, on vertices and data points, far away."""
    x0, x1, y0, y1 = dx.min(), dx.max(), dy.min(), dy.max()
    wx, wy = (x1 - x0) or 1.0, (y1 - y0) or 1.0
    qx = [rng.uniform(x0 - 0.3 * wx, x1 + 0.3 * wx, n_uniform)]
    qy = [rng.uniform(y0 - 0.3 * wy, y1 + 0.3 * wy, n_uniform)]
    if not hull.degenerate:
        verts = np.array(hull.vertices, dtype="float64")
        m = len(verts)
        k = rng.integers(0, m, n_edge)
        t = rng.uniform(0, 1, n_edge)
        ax, ay = verts[k, 0], verts[k, 1]
        bx, by = verts[(k + 1) % m, 0], verts[(k + 1) % m, 1]
        px, py = ax + t * (bx - ax), ay + t * (by - ay)
        # normal in the normalised frame, then back
        nx, ny = (by - ay) / wy, -(bx - ax) / wx
        norm = np.hypot(nx, ny)
        norm[norm == 0] = 1.0
        dist = 10 ** rng.uniform(-14, -3, n_edge) * rng.choice([-1.0, 1.0], n_edge)
        qx.append(px + dist * nx / norm * wx)
        qy.append(py + dist * ny / norm * wy)
        qx.append(verts[:, 0])
        qy.append(verts[:, 1])
    pick = rng.integers(0, dx.size, min(dx.size, 20))
    if hull.degenerate or hull.thin_ratio >= 1e-2:
        qx.append(dx[pick])
        qy.append(dy[pick])
    else:
        # known finding F11: on thin rotated hulls the data points themselves are misclassified; that class lives in the
        # `thin_vertices` stream so that anything else going wrong on thin hulls stays a plain violation
        _STATE["withheld"] = _STATE.get("withheld", 0) + 1
    qx.append(x0 + wx * np.array([-100.0, 100.0, 0.5, 0.5]))
    qy.append(y0 + wy * np.array([0.5, 0.5, -100.0, 100.0]))
    return np.concatenate(qx), np.concatenate(qy)


def _mask_call(run, verde, data, **kwargs):
    """One convexhull_mask call; a qhull refusal is judged by the monitor and counted here."""
    try:
        with warnings.catch_warnings():
            warnings.simplefilter("ignore")
            return verde.convexhull_mask(data, **kwargs)
    except (_STATE["QhullError"], ValueError) as exc:
        run.count("refused:%s (judged by the monitor)" % type(exc).__name__)
        return None


def _dataset(rng, east, north, n_vars=1, nan_fraction=0.0, dims=("northing", "easting")):
    import xarray as xr

    data_vars = {}
    for k in range(n_vars):
        vals = rng.normal(size=(north.size, east.size)) * 10 ** rng.uniform(-2, 4)
        if nan_fraction:
            vals[rng.random(vals.shape) < nan_fraction] = np.nan
        data_vars[["scalars", "second"][k]] = (list(dims), vals)
    return xr.Dataset(data_vars, coords={dims[0]: north, dims[1]: east})


# ----------------------------------------------------------------------
# workloads
# ----------------------------------------------------------------------
def run_case(run, tap, stream, index, rng):  # noqa: U100
    import verde

    make_hull = _STATE["make_hull"]
    _STATE["exact_lattice"] = False
    if stream == "cloud":
        n = int(rng.choice([3, 4, 5, 8, 20, 60, 150, 300]))
        dx, dy = gen.cloud(rng, n)
        hull = make_hull(dx, dy)
        qx, qy = queries_for(rng, hull, dx, dy)
        form = index % 5
        projection = None
        if index % 4 == 3:
            projection = axis_affine(rng, dx, dy) if rng.random() < 0.5 else general_projection(rng, dx, dy)
        kwargs = {} if projection is None else {"projection": projection}
        if form == 0:
            _mask_call(run, verde, (dx, dy), coordinates=(qx, qy), **kwargs)
        elif form == 1:  # 2-D arrays, extra coordinate ignored
            k = qx.size // 4 * 4
            _mask_call(run, verde, (dx, dy, np.zeros_like(dx)), coordinates=(qx[:k].reshape(4, -1), qy[:k].reshape(4, -1), np.ones((4, k // 4))), **kwargs)
        elif form == 2:  # single points (0-d arrays) and tiny arrays
            for k in range(6):
                _mask_call(run, verde, (dx, dy), coordinates=(np.asarray(qx[k]), np.asarray(qy[k])), **kwargs)  # 0-d arrays
            _mask_call(run, verde, (list(dx), list(dy)), coordinates=(qx[:7], qy[:7]), **kwargs)
        elif form == 3:  # regular grid of queries through the Dataset form
            east = np.linspace(dx.min() - 0.2 * np.ptp(dx), dx.max() + 0.2 * np.ptp(dx), int(rng.integers(5, 30)))
            north = np.linspace(dy.min() - 0.2 * np.ptp(dy), dy.max() + 0.2 * np.ptp(dy), int(rng.integers(4, 25)))
            if east.size == north.size:
                east = east[:-1]
            _mask_call(run, verde, (dx, dy), grid=_dataset(rng, east, north, n_vars=int(rng.integers(1, 3))), **kwargs)
        else:  # read-only, non-contiguous views
            big = np.empty(qx.size * 2)
            big[::2] = qx
            ro = qy.copy()
            ro.setflags(write=False)
            _mask_call(run, verde, (dx, dy), coordinates=(big[::2], ro), **kwargs)
        run.count("clouds:%d_points" % n)
        run.sample("cloud", {"data": [dx[:20], dy[:20]], "n_data": n, "n_queries": int(qx.size), "hull_vertices": len(hull.vertices), "form": form,
                             "monitor": "exact hull vs returned mask, band 1e-9 diameters"})
    elif stream == "lattice":
        size = int(rng.integers(3, 13))
        n = int(rng.integers(3, min(size * size, 40)))
        flat = rng.permutation(size * size)[:n]
        lx, ly = (flat % size).astype("float64"), (flat // size).astype("float64")
        # exact float images of the lattice: power-of-two scale, integer offset (the classification stays exact)
        sx, sy = 2.0 ** int(rng.integers(-10, 20)), 2.0 ** int(rng.integers(-10, 20))
        ox, oy = float(int(rng.integers(-1000, 1000))) * sx, float(int(rng.integers(-1000, 1000))) * sy
        dx, dy = lx * sx + ox, ly * sy + oy
        hull = make_hull(dx, dy)
        if hull.degenerate:
            run.count("lattice:degenerate_subset")
        gx = (np.arange(-1, size + 1, dtype="float64")) * sx + ox
        gy = (np.arange(-1, size + 2, dtype="float64")) * sy + oy
        _STATE["exact_lattice"] = True
        try:
            e2, n2 = np.meshgrid(gx, gy)
            _mask_call(run, verde, (dx, dy), coordinates=(e2, n2))
            _mask_call(run, verde, (dx, dy), grid=_dataset(rng, gx, gy))
            hx, hy = np.meshgrid(gx[:-1] + 0.5 * sx, gy[:-1] + 0.5 * sy)  # half-lattice points too
            _mask_call(run, verde, (dx, dy), coordinates=(hx.ravel(), hy.ravel()))
        finally:
            _STATE["exact_lattice"] = False
        run.sample("lattice", {"lattice_size": size, "points": [lx, ly], "scale": [sx, sy], "offset": [ox, oy],
                               "monitor": "exact integer orientation tests; only points exactly on the hull boundary go either way"})
    elif stream == "thin":
        n = int(rng.integers(4, 80))
        if index % 2 == 0:  # rotated thin hull
            thin = float(10 ** rng.uniform(-4, -0.5))
            ang = float(rng.uniform(0, np.pi))
            u, v = rng.uniform(-1, 1, n), rng.uniform(-1, 1, n) * thin
            scale = float(10 ** rng.uniform(-2, 6))
            off = rng.choice([0.0, 1.0, 1e2], 2) * scale * rng.uniform(-1, 1, 2)
            dx = scale * (u * np.cos(ang) - v * np.sin(ang)) + off[0]
            dy = scale * (u * np.sin(ang) + v * np.cos(ang)) + off[1]
            run.count("thin:rotated")
        else:  # axis-aligned thin cloud with very different per-axis scales (mixed units)
            if index % 4 == 1:  # extreme: aspect 1e10..1e14 (metres against degrees, thin survey line)
                thin = float(10 ** rng.uniform(-4, -2))
                ax, ay = float(10 ** rng.uniform(6, 7)), float(10 ** rng.uniform(-3, -2))
            else:
                thin = float(10 ** rng.uniform(-4, 0))
                ax, ay = float(10 ** rng.uniform(4, 7)), float(10 ** rng.uniform(-3, 0))
            u, v = rng.uniform(0, 1, n), rng.uniform(0, 1, n) * thin
            if rng.random() < 0.5:
                u, v = v, u
                ax, ay = ay, ax
            dx = ax * u + float(rng.choice([0.0, 1.0, 100.0])) * ax * rng.uniform(-1, 1)
            dy = ay * v + float(rng.choice([0.0, 1.0, 100.0])) * ay * rng.uniform(-1, 1)
            aspect = max(np.ptp(dx) / np.ptp(dy), np.ptp(dy) / np.ptp(dx)) if np.ptp(dx) > 0 and np.ptp(dy) > 0 else np.inf
            run.count("thin:axis_aligned_aspect_1e%d" % int(np.floor(np.log10(aspect))) if np.isfinite(aspect) else "thin:degenerate")
        hull = make_hull(dx, dy)
        qx, qy = queries_for(rng, hull, dx, dy, n_uniform=150, n_edge=60)
        _mask_call(run, verde, (dx, dy), coordinates=(qx, qy))
    elif stream == "affine":
        n = int(rng.choice([4, 10, 40, 120]))
        ux, uy = gen.cloud(rng, n, scale=1.0, offset_factor=0.0)
        hull = make_hull(ux, uy)
        qx, qy = queries_for(rng, hull, ux, uy, n_uniform=150, n_edge=40)
        base = _mask_call(run, verde, (ux, uy), coordinates=(qx, qy))
        if base is None or hull.degenerate:
            return
        depth0 = hull.depth(qx, qy)
        margin0 = hull.margin(qx, qy)
        for _ in range(6):
            ae, an = (float(10 ** rng.uniform(-3, 7)) for _ in range(2))
            if rng.random() < 0.4:
                an = ae
            be, bn = (float(rng.choice([0.0, 1.0, 1e3, 1e5, 1e7]) * rng.uniform(-1, 1)) for _ in range(2))
            mx, my, mqx, mqy = ae * ux + be, an * uy + bn, ae * qx + be, an * qy + bn
            mapped = _mask_call(run, verde, (mx, my), coordinates=(mqx, mqy))
            if mapped is None:
                continue
            # rounding of the map moves data and queries by up to a few ulp of the mapped magnitude
            wx, wy = np.ptp(ux) or 1.0, np.ptp(uy) or 1.0
            moved = 8 * ref.EPS * max((abs(be) + ae * np.max(np.abs(qx))) / (ae * wx), (abs(bn) + an * np.max(np.abs(qy))) / (an * wy))
            band = margin0 + moved
            if band > 1e-3:
                run.count("skipped:affine_map_too_coarse")
                continue
            decided = np.abs(depth0) > band
            run.evaluated("mask_affine_invariance", int(decided.sum()))
            run.count("either_way:affine_band", int((~decided).sum()))
            run.seen("affine_offset_over_scale_decades", int(np.floor(np.log10(max(abs(be) / ae, abs(bn) / an, 1e-9)))))
            diff = decided & (np.asarray(mapped).ravel() != np.asarray(base).ravel())
            if diff.any():
                k = int(np.argmax(diff))
                run.violation("mask_affine_invariance", "mask changes under x -> a*x + b (a=%r, %r; b=%r, %r): query (%r, %r) at depth %.3g (band %.3g) "
                              "goes from %s to %s; %d points change" % (ae, an, be, bn, float(qx[k]), float(qy[k]), float(depth0[k]), band,
                                                                           bool(np.ravel(base)[k]), bool(np.ravel(mapped)[k]), int(diff.sum())),
                              {"data": [ux, uy], "queries": [qx, qy], "a": [ae, an], "b": [be, bn], "base_mask": base, "mapped_mask": mapped},
                              key="mask:affine")
        run.sample("affine", {"n_data": n, "a": [ae, an], "b": [be, bn], "monitor": "mask(base) == mask(a*x+b) outside the band"})
    elif stream == "forms":
        n = int(rng.choice([4, 12, 50, 150]))
        dx, dy = gen.cloud(rng, n)
        hull = make_hull(dx, dy)
        east = np.linspace(dx.min() - 0.25 * np.ptp(dx), dx.max() + 0.25 * np.ptp(dx), int(rng.integers(4, 35)))
        north = np.linspace(dy.min() - 0.25 * np.ptp(dy), dy.max() + 0.25 * np.ptp(dy), int(rng.integers(3, 30)))
        if index % 4 == 0:  # square query grids too: a transposed mask keeps its shape there
            north = np.linspace(north[0], north[-1], east.size)
        elif east.size == north.size:
            north = north[:-1]
        dims = [("northing", "easting"), ("latitude", "longitude"), ("y", "x")][index % 3]
        ds = _dataset(rng, east, north, n_vars=1 + index % 2, nan_fraction=0.0, dims=dims)
        projection = None if index % 3 else axis_affine(rng, dx, dy)
        kwargs = {} if projection is None else {"projection": projection}
        e2, n2 = np.meshgrid(east, north)
        as_array = _mask_call(run, verde, (dx, dy), coordinates=(e2, n2), **kwargs)
        as_grid = _mask_call(run, verde, (dx, dy), grid=ds, **kwargs)
        if as_array is None or as_grid is None or hull.degenerate:
            return
        if projection is None:
            inside, outside, either, depth, margin = hull.classify(e2.ravel(), n2.ravel())
        else:
            ph = make_hull(*_two(projection(dx, dy)))
            inside, outside, either, depth, margin = ph.classify(*_two(projection(e2.ravel(), n2.ravel())))
        decided = ~either
        run.evaluated("mask_forms_agree", int(decided.sum()))
        grid_mask = ~np.isnan(np.asarray(as_grid["scalars"].values)).ravel()
        diff = decided & (grid_mask != np.asarray(as_array).ravel())
        if as_grid["scalars"].shape != as_array.shape or diff.any():
            run.violation("mask_forms_agree", "array form and grid form disagree on %d nodes outside the boundary band (shapes %r / %r)"
                          % (int(diff.sum()), as_array.shape, as_grid["scalars"].shape),
                          {"data": [dx, dy], "easting": east, "northing": north, "array_mask": as_array, "grid_mask": grid_mask.reshape(as_array.shape)},
                          key="mask:forms")
        run.sample("forms", {"n_data": n, "grid_shape": [north.size, east.size], "dims": list(dims), "inside_nodes": int(inside.sum()),
                             "outside_nodes": int(outside.sum()), "either_way": int(either.sum())})
    elif stream == "layouts":
        _layouts_case(run, verde, make_hull, index, rng)
    elif stream == "twins":
        _twins_case(run, verde, make_hull, index, rng)
    elif stream == "constructions":
        _constructions_case(run, verde, make_hull, index, rng)
    elif stream == "axes":
        _axes_case(run, verde, make_hull, index, rng)
    elif stream == "extras":
        _extras_case(run, verde, make_hull, index, rng)
    elif stream == "byteorder":
        _byteorder_case(run, verde, make_hull, index, rng)
    elif stream == "concurrent":
        _concurrent_case(run, verde, make_hull, index, rng)
    elif stream == "thin_vertices":
        # known finding F11: data points of a thin rotated cloud queried against their own hull
        if index == 0:
            dx, dy = np.array(F11_WITNESS[0]), np.array(F11_WITNESS[1])
        else:
            n = int(rng.integers(8, 80))
            thin = float(10 ** rng.uniform(-5, -4))
            ang = float(rng.uniform(0.2, np.pi / 2 - 0.2)) + float(rng.integers(0, 2)) * np.pi / 2
            u, v = rng.uniform(-1, 1, n), rng.uniform(-1, 1, n) * thin
            scale = float(10 ** rng.uniform(-2, 6))
            off = rng.choice([0.0, 1.0, 1e2], 2) * scale * rng.uniform(-1, 1, 2)
            dx = scale * (u * np.cos(ang) - v * np.sin(ang)) + off[0]
            dy = scale * (u * np.sin(ang) + v * np.cos(ang)) + off[1]
        _mask_call(run, verde, (dx, dy), coordinates=(dx.copy(), dy.copy()))
        run.count("known_finding_streams:thin_vertices")
    elif stream in ("pg_affine", "pg_general", "pg_anisotropic"):
        if stream == "pg_anisotropic" and index == 0:  # fixed witness of known finding F10
            import xarray as xr

            e2, n2 = np.meshgrid(np.arange(13.0), np.arange(12.0))
            grid = xr.DataArray(np.sin(e2 / 2.0) + np.cos(n2 / 3.0), coords={"northing": np.arange(12.0), "easting": np.arange(13.0)},
                                dims=("northing", "easting"))
            projection = Projection("axis_affine_anisotropic", lambda x, y: (x, 1e6 * y), (1.0, 0.0, 1e6, 0.0), axis_affine=(1.0, 0.0, 1e6, 0.0))
            with warnings.catch_warnings():
                warnings.simplefilter("ignore")
                verde.project_grid(grid, projection, method="linear", antialias=False)
            run.count("known_finding_streams:pg_anisotropic")
            return
        grid, holes = random_grid(rng, tier_big=run.tier != "quick")
        east = np.asarray(grid.coords[grid.dims[1]].values)
        north = np.asarray(grid.coords[grid.dims[0]].values)
        kwargs = {}
        if stream in ("pg_affine", "pg_anisotropic"):
            projection = axis_affine(rng, east, north, reflect=[(1, 1), (-1, 1), (1, -1), (-1, -1)][index % 4], anisotropic=stream == "pg_anisotropic")
            antialias = bool(index % 5 == 4)
            method = ["linear", "nearest", "cubic"][index % 3]
            mode = index % 7
            if stream == "pg_anisotropic":
                antialias, mode, method = False, 0, ["linear", "cubic", "linear", "cubic", "nearest"][index % 5]
                run.count("known_finding_streams:pg_anisotropic")
            if mode == 5:  # twice as fine: every other node coincides with a data node
                kwargs["shape"] = (2 * grid.shape[0] - 1, 2 * grid.shape[1] - 1)
            elif mode == 6 and not np.isnan(grid.values).any():
                pe, pn = projection(east, north)
                sp_e, sp_n = abs(pe[1] - pe[0]), abs(pn[1] - pn[0])
                kwargs["spacing"] = (float(sp_n), float(sp_e))
        else:
            projection = general_projection(rng, east, north)
            antialias = bool(index % 2 == 0)
            choice = index % 8
            method = ["linear", "nearest", "cubic", "linear", "nearest", "cubic", "knn3", "linear_object"][choice]
            if method == "knn3":
                method = verde.KNeighbors(k=3)
            elif method == "linear_object":
                method = verde.Linear()
            pe, pn = _two(projection(*(np.meshgrid(east, north))))
            reg = (float(pe.min()), float(pe.max()), float(pn.min()), float(pn.max()))
            mode = int(rng.integers(0, 8))
            if mode == 0:
                kwargs["shape"] = (int(rng.integers(3, 30)), int(rng.integers(3, 30)))
            elif mode == 1:
                we, wn = reg[1] - reg[0], reg[3] - reg[2]
                kwargs["region"] = (reg[0] - 0.2 * we * rng.random(), reg[1] + 0.3 * we * rng.random(), reg[2] + 0.2 * wn * rng.random(), reg[3] - 0.1 * wn * rng.random())
            elif mode == 2:
                we, wn = reg[1] - reg[0], reg[3] - reg[2]
                kwargs["spacing"] = (float(wn / rng.uniform(3, 25)), float(we / rng.uniform(3, 25))) if rng.random() < 0.6 else float(min(we, wn) / rng.uniform(3, 20))
                if rng.random() < 0.5:
                    kwargs["region"] = (reg[0], reg[1] + 0.1 * we, reg[2] - 0.1 * wn, reg[3])
            elif mode == 3:
                kwargs["dims"] = ("lat_proj", "lon_proj")
        try:
            with warnings.catch_warnings():
                warnings.simplefilter("ignore")
                if stream == "pg_general" and index % 6 == 0:
                    # calls that rely on the documented defaults (method="linear", antialias=True): judged with those by the monitor and
                    # required to equal the call that spells them out
                    relying = verde.project_grid(grid, projection, **kwargs)
                    spelled = verde.project_grid(grid, projection, method="linear", antialias=True, **kwargs)
                    only_method = verde.project_grid(grid, projection, method="linear", **kwargs)
                    only_antialias = verde.project_grid(grid, projection, antialias=True, **kwargs)
                    run.count("defaults:project_grid_without_method_and_antialias")
                    for label, other in (("no arguments", relying), ("method only", only_method), ("antialias only", only_antialias)):
                        run.evaluated("pg_defaults_equal_explicit")
                        a_, b_ = np.asarray(other.values), np.asarray(spelled.values)
                        if not (other.name == spelled.name and a_.shape == b_.shape and bool(np.all((a_ == b_) | (np.isnan(a_) & np.isnan(b_))))):
                            run.violation("pg_defaults_equal_explicit", "project_grid called with %s differs from project_grid(method='linear', antialias=True): "
                                          "a documented default is not in effect" % label,
                                          {"given": label, "grid": grid, "projection": repr(projection), "kwargs": {k: v for k, v in kwargs.items()},
                                           "result": a_, "result_explicit": b_}, key="pg:defaults:" + label)
                else:
                    verde.project_grid(grid, projection, method=method, antialias=antialias, **kwargs)
        except _STATE["QhullError"]:
            run.count("refused:project_grid_qhull (counted, not failed)")
        except IndexError:
            if not (isinstance(method, verde.KNeighbors) and method.k > 1 and antialias):
                raise
            run.count("refused:kneighbors_k_exceeds_block_means (not a C16 matter)")
        run.sample(stream, {"grid_shape": list(grid.shape), "dims": list(grid.dims), "name": grid.name, "holes": holes, "projection": repr(projection),
                            "method": method if isinstance(method, str) else type(method).__name__, "antialias": antialias,
                            "kwargs": {k: (list(v) if isinstance(v, tuple) else v) for k, v in kwargs.items()},
                            "monitor": "name/dims/coordinates, NaN outside and finite inside the exact hull of the projected cells, value reproduction / range"})


def _views(a, rng):
    """The same logical 2-D array in different memory layouts: {class: array}; every entry equals `a` element-wise."""
    rows, cols = a.shape
    big = np.full((rows * 2 + 1, cols * 3 + 2), -7.77e77)
    big[1::2, 2::3][:rows, :cols] = a
    strided = big[1::2, 2::3][:rows, :cols]
    readonly = a.copy()
    readonly.setflags(write=False)
    ro_f = np.asfortranarray(a)
    ro_f.setflags(write=False)
    out = collections.OrderedDict()
    out["fortran"] = np.asfortranarray(a)
    out["transposed_view"] = np.ascontiguousarray(a.T).T
    out["strided"] = strided
    out["negative_strides"] = np.ascontiguousarray(a[::-1, ::-1])[::-1, ::-1]
    out["negative_rows_fortran"] = np.asfortranarray(a[::-1, :])[::-1, :]
    out["readonly"] = readonly
    out["readonly_fortran"] = ro_f
    for name, arr in out.items():
        assert arr.shape == a.shape and np.array_equal(arr, a, equal_nan=True), name
    return out


def _layouts_case(run, verde, make_hull, index, rng):
    """
    Memory layout must not matter: element [i, j] of the mask decides point (easting[i, j], northing[i, j]). Every call is judged
    element-wise by the mask monitor (exact hull oracle on the logical arrays); here the result is also compared with the result for
    C-ordered copies of the same logical arrays (identical outside the either-way band).
    """
    import pandas as pd
    import xarray as xr

    n = int(rng.choice([12, 20, 30, 42, 60, 90]))
    dx, dy = gen.cloud(rng, n, kind=str(rng.choice(["uniform", "jitter", "clusters"])))
    hull = make_hull(dx, dy)
    if hull.degenerate or hull.thin_ratio < 1e-2:
        run.count("layouts:skipped_thin_cloud")
        return
    qx, qy = queries_for(rng, hull, dx, dy, n_uniform=160, n_edge=40)
    perm = rng.permutation(qx.size)
    rows = int(rng.integers(3, 9))
    cols = int(rng.integers(rows + 1, 14)) * 2  # non-square, even number of columns (3-D reshapes)
    if rows * cols > qx.size:
        cols = (qx.size // rows) // 2 * 2
    q_e = np.ascontiguousarray(qx[perm][: rows * cols].reshape(rows, cols))
    q_n = np.ascontiguousarray(qy[perm][: rows * cols].reshape(rows, cols))
    d_rows = [r for r in (2, 3, 4, 5, 6) if n % r == 0 and n // r != r][0]
    d_e, d_n = dx.reshape(d_rows, -1).copy(), dy.reshape(d_rows, -1).copy()
    depth = hull.depth(q_e, q_n)
    decided = np.abs(depth) > hull.margin(q_e, q_n)
    base = _mask_call(run, verde, (d_e, d_n), coordinates=(q_e, q_n))
    if base is None:
        return
    base_flat = np.asarray(base).ravel()

    def compare(label, result, shape):
        run.count("layout:%s" % label)
        if result is None:
            run.violation("mask_layout_invariance", "layout class %s is refused although the C-ordered copy of the same arrays is accepted" % label,
                          {"layout": label, "data": [dx, dy], "query_easting": q_e, "query_northing": q_n}, key="layout:refused:" + label)
            return
        res = np.asarray(result)
        run.evaluated("mask_layout_invariance", int(decided.sum()))
        problem = None
        if res.shape != tuple(shape):
            problem = "mask shape %r is not the logical shape %r of the query arrays" % (res.shape, tuple(shape))
        else:
            diff = decided & (res.ravel() != base_flat)
            if diff.any():
                k = int(np.argmax(diff))
                problem = ("element %r (point %r, %r; depth %.3g) is %s, but %s for the C-ordered copy of the same logical arrays; %d of %d elements differ"
                           % (np.unravel_index(k, shape), float(q_e.ravel()[k]), float(q_n.ravel()[k]), float(depth[k]), bool(res.ravel()[k]),
                              bool(base_flat[k]), int(diff.sum()), int(decided.sum())))
        if problem:
            run.violation("mask_layout_invariance", "memory layout %s changes the mask: %s" % (label, problem),
                          {"layout": label, "data": [dx, dy], "query_easting": q_e, "query_northing": q_n, "mask_c_order": base, "mask": res},
                          key="layout:" + label)

    ve, vn = _views(q_e, rng), _views(q_n, rng)
    for label in ve:
        compare("query_" + label, _mask_call(run, verde, (d_e, d_n), coordinates=(ve[label], vn[label])), (rows, cols))
    # the two coordinate arrays in *different* layouts: any flattening that follows memory order pairs the wrong eastings and northings
    compare("query_mixed_fortran_easting", _mask_call(run, verde, (d_e, d_n), coordinates=(ve["fortran"], q_n)), (rows, cols))
    compare("query_mixed_transposed_northing", _mask_call(run, verde, (d_e, d_n), coordinates=(q_e, vn["transposed_view"])), (rows, cols))
    compare("query_mixed_strided_negative", _mask_call(run, verde, (d_e, d_n), coordinates=(ve["strided"], vn["negative_strides"])), (rows, cols))
    # 3-D arrays (C, Fortran and a transposed view of the same logical array)
    shape3 = (rows, 2, cols // 2)
    e3, n3 = q_e.reshape(shape3), q_n.reshape(shape3)
    compare("query_3d_c", _mask_call(run, verde, (d_e, d_n), coordinates=(e3, n3)), shape3)
    compare("query_3d_fortran", _mask_call(run, verde, (d_e, d_n), coordinates=(np.asfortranarray(e3), np.asfortranarray(n3))), shape3)
    compare("query_3d_mixed", _mask_call(run, verde, (d_e, d_n), coordinates=(np.asfortranarray(e3), n3)), shape3)
    compare("query_3d_axes_moved_view", _mask_call(run, verde, (d_e, d_n), coordinates=(
        np.ascontiguousarray(np.moveaxis(e3, 0, 2)).transpose(2, 0, 1), np.ascontiguousarray(np.moveaxis(n3, 1, 0)).transpose(1, 0, 2))), shape3)
    # pandas Series (1-D, shuffled index labels) and plain 1-D strided views
    labels = rng.permutation(rows * cols) + 100
    compare("query_series", _mask_call(run, verde, (d_e, d_n), coordinates=(pd.Series(q_e.ravel(), index=labels), pd.Series(q_n.ravel(), index=labels))),
            (rows * cols,))
    compare("query_1d_reversed_view", _mask_call(run, verde, (d_e, d_n), coordinates=(q_e.ravel()[::-1].copy()[::-1], q_n.ravel()[::-1].copy()[::-1])),
            (rows * cols,))
    # the DATA coordinates in other layouts (same point set, same pairing)
    de, dn = _views(d_e, rng), _views(d_n, rng)
    for label in ("fortran", "transposed_view", "strided", "negative_strides", "readonly_fortran"):
        compare("data_" + label, _mask_call(run, verde, (de[label], dn[label]), coordinates=(q_e, q_n)), (rows, cols))
    compare("data_mixed_fortran_easting", _mask_call(run, verde, (de["fortran"], d_n), coordinates=(q_e, q_n)), (rows, cols))
    compare("data_mixed_transposed_northing", _mask_call(run, verde, (d_e, dn["transposed_view"]), coordinates=(q_e, q_n)), (rows, cols))
    compare("data_series", _mask_call(run, verde, (pd.Series(dx, index=rng.permutation(n) + 7), pd.Series(dy, index=rng.permutation(n) + 7)),
                                      coordinates=(q_e, q_n)), (rows, cols))
    compare("data_and_query_fortran", _mask_call(run, verde, (de["fortran"], dn["fortran"]), coordinates=(ve["fortran"], vn["fortran"])), (rows, cols))
    # with a projection in between
    proj = axis_affine(rng, dx, dy)
    pbase = _mask_call(run, verde, (d_e, d_n), coordinates=(q_e, q_n), projection=proj)
    pvar = _mask_call(run, verde, (de["fortran"], d_n), coordinates=(ve["transposed_view"], vn["fortran"]), projection=proj)
    if pbase is not None:
        base_flat = np.asarray(pbase).ravel()
        ph = make_hull(*_two(proj(dx, dy)))
        pdepth = ph.depth(*_two(proj(q_e.ravel(), q_n.ravel())))
        decided = np.abs(pdepth) > ph.margin(*_two(proj(q_e.ravel(), q_n.ravel())))
        depth = pdepth
        compare("projection_with_mixed_layouts", pvar, (rows, cols))

    # ---- grid form: Dataset whose variable (and coordinate vectors) are not C-contiguous ----------------------------------
    east = np.linspace(dx.min() - 0.2 * np.ptp(dx), dx.max() + 0.2 * np.ptp(dx), int(rng.integers(5, 14)))
    north = np.linspace(dy.min() - 0.2 * np.ptp(dy), dy.max() + 0.2 * np.ptp(dy), int(rng.integers(15, 22)))
    vals = rng.normal(size=(north.size, east.size))
    ds_c = xr.Dataset({"scalars": (["northing", "easting"], vals.copy())}, coords={"northing": north.copy(), "easting": east.copy()})
    gbase = _mask_call(run, verde, (d_e, d_n), grid=ds_c)
    e2, n2 = np.meshgrid(east, north)
    gdepth = hull.depth(e2, n2)
    gdecided = np.abs(gdepth) > hull.margin(e2, n2)
    big_e = np.repeat(east, 2)
    grids = collections.OrderedDict()
    grids["grid_values_fortran"] = xr.Dataset({"scalars": (["northing", "easting"], np.asfortranarray(vals))}, coords={"northing": north, "easting": east})
    grids["grid_values_transposed_view"] = xr.Dataset({"scalars": (["northing", "easting"], np.ascontiguousarray(vals.T).T)},
                                                     coords={"northing": north, "easting": east})
    grids["grid_transposed_twice"] = ds_c.transpose("easting", "northing").transpose("northing", "easting")
    grids["grid_strided_coordinate_vectors"] = xr.Dataset({"scalars": (["northing", "easting"], _views(vals, rng)["strided"])},
                                                         coords={"northing": north[::-1].copy()[::-1], "easting": big_e[::2]})
    for label, ds in grids.items():
        res = _mask_call(run, verde, (de["fortran"], dn["fortran"]) if label.endswith("fortran") else (d_e, d_n), grid=ds)
        run.count("layout:%s" % label)
        if res is None or gbase is None:
            continue
        run.evaluated("mask_layout_invariance", int(gdecided.sum()))
        got, want = np.asarray(res["scalars"].values), np.asarray(gbase["scalars"].values)
        same = (got == want) | (np.isnan(got) & np.isnan(want))
        if got.shape != want.shape or (gdecided.reshape(want.shape) & ~same).any():
            run.violation("mask_layout_invariance", "grid form: layout %s changes the masked grid (%d nodes differ outside the band)"
                          % (label, int((gdecided.reshape(want.shape) & ~same).sum()) if got.shape == want.shape else -1),
                          {"layout": label, "data": [dx, dy], "easting": east, "northing": north, "values": vals, "masked_c_order": want, "masked": got},
                          key="layout:" + label)

    # ---- project_grid: DataArrays whose .values are not C-contiguous -------------------------------------------------------
    if index % 2 == 0:
        grid, holes = random_grid(rng)
        gv = np.asarray(grid.values)
        north_g, east_g = np.asarray(grid.coords[grid.dims[0]].values), np.asarray(grid.coords[grid.dims[1]].values)
        proj = axis_affine(rng, east_g, north_g) if index % 4 == 0 else general_projection(rng, east_g, north_g)
        method = ["linear", "nearest", "cubic"][(index // 2) % 3]
        antialias = bool((index // 2) % 2)
        dims = grid.dims

        def build(values, n_vec=north_g, e_vec=east_g):
            return xr.DataArray(values, coords={dims[0]: n_vec, dims[1]: e_vec}, dims=dims, name=grid.name)

        def project(da):
            try:
                with warnings.catch_warnings():
                    warnings.simplefilter("ignore")
                    return verde.project_grid(da, proj, method=method, antialias=antialias)
            except _STATE["QhullError"]:
                run.count("refused:project_grid_qhull (counted, not failed)")
                return None

        ref_out = project(build(np.ascontiguousarray(gv)))
        variants = collections.OrderedDict()
        variants["pg_values_fortran"] = build(np.asfortranarray(gv))
        variants["pg_values_transposed_view"] = build(np.ascontiguousarray(gv.T).T)
        variants["pg_transposed_twice"] = build(np.ascontiguousarray(gv)).transpose(dims[1], dims[0]).transpose(dims[0], dims[1])
        variants["pg_values_strided_coords_views"] = build(_views(gv, rng)["strided"], north_g[::-1].copy()[::-1], np.repeat(east_g, 2)[::2])
        ro = np.asfortranarray(gv)
        ro.setflags(write=False)
        variants["pg_values_readonly_fortran"] = build(ro)
        for label, da in variants.items():
            out = project(da)
            run.count("layout:%s" % label)
            if ref_out is None or out is None:
                if (ref_out is None) != (out is None):
                    run.violation("pg_layout_invariance", "project_grid accepts the grid in one memory layout and refuses it in another (%s)" % label,
                                  {"layout": label, "grid": grid, "projection": repr(proj), "method": method, "antialias": antialias}, key="pg_layout:refusal")
                continue
            run.evaluated("pg_layout_invariance", int(np.asarray(ref_out.values).size))
            a_, b_ = np.asarray(out.values), np.asarray(ref_out.values)
            ok = a_.shape == b_.shape and bool(np.all((a_ == b_) | (np.isnan(a_) & np.isnan(b_))))
            ok = ok and all(np.array_equal(np.asarray(out.coords[d].values), np.asarray(ref_out.coords[d].values)) for d in ref_out.dims)
            if not ok:
                run.violation("pg_layout_invariance", "project_grid gives a different grid when the input values are laid out as %s (same logical DataArray)" % label,
                              {"layout": label, "grid": grid, "grid_values": gv, "projection": repr(proj), "method": method, "antialias": antialias,
                               "result_c_order": b_, "result": a_}, key="pg_layout:" + label)
    run.sample("layouts", {"query_shape": [rows, cols], "data_shape": list(d_e.shape), "classes": sorted(ve) + ["mixed", "3d", "series", "grid forms", "project_grid"],
                           "monitor": "mask[i, j] decides (easting[i, j], northing[i, j]) in every memory layout; compared with the exact oracle and with the C-ordered copy"})


# ----------------------------------------------------------------------
# call histories with twin inputs
# ----------------------------------------------------------------------
TWIN_KINDS = ["point_reflected", "mirrored_about_mean", "bbox_mirrored", "re_paired", "same_bbox"]
PG_TWIN_GRIDS = [(3, 6, 1), (7, 10, 2), (4, 11, 3), (7, 12, 4), (6, 6, 4), (10, 14, 3)]  # rows, cols, corner size: valid cells = power of two


def _same_stats(a, b):
    """Bit-identical size, mean and standard deviation per coordinate, computed the way array code would (ndarray.mean / .std)?"""
    return all(p.size == q.size and p.mean() == q.mean() and p.std() == q.std() for p, q in zip(a, b))


def _twin_clouds(rng, kind, make_hull):
    """(A, B): dyadic lattice clouds of equal size whose summary statistics coincide (see TWIN_KINDS) but whose hulls differ."""
    for _ in range(60):
        n = int(rng.choice([8, 16, 32]))
        size = int(rng.integers(5, 12))
        if kind == "bbox_mirrored":  # easting multiset symmetric about the middle of the bounding box
            half = rng.integers(0, size + 1, n // 2)
            half[0] = 0
            lx = np.concatenate([half, size - half]).astype("float64")
            ly = rng.integers(0, size + 1, n).astype("float64")
        else:
            lx = rng.integers(0, size + 1, n).astype("float64")
            ly = rng.integers(0, size + 1, n).astype("float64")
        if len(set(zip(lx, ly))) < n:
            continue
        if kind == "point_reflected":
            bx, by = 2 * lx.mean() - lx, 2 * ly.mean() - ly
        elif kind == "mirrored_about_mean":
            bx, by = 2 * lx.mean() - lx, ly.copy()
        elif kind == "bbox_mirrored":
            bx, by = lx.min() + lx.max() - lx, ly.copy()
        elif kind == "re_paired":
            bx, by = lx.copy(), ly[rng.permutation(n)]
        else:  # same bounding box and size, unrelated interior
            bx = rng.integers(0, size + 1, n).astype("float64")
            by = rng.integers(0, size + 1, n).astype("float64")
            bx[:2], by[2:4] = [lx.min(), lx.max()], [ly.min(), ly.max()]
            if (bx.min(), bx.max(), by.min(), by.max()) != (lx.min(), lx.max(), ly.min(), ly.max()) or len(set(zip(bx, by))) < n:
                continue
        sx, sy = 2.0 ** int(rng.integers(-6, 12)), 2.0 ** int(rng.integers(-6, 12))
        ox, oy = float(int(rng.integers(-300, 300))) * sx, float(int(rng.integers(-300, 300))) * sy
        a = (lx * sx + ox, ly * sy + oy)
        b = (bx * sx + ox, by * sy + oy)
        ha, hb = make_hull(*a), make_hull(*b)
        if ha.degenerate or hb.degenerate or sorted(ha.vertices) == sorted(hb.vertices):
            continue
        return a, b, ha, hb, (size, sx, sy, ox, oy)
    return None


def _twins_case(run, verde, make_hull, index, rng):
    """
    A, its twin B, then A again in one process - every return is judged by the mask monitor against the data of THAT call; here the
    masks of A and B (identical queries) must differ where the hulls differ and the second A must repeat the first.
    """
    import xarray as xr

    kind = TWIN_KINDS[index % len(TWIN_KINDS)]
    made = _twin_clouds(rng, kind, make_hull)
    if made is None:
        run.count("twins:generation_failed")
        return
    a, b, ha, hb, (size, sx, sy, ox, oy) = made
    identical = _same_stats(a, b)
    run.count("twins:%s" % kind)
    run.count("twins:stats_bit_identical" if identical else "twins:stats_differ_(%s)" % kind)
    gx = np.arange(-1, size + 1.5, 0.5) * sx + ox
    gy = np.arange(-1, size + 2.0, 0.5) * sy + oy
    e2, n2 = np.meshgrid(gx, gy)
    ia, oa, _, _, _ = ha.classify(e2.ravel(), n2.ravel())
    ib, ob, _, _, _ = hb.classify(e2.ravel(), n2.ravel())
    must_differ = (ia & ob) | (oa & ib)
    decided_a = ia | oa

    def judge(label, first, twin, again):
        if first is None or twin is None or again is None:
            run.count("twins:refused_%s" % label)
            return
        first, twin, again = (np.asarray(m).ravel() for m in (first, twin, again))
        run.evaluated("twins_masks_differ", int(must_differ.sum()))
        run.evaluated("twins_history_free", int(decided_a.sum()))
        stale = must_differ & (first == twin)
        changed = decided_a & (first != again)
        if stale.any() or changed.any():
            run.violation("twins_history", "%s, %s twins (statistics bit-identical: %s): %d query points where the hulls differ get the same answer for both "
                          "data sets, %d points answer differently when the first data set is given again" % (label, kind, identical, int(stale.sum()), int(changed.sum())),
                          {"kind": kind, "form": label, "data_a": list(a), "data_b": list(b), "query_easting": gx, "query_northing": gy,
                           "mask_a": first, "mask_b": twin, "mask_a_again": again}, key="twins:%s:%s" % (label, kind))

    def as_mask(ds):
        return None if ds is None else ~np.isnan(np.asarray(ds["scalars"].values))

    # array form, fresh array objects per call (temporaries freed in between: id() values get reused)
    seq = [_mask_call(run, verde, (d[0].copy(), d[1].copy()), coordinates=(e2, n2)) for d in (a, b, a)]
    judge("array_fresh_objects", *seq)
    run.count("twins:history:array_fresh_objects")
    # array form, the SAME ndarray objects modified in place between the calls
    bufx, bufy = a[0].copy(), a[1].copy()
    seq = []
    for d in (a, b, a):
        bufx[...] = d[0]
        bufy[...] = d[1]
        seq.append(_mask_call(run, verde, (bufx, bufy), coordinates=(e2, n2)))
    judge("array_in_place", *seq)
    run.count("twins:history:array_in_place")
    # grid form (same Dataset object for the three calls)
    ds = _dataset(rng, gx, gy)
    judge("grid_form", *[as_mask(_mask_call(run, verde, (d[0].copy(), d[1].copy()), grid=ds)) for d in (a, b, a)])
    run.count("twins:history:grid_form")
    bufx[...] = a[0]
    bufy[...] = a[1]
    seq = []
    for d in (a, b, a):
        bufx[...] = d[0]
        bufy[...] = d[1]
        seq.append(as_mask(_mask_call(run, verde, (bufx, bufy), grid=ds)))
    judge("grid_form_in_place", *seq)
    run.count("twins:history:grid_form_in_place")

    # ---- project_grid: twin grids (same coordinates, same number of valid cells, mirrored hole pattern) -------------------------
    rows, cols, corner = PG_TWIN_GRIDS[(index // len(TWIN_KINDS)) % len(PG_TWIN_GRIDS)]
    east = np.arange(cols, dtype="float64") * 2.0 ** int(rng.integers(-3, 8)) + float(int(rng.integers(-50, 50)))
    north = np.arange(rows, dtype="float64") * 2.0 ** int(rng.integers(-3, 8)) + float(int(rng.integers(-50, 50)))
    u, v = np.meshgrid(np.arange(cols), np.arange(rows))
    field = gen.smooth_field(rng, u.astype("float64"), v.astype("float64"), amplitude=float(10 ** rng.uniform(-1, 3)))
    holes_a = (u + v < corner) | ((cols - 1 - u) + (rows - 1 - v) < corner)
    holes_b = ((cols - 1 - u) + v < corner) | (u + (rows - 1 - v) < corner)
    va, vb = np.where(holes_a, np.nan, field), np.where(holes_b, np.nan, field)
    if index % 2:
        pa, pb, pc, pd = 2.0 ** int(rng.integers(-2, 4)) * rng.choice([-1.0, 1.0]), float(int(rng.integers(-20, 20))), 2.0 ** int(rng.integers(-2, 4)), float(int(rng.integers(-20, 20)))
        proj = Projection("axis_affine_dyadic", lambda x, y: (pa * x + pb, pc * y + pd), (pa, pb, pc, pd), axis_affine=(pa, pb, pc, pd))
    else:
        proj = general_projection(rng, east, north)
    method = ["linear", "nearest", "cubic"][index % 3]
    antialias = bool((index // 3) % 2)
    dims = [("northing", "easting"), ("latitude", "longitude")][index % 2]
    stats = _same_stats(_two(proj(*[c[~holes_a] for c in np.meshgrid(east, north)])), _two(proj(*[c[~holes_b] for c in np.meshgrid(east, north)])))
    run.count("twins:pg_stats_bit_identical" if stats else "twins:pg_stats_differ_(%s)" % proj.label)

    def project(da):
        try:
            with warnings.catch_warnings():
                warnings.simplefilter("ignore")
                return np.asarray(verde.project_grid(da, proj, method=method, antialias=antialias).values)
        except _STATE["QhullError"]:
            run.count("refused:project_grid_qhull (counted, not failed)")
            return None

    def build(values):
        return xr.DataArray(values.copy(), coords={dims[0]: north, dims[1]: east}, dims=dims, name="twin")

    def judge_pg(label, first, twin, again):
        if first is None or twin is None or again is None:
            return
        run.evaluated("twins_pg_history_free", int(first.size))
        same = first.shape == again.shape and bool(np.all((first == again) | (np.isnan(first) & np.isnan(again))))
        if not same:
            run.violation("twins_history", "project_grid (%s): the first grid projected again after its twin gives a different result" % label,
                          {"form": label, "values_a": va, "values_b": vb, "easting": east, "northing": north, "projection": repr(proj), "method": method,
                           "antialias": antialias, "first": first, "again": again}, key="twins:pg:" + label)
        run.count("twins:pg_nan_patterns_differ" if not np.array_equal(np.isnan(first), np.isnan(twin)) else "twins:pg_nan_patterns_equal")

    judge_pg("fresh_objects", *[project(build(vals)) for vals in (va, vb, va)])
    run.count("twins:history:pg_fresh_objects")
    da = build(va)
    seq = []
    for vals in (va, vb, va):
        da.values[...] = vals
        seq.append(project(da))
    judge_pg("in_place", *seq)
    run.count("twins:history:pg_in_place")
    run.sample("twins", {"kind": kind, "data_a": [a[0][:16], a[1][:16]], "data_b": [b[0][:16], b[1][:16]], "statistics_bit_identical": identical,
                         "query_points_that_must_differ": int(must_differ.sum()), "pg_grid": [rows, cols, corner], "pg_method": method, "pg_antialias": antialias,
                         "monitor": "A, twin B, A again (fresh objects and the same ndarrays modified in place); every return judged against its own exact hull"})


# ----------------------------------------------------------------------
# the same grid built in different ways
# ----------------------------------------------------------------------
def _constructions_case(run, verde, make_hull, index, rng):
    """The variable has dims (northing, easting) however the Dataset / DataArray was put together."""
    import xarray as xr

    n = int(rng.choice([6, 15, 40, 100]))
    dx, dy = gen.cloud(rng, n)
    hull = make_hull(dx, dy)
    if hull.degenerate or hull.thin_ratio < 1e-2:
        run.count("constructions:skipped_thin_cloud")
        return
    n_e = int(rng.integers(4, 16))
    n_n = n_e if index % 3 == 0 else int(rng.integers(4, 16))
    if index % 3 and n_n == n_e:
        n_n += 2
    run.count("constructions:%s" % ("square" if n_n == n_e else "non_square"))
    e = np.linspace(dx.min() - 0.3 * np.ptp(dx), dx.max() + 0.2 * np.ptp(dx), n_e)
    nn = np.linspace(dy.min() - 0.2 * np.ptp(dy), dy.max() + 0.3 * np.ptp(dy), n_n)
    names = [("northing", "easting"), ("latitude", "longitude"), ("y", "x")][index % 3]
    dn, de = names
    vals = rng.normal(size=(n_n, n_e)) * 10 ** rng.uniform(-2, 3)
    height = rng.normal(size=(n_n, n_e))
    builds = collections.OrderedDict()
    builds["canonical"] = lambda: xr.Dataset({"v": ((dn, de), vals.copy())}, coords={dn: nn, de: e})

    def coords_first(order):
        ds = xr.Dataset(coords={k: {dn: nn, de: e}[k] for k in order})
        ds["v"] = ((dn, de), vals.copy())
        return ds

    builds["coords_first_easting_first"] = lambda: coords_first((de, dn))
    builds["coords_first_northing_first"] = lambda: coords_first((dn, de))
    builds["dataarray_to_dataset_easting_first"] = lambda: xr.DataArray(vals.copy(), coords={de: e, dn: nn}, dims=(dn, de), name="v").to_dataset()
    builds["dataarray_to_dataset_northing_first"] = lambda: xr.DataArray(vals.copy(), coords=[(dn, nn), (de, e)], name="v").to_dataset()
    builds["non_index_coordinates_declared_first"] = lambda: xr.Dataset(
        {"v": ((dn, de), vals.copy())}, coords={"height": ((dn, de), height), "label": ((de,), np.arange(n_e) * 10.0), de: e, dn: nn})
    builds["easting_declared_first_everywhere"] = lambda: xr.Dataset({"v": ((dn, de), vals.copy())}, coords={de: e, dn: nn})
    builds["assigned_coords_afterwards"] = lambda: xr.Dataset({"v": ((dn, de), vals.copy())}).assign_coords({de: e, dn: nn})
    builds["second_variable_same_dims"] = lambda: xr.Dataset({"v": ((dn, de), vals.copy()), "w": ((dn, de), height)}, coords={de: e, dn: nn})
    e2, n2 = np.meshgrid(e, nn)
    inside, outside, either, depth, margin = hull.classify(e2.ravel(), n2.ravel())
    decided = (inside | outside).reshape(n_n, n_e)
    want = None
    for label, make in builds.items():
        ds = make()
        res = _mask_call(run, verde, (dx, dy), grid=ds)
        run.count("construction:mask_grid:%s" % label)
        if res is None:
            continue
        got = np.asarray(res["v"].values)
        if label == "canonical":
            want = got
            continue
        if want is None:
            continue
        run.evaluated("construction_invariance", int(decided.sum()))
        ok = tuple(res["v"].dims) == (dn, de) and got.shape == want.shape
        ok = ok and bool(np.all(~decided | (got == want) | (np.isnan(got) & np.isnan(want))))
        if not ok:
            run.violation("construction_invariance", "convexhull_mask(grid=...) depends on how the Dataset was built (%s): dims %r shape %r, %s nodes differ from the "
                          "canonical construction" % (label, tuple(res["v"].dims), got.shape,
                                                      int((decided & ~((got == want) | (np.isnan(got) & np.isnan(want)))).sum()) if got.shape == want.shape else "all"),
                          {"construction": label, "data": [dx, dy], "easting": e, "northing": nn, "values": vals, "masked_canonical": want, "masked": got},
                          key="construction:mask:" + label)
    # project_grid: the same DataArray obtained in different ways
    proj = axis_affine(rng, e, nn) if index % 2 else general_projection(rng, e, nn)
    method = ["linear", "nearest", "cubic"][index % 3]
    antialias = bool(index % 2)
    pvals = vals.copy()
    pvals[rng.random(pvals.shape) < 0.1] = np.nan
    arrays = collections.OrderedDict()
    arrays["canonical"] = lambda: xr.DataArray(pvals.copy(), coords={dn: nn, de: e}, dims=(dn, de), name="v")
    arrays["coords_easting_first"] = lambda: xr.DataArray(pvals.copy(), coords={de: e, dn: nn}, dims=(dn, de), name="v")

    def from_dataset(order):
        ds = xr.Dataset(coords={k: {dn: nn, de: e}[k] for k in order})
        ds["v"] = ((dn, de), pvals.copy())
        return ds["v"]

    arrays["from_dataset_easting_first"] = lambda: from_dataset((de, dn))
    arrays["to_dataset_and_back"] = lambda: xr.DataArray(pvals.copy(), coords={de: e, dn: nn}, dims=(dn, de), name="v").to_dataset()["v"]
    arrays["non_index_coordinates_declared_first"] = lambda: xr.DataArray(
        pvals.copy(), coords={"height": ((dn, de), height), de: e, dn: nn}, dims=(dn, de), name="v")  # (a 1-D or scalar non-index coordinate makes
    # grid_to_table raise "All arrays must be of the same length" - a C18 matter, reported, not generated here)
    arrays["coords_as_list_of_pairs"] = lambda: xr.DataArray(pvals.copy(), coords=[(dn, nn), (de, e)], name="v")
    ref_out = None
    for label, make in arrays.items():
        try:
            with warnings.catch_warnings():
                warnings.simplefilter("ignore")
                out = verde.project_grid(make(), proj, method=method, antialias=antialias)
        except _STATE["QhullError"]:
            run.count("refused:project_grid_qhull (counted, not failed)")
            continue
        run.count("construction:project_grid:%s" % label)
        if label == "canonical":
            ref_out = out
            continue
        if ref_out is None:
            continue
        run.evaluated("construction_invariance", int(out.size))
        a_, b_ = np.asarray(out.values), np.asarray(ref_out.values)
        ok = out.dims == ref_out.dims and a_.shape == b_.shape and bool(np.all((a_ == b_) | (np.isnan(a_) & np.isnan(b_))))
        ok = ok and all(np.array_equal(np.asarray(out.coords[d].values), np.asarray(ref_out.coords[d].values)) for d in ref_out.dims)
        if not ok:
            run.violation("construction_invariance", "project_grid depends on how the input DataArray was built (%s)" % label,
                          {"construction": label, "values": pvals, "easting": e, "northing": nn, "projection": repr(proj), "method": method, "antialias": antialias,
                           "result_canonical": b_, "result": a_}, key="construction:pg:" + label)
    run.sample("constructions", {"grid_shape": [n_n, n_e], "dims": [dn, de], "classes": list(builds) + ["project_grid:" + k for k in arrays]})


AXES_ORIENTATIONS = ["ascending", "northing_descending", "easting_descending", "both_descending"]


def _axes_case(run, verde, make_hull, index, rng):
    """
    The grid form must be evaluated at the grid's OWN node coordinates - decreasing (north-up rasters) and unevenly spaced axes
    included. Hulls that are not symmetric under a flip (triangles, L-shapes); compared with the array form on the same nodes.
    """
    import xarray as xr

    scale = float(10 ** rng.uniform(-2, 5))
    ox, oy = (float(rng.choice([0.0, 1.0, 30.0]) * scale * rng.uniform(-1, 1)) for _ in range(2))
    shape_kind = ["triangle", "l_shape", "right_triangle_corner", "wedge"][index % 4]
    if shape_kind == "triangle":
        verts = np.array([[0.1, 0.15], [0.9, 0.3], [0.25, 0.95]])
    elif shape_kind == "l_shape":
        verts = np.array([[0.1, 0.1], [0.9, 0.1], [0.9, 0.35], [0.4, 0.35], [0.4, 0.9], [0.1, 0.9]])
    elif shape_kind == "right_triangle_corner":
        verts = np.array([[0.05, 0.05], [0.95, 0.05], [0.05, 0.6]])
    else:
        verts = np.array([[0.5, 0.1], [0.95, 0.9], [0.7, 0.95]])
    verts = verts + rng.uniform(-0.03, 0.03, verts.shape)
    extra = int(rng.integers(0, 25))
    w = rng.dirichlet(np.ones(3), extra)
    inner = w @ verts[:3] if extra else np.zeros((0, 2))
    pts = np.vstack([verts, inner])
    pts = pts[rng.permutation(len(pts))]
    dx, dy = pts[:, 0] * scale + ox, pts[:, 1] * scale * float(rng.uniform(0.5, 2)) + oy
    hull = make_hull(dx, dy)
    if hull.degenerate:
        return
    n_e = int(rng.integers(5, 24))
    n_n = n_e if index % 5 == 0 else int(rng.integers(4, 24))
    spacing = "uneven" if index % 2 else "uniform"
    orient = AXES_ORIENTATIONS[(index // 2) % 4]

    def axis(lo, hi, n):
        if spacing == "uniform":
            return np.linspace(lo, hi, n)
        steps = rng.uniform(0.3, 3.0, n - 1)
        return lo + np.concatenate([[0.0], np.cumsum(steps)]) / steps.sum() * (hi - lo)

    east = axis(dx.min() - 0.15 * np.ptp(dx), dx.max() + 0.25 * np.ptp(dx), n_e)
    north = axis(dy.min() - 0.25 * np.ptp(dy), dy.max() + 0.1 * np.ptp(dy), n_n)
    if orient in ("easting_descending", "both_descending"):
        east = east[::-1].copy()
    if orient in ("northing_descending", "both_descending"):
        north = north[::-1].copy()
    run.count("axes:%s:%s" % (orient, spacing))
    run.count("axes:hull_%s" % shape_kind)
    run.count("axes:%s" % ("square" if n_n == n_e else "non_square"))
    dims = [("northing", "easting"), ("latitude", "longitude"), ("y", "x")][index % 3]
    vals = rng.normal(size=(n_n, n_e))
    ds = xr.Dataset({"scalars": (list(dims), vals)}, coords={dims[0]: north, dims[1]: east})
    e2, n2 = np.meshgrid(east, north)
    as_grid = _mask_call(run, verde, (dx, dy), grid=ds)
    as_array = _mask_call(run, verde, (dx, dy), coordinates=(e2, n2))
    if as_grid is None or as_array is None:
        return
    inside, outside, either, depth, margin = hull.classify(e2.ravel(), n2.ravel())
    decided = (inside | outside).reshape(e2.shape)
    run.evaluated("mask_axes_agree", int(decided.sum()))
    got = np.asarray(as_grid["scalars"].values)
    problem = None
    if got.shape != e2.shape:
        problem = "masked variable has shape %r, the grid %r" % (got.shape, e2.shape)
    else:
        kept = ~np.isnan(got)
        if (decided & (kept != np.asarray(as_array))).any():
            problem = "%d nodes are kept by the grid form and dropped by the array form evaluated at the same node coordinates (or vice versa)" % int(
                (decided & (kept != np.asarray(as_array))).sum())
        elif (kept & (got != vals)).any():
            problem = "kept nodes do not hold the grid's own values"
        elif not (np.array_equal(np.asarray(as_grid.coords[dims[0]].values), north) and np.array_equal(np.asarray(as_grid.coords[dims[1]].values), east)):
            problem = "the masked grid does not keep the coordinate vectors it was given"
    if problem:
        run.violation("mask_axes_agree", "grid form on %s / %s axes: %s" % (orient, spacing, problem),
                      {"orientation": orient, "spacing": spacing, "data": [dx, dy], "easting": east, "northing": north, "values": vals,
                       "array_form_mask": as_array, "grid_form_values": got}, key="axes:%s:%s" % (orient, spacing))
    # the same grid as project_grid input: an axis-aligned affine map must reproduce the node values wherever nodes coincide
    pvals = gen.smooth_field(rng, e2, n2)
    if index % 3 == 0:
        pvals[(e2 - east.min()) / np.ptp(east) + (n2 - north.min()) / np.ptp(north) < 0.5] = np.nan
    da = xr.DataArray(pvals, coords={dims[0]: north, dims[1]: east}, dims=dims, name=[None, "field", 0, ""][index % 4])
    proj = axis_affine(rng, east, north)
    try:
        with warnings.catch_warnings():
            warnings.simplefilter("ignore")
            verde.project_grid(da, proj, method=["linear", "nearest", "cubic"][index % 3], antialias=bool(index % 4 == 3))
    except _STATE["QhullError"]:
        run.count("refused:project_grid_qhull (counted, not failed)")
    run.sample("axes", {"orientation": orient, "spacing": spacing, "hull": shape_kind, "easting": east[:8], "northing": north[:8], "grid_shape": [n_n, n_e],
                        "monitor": "grid form vs exact hull at the grid's own nodes and vs the array form on meshgrid(easting, northing)"})


def _extras_case(run, verde, make_hull, index, rng):
    """
    data_coordinates with more than two arrays: "only easting and northing will be used". An ignored extra coordinate (height, time)
    that is NaN or +-inf at some stations - at hull vertices in particular - must not change the mask: it is the exact hull test on
    (easting, northing) of ALL data points (the mask monitor judges that) and equals the two-coordinate call.
    """
    n = int(rng.choice([5, 9, 20, 45, 90]))
    dx, dy = gen.cloud(rng, n, kind=str(rng.choice(["uniform", "jitter", "clusters", "aniso"])))
    hull = make_hull(dx, dy)
    if hull.degenerate or hull.thin_ratio < 1e-2:
        run.count("extras:skipped_thin_cloud")
        return
    is_vertex = np.array([(float(a), float(b)) in set(hull.vertices) for a, b in zip(dx, dy)])
    height = rng.normal(size=n) * 100
    time = np.arange(n, dtype="float64")
    bad = [np.nan, np.inf, -np.inf][index % 3]
    where = ["all_hull_vertices", "some_hull_vertices", "interior_points", "vertices_and_interior", "every_point"][index % 5]
    sel = np.zeros(n, bool)
    if where == "all_hull_vertices":
        sel = is_vertex.copy()
    elif where == "some_hull_vertices":
        idx = np.flatnonzero(is_vertex)
        sel[rng.choice(idx, max(1, idx.size // 2), replace=False)] = True
    elif where == "interior_points":
        sel = ~is_vertex & (rng.random(n) < 0.5)
    elif where == "vertices_and_interior":
        sel = rng.random(n) < 0.5
        sel[np.flatnonzero(is_vertex)[0]] = True
    else:
        sel[:] = True
    height[sel] = bad
    if index % 2:
        time[rng.random(n) < 0.3] = np.nan
    run.count("extras:%s_at_%s" % ("nan" if bad != bad else "posinf" if bad > 0 else "neginf", where))
    qx, qy = queries_for(rng, hull, dx, dy, n_uniform=120, n_edge=40)
    k = qx.size // 4 * 4
    q2 = (qx[:k].reshape(4, -1), qy[:k].reshape(4, -1))
    inside, outside, either, depth, margin = hull.classify(q2[0], q2[1])
    decided = inside | outside
    base = _mask_call(run, verde, (dx, dy), coordinates=q2)
    east = np.linspace(dx.min() - 0.2 * np.ptp(dx), dx.max() + 0.2 * np.ptp(dx), int(rng.integers(6, 20)))
    north = np.linspace(dy.min() - 0.2 * np.ptp(dy), dy.max() + 0.2 * np.ptp(dy), int(rng.integers(5, 17)))
    ds = _dataset(rng, east, north)
    gbase = _mask_call(run, verde, (dx, dy), grid=ds)
    e2, n2 = np.meshgrid(east, north)
    gin, gout, _, _, _ = hull.classify(e2, n2)
    gdecided = (gin | gout).reshape(e2.shape)
    variants = collections.OrderedDict()
    variants["three_arrays_height"] = (dx, dy, height)
    variants["four_arrays_height_time"] = (dx, dy, height, time)
    variants["list_of_three"] = [dx, dy, height]
    variants["2d_data_with_height"] = None
    for r in (2, 3, 5):
        if n % r == 0:
            variants["2d_data_with_height"] = (dx.reshape(r, -1), dy.reshape(r, -1), height.reshape(r, -1))
            break
    for label, data in variants.items():
        if data is None:
            continue
        run.count("extras:form:%s" % label)
        got = _mask_call(run, verde, data, coordinates=q2 + (np.full(q2[0].shape, np.nan),) if label == "four_arrays_height_time" else q2)
        ggot = _mask_call(run, verde, data, grid=ds)
        for form, res, ref_res, dec in (("array", got, base, decided.reshape(q2[0].shape)),
                                         ("grid", None if ggot is None else ~np.isnan(np.asarray(ggot["scalars"].values)),
                                          None if gbase is None else ~np.isnan(np.asarray(gbase["scalars"].values)), gdecided)):
            if ref_res is None:
                continue
            run.evaluated("mask_extra_coordinate_invariance", int(dec.sum()))
            if res is None:
                run.violation("mask_extra_coordinate_invariance", "%s form refuses data with a non-finite ignored extra coordinate although the two-coordinate "
                              "call on the same points is accepted (%s, %r at %s)" % (form, label, bad, where),
                              {"data": [dx, dy], "extra": height, "where": where}, key="extras:refused:" + form)
                continue
            res, ref_res = np.asarray(res), np.asarray(ref_res)
            diff = dec & (res != ref_res) if res.shape == ref_res.shape else np.ones(1, bool)
            if diff.any():
                run.violation("mask_extra_coordinate_invariance", "%s form: an ignored extra data coordinate that is %r at %s changes the mask (%s): %d decided points "
                              "differ from the two-coordinate call (%d True vs %d True)" % (form, bad, where, label, int(diff.sum()), int(res.sum()), int(ref_res.sum())),
                              {"data": [dx, dy], "extra": height, "non_finite_at": np.flatnonzero(sel), "hull_vertices": np.flatnonzero(is_vertex), "where": where,
                               "mask": res, "mask_two_coordinates": ref_res}, key="extras:%s:%s" % (form, where))
    run.sample("extras", {"n_data": n, "non_finite": repr(bad), "where": where, "points_affected": int(sel.sum()), "hull_vertices": int(is_vertex.sum()),
                          "monitor": "mask == exact hull test on (easting, northing) of all data points == two-coordinate call"})


BYTE_ORDER_DTYPES = [">f8", ">f4", ">i4"]


def _byteorder_case(run, verde, make_hull, index, rng):
    """
    Coordinates in NON-NATIVE byte order (np.frombuffer on big-endian files, .astype('>f8')) as data_coordinates, query coordinates and
    index coordinates of the grid: same result as for native copies of the same values (and the exact hull, judged by the monitors on the
    values). Asserted for the combinations the unchanged stack accepts: every coordinate combination, and big-endian grid VALUES without
    antialiasing; big-endian values with antialiasing, and big-endian index coordinates of a grid that has NaN cells (DataFrame.dropna), are
    refused by pandas ("Big-endian buffer not supported") and only counted.
    """
    import xarray as xr

    dt = np.dtype(BYTE_ORDER_DTYPES[index % 3])
    native = dt.newbyteorder("=")
    assert not dt.isnative and native.isnative
    n = int(rng.choice([6, 15, 40, 80]))
    if dt.kind == "i":
        size = int(rng.integers(6, 40))
        flat = rng.permutation(size * size)[:n]
        dx, dy = (flat % size).astype("float64") + int(rng.integers(-500, 500)), (flat // size).astype("float64") + int(rng.integers(-500, 500))
    else:
        dx, dy = gen.cloud(rng, n, kind=str(rng.choice(["uniform", "jitter", "clusters"])), scale=gen.log_uniform(rng, 1e-2, 1e5), offset_factor=float(rng.choice([0.0, 1.0, 30.0])))
    dx, dy = dx.astype(native), dy.astype(native)  # the values as this dtype holds them
    hull = make_hull(dx, dy)
    if hull.degenerate or hull.thin_ratio < 1e-2:
        run.count("byteorder:skipped_thin_or_degenerate_cloud")
        return
    qx, qy = queries_for(rng, hull, dx.astype("float64"), dy.astype("float64"), n_uniform=140, n_edge=0 if dt.kind == "i" else 30)
    if dt.kind == "i":
        qx, qy = np.round(qx), np.round(qy)
    k = qx.size // 5 * 5
    qx, qy = qx[:k].reshape(5, -1).astype(native), qy[:k].reshape(5, -1).astype(native)

    def swapped(a, how):
        """The same values in the non-native byte order: converted, or read from a big-endian byte buffer (read-only)."""
        if how == "astype":
            return a.astype(dt)
        return np.frombuffer(a.astype(dt).tobytes(), dtype=dt).reshape(a.shape)

    how = ["astype", "frombuffer"][index % 2]
    run.count("byteorder:dtype_%s" % dt.str)
    run.count("byteorder:made_by_%s" % how)
    base = _mask_call(run, verde, (dx, dy), coordinates=(qx, qy))

    def compare(label, result, reference, monitor="byteorder_invariance"):
        run.count("byteorder:%s" % label)
        if reference is None:
            return
        run.evaluated(monitor)
        if result is None:
            run.violation(monitor, "%s with %s coordinates is refused although native copies of the same values are accepted" % (label, dt.str),
                          {"class": label, "dtype": dt.str, "data": [dx, dy]}, key="byteorder:refused:" + label)
            return
        a, b = np.asarray(getattr(result, "values", result)), np.asarray(getattr(reference, "values", reference))
        ok = a.shape == b.shape and bool(np.all((a == b) | ((a != a) & (b != b))))
        if ok and hasattr(reference, "dims"):
            ok = all(np.array_equal(np.asarray(result.coords[d].values, dtype="float64"), np.asarray(reference.coords[d].values, dtype="float64")) for d in reference.dims)
        if not ok:
            run.violation(monitor, "%s: %s (non-native byte order) coordinates give a different result than native copies of the same values "
                          "(%d of %d elements differ)" % (label, dt.str, int((~((a == b) | ((a != a) & (b != b)))).sum()) if a.shape == b.shape else -1, b.size),
                          {"class": label, "dtype": dt.str, "made_by": how, "data": [dx, dy], "native_result": b, "result": a}, key="byteorder:" + label)

    compare("mask_data_swapped", _mask_call(run, verde, (swapped(dx, how), swapped(dy, how)), coordinates=(qx, qy)), base)
    compare("mask_query_swapped", _mask_call(run, verde, (dx, dy), coordinates=(swapped(qx, how), swapped(qy, how))), base)
    compare("mask_both_swapped", _mask_call(run, verde, (swapped(dx, how), swapped(dy, how)), coordinates=(swapped(qx, how), swapped(qy, how))), base)
    compare("mask_easting_only_swapped", _mask_call(run, verde, (swapped(dx, how), dy), coordinates=(swapped(qx, how), qy)), base)
    compare("mask_query_1d_swapped", _mask_call(run, verde, (dx, dy), coordinates=(swapped(qx.ravel(), how), swapped(qy.ravel(), how))),
            None if base is None else np.asarray(base).ravel())
    # grid form: the index coordinates of the Dataset in non-native byte order
    lo_e, hi_e, lo_n, hi_n = float(dx.min()) - 2, float(dx.max()) + 3, float(dy.min()) - 3, float(dy.max()) + 2
    if dt.kind == "i":
        east, north = np.arange(lo_e, hi_e + 1), np.arange(lo_n, hi_n + 1)
        east, north = east[:: max(1, east.size // 15)], north[:: max(1, north.size // 12)]
    else:
        w, h = float(np.ptp(dx.astype("float64"))), float(np.ptp(dy.astype("float64")))
        east = np.linspace(float(dx.min()) - 0.2 * w, float(dx.max()) + 0.3 * w, int(rng.integers(6, 18)))
        north = np.linspace(float(dy.min()) - 0.3 * h, float(dy.max()) + 0.2 * h, int(rng.integers(5, 15)))
    east, north = east.astype(native), north.astype(native)
    vals = rng.normal(size=(north.size, east.size))
    dims = [("northing", "easting"), ("latitude", "longitude")][index % 2]
    ds_native = xr.Dataset({"scalars": (list(dims), vals.copy())}, coords={dims[0]: north, dims[1]: east})
    ds_swapped = xr.Dataset({"scalars": (list(dims), vals.copy())}, coords={dims[0]: swapped(north, how), dims[1]: swapped(east, how)})
    if not ds_swapped.coords[dims[1]].dtype.isnative:
        run.count("byteorder:grid_index_coordinate_stays_non_native")
    gbase = _mask_call(run, verde, (dx, dy), grid=ds_native)
    res = _mask_call(run, verde, (dx, dy), grid=ds_swapped)
    compare("mask_grid_index_coordinates_swapped", None if res is None else res["scalars"], None if gbase is None else gbase["scalars"])
    res = _mask_call(run, verde, (swapped(dx, how), swapped(dy, how)), grid=ds_swapped)
    compare("mask_grid_and_data_swapped", None if res is None else res["scalars"], None if gbase is None else gbase["scalars"])
    # project_grid: index coordinates (asserted for all methods / antialias settings) and values (asserted without antialiasing)
    pvals = gen.smooth_field(rng, *np.meshgrid(east.astype("float64"), north.astype("float64")))
    if index % 4 == 1:
        pvals[:2, :3] = np.nan
    proj = axis_affine(rng, east.astype("float64"), north.astype("float64"))
    method = ["linear", "nearest", "cubic"][(index // 3) % 3]
    antialias = bool((index // 9) % 2)

    def project(values, n_vec, e_vec, aa):
        try:
            with warnings.catch_warnings():
                warnings.simplefilter("ignore")
                return verde.project_grid(xr.DataArray(values, coords={dims[0]: n_vec, dims[1]: e_vec}, dims=dims, name="field"), proj, method=method, antialias=aa), None
        except _STATE["QhullError"]:
            run.count("refused:project_grid_qhull (counted, not failed)")
            return None, "qhull"
        except ValueError as exc:
            if "Big-endian buffer not supported" in str(exc):
                return None, "pandas_big_endian"
            raise

    ref_out, why = project(pvals.copy(), north, east, antialias)
    if why is None:
        out, why = project(pvals.copy(), swapped(north, how), swapped(east, how), antialias)
        if why == "pandas_big_endian" and np.isnan(pvals).any():
            # measured on the unchanged stack: DataFrame.dropna() on big-endian coordinate columns is refused by pandas when the grid has NaN cells
            run.count("byteorder:project_grid_index_coordinates_swapped_with_nan_cells:refused_by_pandas (counted)")
        elif why != "qhull":
            compare("project_grid_index_coordinates_swapped:%s:antialias_%s" % (method, antialias), out, ref_out, "byteorder_invariance")
        ref_plain, why = project(pvals.copy(), north, east, False)
        out, why2 = project(pvals.astype(">f8"), north, east, False)
        if why2 == "pandas_big_endian" and np.isnan(pvals).any():
            run.count("byteorder:project_grid_values_swapped_with_nan_cells:refused_by_pandas (counted)")
        elif why is None and why2 != "qhull":
            compare("project_grid_values_swapped_no_antialias", out, ref_plain)
        out, why3 = project(pvals.astype(">f8"), north, east, True)
        run.count("byteorder:project_grid_values_swapped_with_antialias:%s" % ("refused_by_pandas (counted)" if why3 == "pandas_big_endian" else "accepted" if why3 is None else why3))
        if why3 is None:
            ref_aa, _ = project(pvals.copy(), north, east, True)
            compare("project_grid_values_swapped_with_antialias", out, ref_aa)
    run.sample("byteorder", {"dtype": dt.str, "made_by": how, "n_data": n, "grid_shape": [int(north.size), int(east.size)], "method": method, "antialias": antialias,
                             "monitor": "result for non-native byte order == result for native copies of the same values; every call also judged by the hull / project_grid monitors"})


class _RendezvousProjection(Projection):
    """
    An axis-aligned affine projection that waits for the other threads on its FIRST call (the one project_grid makes before it fits), so
    that the fit and grid stages of the concurrent calls overlap. The wait has a timeout: an implementation that serialises the calls
    cannot deadlock, and later calls (the monitor re-projecting the cells) pass straight through.
    """

    def __init__(self, base, barrier):
        Projection.__init__(self, base.label + "_rendezvous", base.fn, base.params, base.axis_affine)
        self.barrier, self.calls, self.waited = barrier, 0, None

    def __call__(self, easting, northing):
        self.calls += 1
        if self.calls == 1 and self.barrier is not None:
            try:
                self.barrier.wait(timeout=3)
                self.waited = True
            except threading.BrokenBarrierError:
                self.waited = False
        return Projection.__call__(self, easting, northing)


def _concurrent_case(run, verde, make_hull, index, rng):
    """
    Several project_grid (same string method, different grids) and convexhull_mask calls at the same time in different threads. The
    monitors judge every call in its own thread against its own inputs (values reproduced at the projected nodes, name, coordinates,
    hull); here every threaded result is also compared with the result of the same call made alone beforehand.
    """
    import xarray as xr
    from .. import core

    n_threads = [2, 3, 4][index % 3]
    method = ["linear", "nearest", "cubic"][index % 3] if index % 4 else "linear"
    n_n, n_e = int(rng.integers(6, 15)), int(rng.integers(6, 18))
    if n_n == n_e:
        n_e += 1
    east = np.linspace(0.0, float(rng.uniform(5, 50)), n_e) + float(rng.uniform(-100, 100))
    north = np.linspace(0.0, float(rng.uniform(5, 50)), n_n) + float(rng.uniform(-100, 100))
    e2, n2 = np.meshgrid(east, north)
    base_field = gen.smooth_field(rng, e2, n2, amplitude=float(rng.uniform(1, 20)))
    dims = [("northing", "easting"), ("latitude", "longitude")][index % 2]
    grids, plain = [], []
    for k in range(n_threads):
        vals = base_field * (1 + 0.3 * k) + 1000.0 * k  # same shape, clearly different values
        if k % 2 and index % 2:
            vals = vals.copy()
            vals[(e2 - east[0]) / np.ptp(east) + (n2 - north[0]) / np.ptp(north) < 0.35] = np.nan  # and a different hull
        grids.append(xr.DataArray(vals, coords={dims[0]: north, dims[1]: east}, dims=dims, name="grid_%d" % k))
        plain.append(axis_affine(rng, east, north))

    def same(a, b):
        va, vb = np.asarray(a.values), np.asarray(b.values)
        # values compared up to the last bits (1e-9 of the grid's magnitude): numpy / BLAS are not bit-reproducible across differently
        # aligned buffers and threads change what the allocator returns; another call's values differ by the offset between the grids
        scale = float(np.nanmax(np.abs(vb))) if np.isfinite(vb).any() else 1.0
        return (a.name == b.name and a.dims == b.dims and va.shape == vb.shape
                and bool(np.all(np.isclose(va, vb, rtol=1e-9, atol=1e-9 * max(scale, 1e-300)) | (np.isnan(va) & np.isnan(vb))))
                and all(np.array_equal(np.asarray(a.coords[d].values), np.asarray(b.coords[d].values)) for d in a.dims))

    def report(kind, label, outcomes, alone):
        for k, (res, exc) in enumerate(outcomes):
            run.evaluated("concurrent_equals_alone")
            if exc is not None:
                if isinstance(exc, _STATE["QhullError"]):
                    run.count("refused:concurrent_qhull")
                    continue
                if isinstance(exc, TimeoutError):
                    run.note_inconclusive("concurrent: %s" % exc)
                    continue
                run.violation("concurrent_calls", "%s in thread %d of %d (%s, %s) raised %s: %s - the same call made alone succeeds"
                              % (kind, k, len(outcomes), label, method, type(exc).__name__, str(exc)[:200]),
                              {"threads": len(outcomes), "method": method, "round": label}, key="concurrent:exception:" + kind)
            elif alone[k] is not None and not (same(res, alone[k]) if kind == "project_grid" else np.array_equal(np.asarray(res), np.asarray(alone[k]))):
                run.violation("concurrent_calls", "%s in thread %d of %d (%s, %s) returns a different result than the same call made alone"
                              % (kind, k, len(outcomes), label, method),
                              {"threads": len(outcomes), "method": method, "round": label, "alone": alone[k], "threaded": res,
                               "alone_values": np.asarray(getattr(alone[k], "values", alone[k])), "threaded_values": np.asarray(getattr(res, "values", res))},
                              key="concurrent:differs:" + kind)

    with warnings.catch_warnings():
        warnings.simplefilter("ignore")
        alone = []
        for k in range(n_threads):
            try:
                alone.append(verde.project_grid(grids[k], plain[k], method=method, antialias=False))
            except _STATE["QhullError"]:
                alone.append(None)
        # (a) rendezvous inside the projection: every call has projected its cells before any of them fits
        barrier = threading.Barrier(n_threads)
        waiting = [_RendezvousProjection(plain[k], barrier) for k in range(n_threads)]
        outcomes = core.run_threads([(lambda k=k: verde.project_grid(grids[k], waiting[k], method=method, antialias=False)) for k in range(n_threads)])
        run.count("concurrent:project_grid_rendezvous_rounds")
        run.count("concurrent:rendezvous_met" if all(w.waited for w in waiting) else "concurrent:rendezvous_timed_out")
        report("project_grid", "rendezvous", outcomes, alone)
        # (b) plain rounds, no barrier
        # in half of the cases with GIL hand-offs injected at random statement starts inside the verde sources (races a few statements wide)
        inject = 0.25 if index % 2 == 0 else 0.0
        outcomes = core.run_threads([(lambda k=k: verde.project_grid(grids[k], plain[k], method=method, antialias=False)) for k in range(n_threads)], rounds=2,
                                    yield_probability=inject, seed=index)
        run.count("concurrent:project_grid_plain_rounds")
        run.count("concurrent:plain_rounds_with_yield_injection" if inject else "concurrent:plain_rounds_without_yield_injection")
        report("project_grid", "plain", outcomes, alone)
        run.count("concurrent:method_%s:%d_threads" % (method, n_threads))
        # (c) the same grid object and projection shared by all threads
        outcomes = core.run_threads([(lambda: verde.project_grid(grids[0], plain[0], method=method, antialias=False)) for _ in range(n_threads)])
        run.count("concurrent:project_grid_shared_inputs_rounds")
        report("project_grid", "shared_inputs", outcomes, [alone[0]] * n_threads)
        # (d) convexhull_mask: different clouds, array and grid forms
        clouds, queries, masks_alone = [], [], []
        for k in range(n_threads):
            dx, dy = gen.cloud(rng, int(rng.choice([8, 30, 80])), kind=str(rng.choice(["uniform", "jitter", "clusters"])))
            hull = make_hull(dx, dy)
            qx, qy = queries_for(rng, hull, dx, dy, n_uniform=100, n_edge=20)
            clouds.append((dx, dy))
            queries.append((qx, qy))
            masks_alone.append(_mask_call(run, verde, (dx, dy), coordinates=(qx, qy)))
        outcomes = core.run_threads([(lambda k=k: verde.convexhull_mask(clouds[k], coordinates=queries[k])) for k in range(n_threads)], rounds=2,
                                    yield_probability=inject, seed=index + 1000)
        run.count("concurrent:convexhull_mask_rounds")
        run.count("yields_injected", getattr(core.run_threads, "yields_injected", 0) - run.counters.get("yields_injected", 0))
        outcomes = [(r, None if isinstance(e, (_STATE["QhullError"], ValueError)) and masks_alone[k] is None else e) if e is not None else (r, e)
                    for k, (r, e) in enumerate(outcomes)]
        report("convexhull_mask", "plain", [(r, e) for (r, e) in outcomes if not (r is None and e is None)],
               [m for m, (r, e) in zip(masks_alone, outcomes) if not (r is None and e is None)])
    run.sample("concurrent", {"threads": n_threads, "method": method, "grid_shape": [n_n, n_e], "names": [g.name for g in grids],
                              "monitor": "every threaded call judged against its own inputs by the project_grid / mask monitors, and equal to the call made alone"})


def finish(run, tap, shard):  # noqa: U100
    run.count("thin:data_point_queries_withheld (class of known finding F11)", int(_STATE.get("withheld", 0)))


# a 17-point cloud, hull width/diameter 5.9e-5 in the normalised frame: point 0 lies 63 % of the hull width inside and is masked False
F11_WITNESS = (
    [-0.0030644367161069214, 0.0012009284593154515, 0.007292509694700731, -0.00252799458505999, -0.0059440136579781404, 0.0014676400984618776,
     -0.009368588304508823, -0.0021666084019104715, -0.0034380495126586064, -0.0021183339754965104, -0.008452284222012264, 0.001019814555288913,
     0.002336552277081858, 0.004694099057511605, 0.008607269375729499, -0.002732422359386062, 0.0029405189551270526],
    [0.0016023828695661104, 0.011875157368001321, 0.026551782282270477, 0.0028962106005370053, -0.005330900946640705, 0.012520967760864627,
     -0.013579858275854336, 0.0037632440692337826, 0.0007000819893862465, 0.0038799162553228754, -0.011375560235397163, 0.011441538777848904,
     0.0146117934276834, 0.020290863353692852, 0.029717945798573023, 0.0024000408175737396, 0.016067911714234193],
)


LEVEL_TEXT = (
    "Every return of convexhull_mask and project_grid produced by the seeded workload (direct or nested) is judged by an exact convex-hull "
    "reference model; integer-lattice cases are decided exactly, float clouds outside a 1e-9-diameter band. Held means no refutation among "
    "the monitored executions; clouds, grids and projections are sampled, not enumerated."
)
LEVEL_NOTE = (
    "Trusted: CPython integers / float.as_integer_ratio for the exact hull, numpy float64 for distances inside the declared band, xarray as "
    "container; the projection callables are the workload's own and are re-evaluated by the monitor on the same inputs."
)
TECHNIQUE = (
    "runtime postcondition monitors with an exact convex-hull reference model on every (nested) call; metamorphic affine / form relations; "
    "seeded hostile workload (boundary-hugging queries, lattices, thin hulls, extreme per-axis scales, NaN-holed grids, non-linear projections)"
)
