"""
C04 - gridding results do not depend on array layout, point order or dtype; linearity.

The property relates *several executions* of the same gridder configuration on
equivalent inputs. The workload drives such groups (base run, permuted points,
2-D / Fortran / strided / reversed-view / read-only / pandas-Series containers,
extra ignored coordinates, integer dtypes, reshaped queries, linearity triples);
monitors on ``fit`` and ``predict`` of every gridder class record what the real
code returned (every call, nested ones in Chain / Vector included), judge the
shape clause on every normal ``predict`` return, and the group checker compares
the recorded predictions of a group with tolerances derived from an independent
reference least-squares model (condition number, magnitude of the summed terms).
"""
import collections
import warnings

import numpy as np

from .. import gen, ref

ID = "C04"
LEVEL = "exploration"
EPS = ref.EPS
TINY = float(np.finfo("float64").tiny)
K_COND = 100.0
UNINFORMATIVE = 1e-3
QHULL_RTOL = 1e-9

RULE = (
    "cases = groups of executions of one gridder configuration (Spline incl. damping / mindist / separate forces / weights, Trend degree 0..4, "
    "VectorSpline2D, KNeighbors k in 1..5, Linear, Cubic, Chain[Trend, Spline], Vector[Trend|Spline|KNeighbors ...]) on equivalent inputs: a base run "
    "(float64, 1-D, C order) and variants: permuted points; 2-D, Fortran-ordered, strided, reversed-view, read-only and pandas-Series (shuffled index "
    "labels) containers of the same element sequence; extra ignored coordinates; integer-valued coordinates and/or data passed as int64 / int32 "
    "(and general float coordinates with integer data); queries reshaped to 0-d / 2-D / 3-D / Fortran / strided; queries with a size-1 northing; "
    "linearity triples (d1, d2, a d1 + b d2) with a, b in +-10^[-12,12] or compensating the data magnitude, d2 in the same or another magnitude class, also with the caller re-using one data buffer. Option values are also spelled differently (numpy.bool_ / comparison result / 1, 0 / 0-d array for rescale; int, numpy integer, numpy float for mindist, damping, poisson, k, degree; keyword, positional, set_params) and compared with the plain spelling. Argument aliasing: easting / northing (and data, weights) as views of ONE common table - columns of an (n,2) table in both orders, `n, e = t.T`, rows of a (2,n) table, rows walked backwards, Fortran-ordered tables, columns / rows of a wider table holding data and weights too, columns of one DataFrame - must equal the fit on contiguous copies. Queries of different but broadcastable shapes ((1,N) with (M,1), (N,) with (M,1), scalar with array ...) must give the broadcast shape and the values of the explicitly broadcast query wherever the unchanged tree accepts them; two-component models get one data / weights component integer-valued in an integer dtype (array or Series) and the other float64 with fractions. SplineCV is fitted with the points as (m,n) / (n,m) / Fortran 2-D arrays, Series and DataFrame columns (m in 16, 25, 40; 2-4 candidate dampings, default KFold) and must give the scores_, selection and predictions of the raveled run; Spline / SplineCV / VectorSpline2D get integer-valued coordinates as int16 / uint16 / int8 / uint8 (float64 result required). Every group is also queried 2, 10 and 100 bounding-box diagonals outside the data (point order with another last point, layout, integer dtypes; KNeighbors with k up to n against brute force), and a few Spline cases predict n_query x n_forces > 1e7 in one call (1499..1513 forces, 7001 / 20011 queries) against slices of 500, a permuted fit and the reference model. Data magnitudes cycle through 1e-15, 1e-12, 1e-9, 1e-6, 1, 1e6, 1e12 (tolerances stay relative); coordinate extents 1e-2..1e6 and (30 %) 1e-8..1e12. Point sets are in general "
    "position, 4..150 points, scales 1e-2..1e6. A variant is non-trivial when the group has >= 4 points, non-constant data and the transformation "
    "really changed memory layout / container / order / dtype (checked on the arrays); distinct = hash of gridder configuration + inputs + variant."
)
ASSUMPTIONS = [
    "layout-only variants present the identical element sequence, so predictions must agree within 64 eps * sum|terms| (terms from an independent reference model; measured bit-identical on the unchanged tree)",
    "permutation / dtype / linearity tolerances are 100 * kappa_eff * eps * scale with kappa from vmon.ref.LeastSquares on the reference Jacobian (kappa undamped, kappa^2 damped) and scale = max(|data|, |prediction|) over all components of a stacked (vector) system, because a least-squares solve is accurate normwise and relative to its data (for linearity |a| scale_1 + |b| scale_2); groups whose tolerance exceeds 1e-3 of the scale are uninformative and counted as skipped",
    "qhull-based gridders (Linear, Cubic) are compared with 1e-9 relative (the triangulation of points in general position is unique; barycentric arithmetic in thin hull triangles amplifies round-off); queries are strictly inside the hull or far outside so the NaN pattern is decided",
    "Cubic under permutation: SciPy's Clough-Tocher gradient estimation is an order-dependent iteration stopped at tol=1e-6 whose results move by up to several per cent of the data range when the points are reordered (measured with SciPy alone; 5e-7 with tol=1e-12). That solver error is outside verde, so the permuted Cubic run is compared with SciPy's interpolator built by the monitor on the same permuted points (1e-12 relative), and the base-versus-permuted difference is recorded as evidence, not judged",
    "queries have easting and northing of equal shape, plus the one unequal combination the estimators accept today (N-D easting with size-1 northing) for Spline / Trend / VectorSpline2D / Linear / Cubic; other broadcasting is not promised (DESIGN 3(d))",
    "KNeighbors ties are excluded (general position, k-th and (k+1)-th neighbour distances differ by > 1e-9 relative, otherwise the query is dropped)",
    "linearity is monitored for the gridders the statement lists: Spline, Trend, VectorSpline2D, KNeighbors with mean, Linear",
]
FLOORS = {  # ~40 % of what the unchanged tree produces at quick seed 0 (see evidence/C04.json for the observed counts); thorough = 20 x
    "quick": {
        "eval:broadcast_shape": 253, "eval:dtype_invariance": 605, "eval:extra_coords_ignored": 262, "eval:fitted_model_owns_its_data": 46,
        "eval:layout_invariance": 1242, "eval:linearity": 91, "eval:permutation_invariance": 110, "eval:predict_shape": 7110,
        "eval:query_layout": 1046, "eval:reference_agreement": 24, "eval:refit_history": 335, "distinct_nontrivial": 3590,
        "dtype_invariance:all_int32": 60, "dtype_invariance:coords_int32": 60, "dtype_invariance:coords_int64": 60,
        "dtype_invariance:data_int64": 60, "dtype_invariance:float_coords_data_int64": 42, "dtype_invariance:query_int64": 60,
        "forces:Spline:m==2n": 2, "forces:Spline:m==n": 4, "forces:Spline:m==n+1": 2, "forces:Spline:m==n-1": 1, "forces:VectorSpline2D:m==2n": 1,
        "forces:VectorSpline2D:m==n": 2, "forces:VectorSpline2D:m==n+1": 1, "forces:VectorSpline2D:m==n-1": 1, "groups": 118,
        "groups:ScipyGridder:nearest": 1, "groups:coordinate_extent_class=above_1e6": 10, "groups:coordinate_extent_class=below_1e-2": 9,
        "groups:data_magnitude=1": 16, "groups:data_magnitude=1e+06": 16, "groups:data_magnitude=1e+12": 15, "groups:data_magnitude=1e-06": 16,
        "groups:data_magnitude=1e-09": 16, "groups:data_magnitude=1e-12": 17, "groups:data_magnitude=1e-15": 18, "layout_invariance:2d": 90,
        "layout_invariance:data_magnitude=1": 172, "layout_invariance:data_magnitude=1e+06": 169, "layout_invariance:data_magnitude=1e+12": 167,
        "layout_invariance:data_magnitude=1e-06": 173, "layout_invariance:data_magnitude=1e-09": 176, "layout_invariance:data_magnitude=1e-12": 185,
        "layout_invariance:data_magnitude=1e-15": 198, "layout_invariance:fortran": 90, "layout_invariance:readonly": 118,
        "layout_invariance:reversed_view": 118, "layout_invariance:series": 118, "layout_invariance:strided": 118, "linearity:buffer_reuse": 43,
        "linearity:data_magnitude=1": 13, "linearity:data_magnitude=1e+06": 12, "linearity:data_magnitude=1e+12": 12,
        "linearity:data_magnitude=1e-06": 13, "linearity:data_magnitude=1e-09": 12, "linearity:data_magnitude=1e-12": 13,
        "linearity:data_magnitude=1e-15": 14, "linearity:mixed_magnitudes": 24, "linearity:scalars=compensating": 43,
        "linearity:scalars=general": 48, "permutation_invariance:data_magnitude=1": 15, "permutation_invariance:data_magnitude=1e+06": 14,
        "permutation_invariance:data_magnitude=1e+12": 14, "permutation_invariance:data_magnitude=1e-06": 16,
        "permutation_invariance:data_magnitude=1e-09": 15, "permutation_invariance:data_magnitude=1e-12": 15,
        "permutation_invariance:data_magnitude=1e-15": 18, "query_layout:0d": 118, "query_layout:2d_fortran": 118, "query_layout:3d": 102,
        "reference_agreement:m==2n": 3, "reference_agreement:m==n": 9, "reference_agreement:m==n+1": 4, "reference_agreement:m==n-1": 6,
        "refit_history:chain": 12, "refit_history:cubic": 16, "refit_history:linear": 16, "refit_history:neighbors": 32,
        "refit_history:other_points": 21, "refit_history:other_points_same_size": 20, "refit_history:same_points_permuted": 118,
        "refit_history:same_points_permuted_vs_base": 102, "refit_history:spline": 67, "refit_history:subset": 35, "refit_history:superset": 38,
        "refit_history:trend": 44, "refit_history:vector": 33, "refit_history:vector_of": 12, "groups:spelling:cubic": 2,
        "groups:spelling:linear": 2, "groups:spelling:neighbors": 2, "groups:spelling:spline": 2, "groups:spelling:trend": 2,
        "groups:spelling:vector": 2, "option_spelling:cubic": 42, "option_spelling:keyword": 64, "option_spelling:linear": 42,
        "option_spelling:neighbors": 33, "option_spelling:positional": 64, "option_spelling:set_params": 78, "option_spelling:spline": 28,
        "option_spelling:trend": 33, "option_spelling:vector": 28, "option_spelling:within_strict_tolerance": 207, "eval:option_spelling": 207,
        "far_extrapolation:knn_brute_force": 16, "far_extrapolation:knn_k=n": 2, "far_extrapolation:knn_k=n-1": 2,
        "far_extrapolation:knn_k=small": 12, "far_extrapolation:layout:chain": 6, "far_extrapolation:layout:cubic": 8,
        "far_extrapolation:layout:linear": 8, "far_extrapolation:layout:neighbors": 17, "far_extrapolation:layout:spline": 33,
        "far_extrapolation:layout:trend": 22, "far_extrapolation:layout:vector": 16, "far_extrapolation:layout:vector_of": 6,
        "far_extrapolation:permutation:chain": 5, "far_extrapolation:permutation:cubic": 8, "far_extrapolation:permutation:linear": 8,
        "far_extrapolation:permutation:neighbors": 17, "far_extrapolation:permutation:spline": 32, "far_extrapolation:permutation:trend": 18,
        "far_extrapolation:permutation:vector": 15, "far_extrapolation:permutation:vector_of": 5, "large:slices_of_500": 1, "large:permutation": 1,
        "large:reference_subsample": 1, "large:n_queries=7001": 1, "eval:far_extrapolation": 245, "eval:large_call": 3,
        "groups:ScipyGridder:cubic": 1, "groups:ScipyGridder:linear": 1, "layout_invariance:dataframe_columns": 62,
        "layout_invariance:table(2,n)_rows": 59, "layout_invariance:table(n,2)": 58, "layout_invariance:table(n,2).T_unpacked": 62,
        "layout_invariance:table(n,2)_fortran_northing_first": 60, "layout_invariance:table(n,2)_northing_first": 56,
        "layout_invariance:table(n,2)_rows_backwards": 56, "layout_invariance:wide_table_columns": 57, "layout_invariance:wide_table_rows": 55,
        "layout_invariance:wide_table_rows_backwards": 60, "query_layout:table_northing_first": 118, "query_layout:table_rows_backwards": 118,
        "broadcast_shape:(1,)x(M,)": 17, "broadcast_shape:(1,N)x(M,1)": 17, "broadcast_shape:(M,1)x(N,)": 4, "broadcast_shape:(N,) x scalar": 78,
        "broadcast_shape:(N,)x(1,)": 82, "broadcast_shape:(N,)x(M,1)": 17, "broadcast_shape:(N,1)x(1,M)": 6, "broadcast_shape:0d x (M,1)": 14,
        "broadcast_shape:chain:accepted": 12, "broadcast_shape:cubic:accepted": 32, "broadcast_shape:linear:accepted": 32,
        "broadcast_shape:neighbors:accepted": 6, "broadcast_shape:scalar x (M,)": 14, "broadcast_shape:spline:accepted": 67,
        "broadcast_shape:trend:accepted": 44, "broadcast_shape:vector:accepted": 50, "broadcast_shape:vector_of:accepted": 9,
        "dtype_invariance:mixed_components:integer_component=0": 17, "dtype_invariance:mixed_components:integer_component=1": 24,
        "dtype_invariance:mixed_components:vector": 31, "dtype_invariance:mixed_components:vector_of": 10,
        "dtype_invariance:mixed_components:weights_too": 19, "groups:Chain_of_Vector": 3, "option_spelling:documented_defaults": 5,
        "dtype_invariance:narrow:Spline": 64, "dtype_invariance:narrow:SplineCV": 9, "dtype_invariance:narrow:VectorSpline2D": 32,
        "dtype_invariance:narrow:int16": 26, "dtype_invariance:narrow:int8": 26, "dtype_invariance:narrow:uint16": 26,
        "dtype_invariance:narrow:uint8": 26, "groups:SplineCV": 3, "splinecv:rows=16": 1, "splinecv:rows=25": 1, "splinecv:rows=40": 1,
        "splinecv_layout:2d(m,n)": 3, "splinecv_layout:2d(n,m)": 3, "splinecv_layout:2d_fortran": 3, "splinecv_layout:dataframe_columns": 3,
        "splinecv_layout:series": 3, "eval:splinecv_layout": 18, "constant_data:chain": 11, "constant_data:cubic": 12,
        "constant_data:float64:nonzero": 57, "constant_data:float64:zero": 57, "constant_data:int64:nonzero": 57, "constant_data:int64:zero": 57,
        "constant_data:linear": 17, "constant_data:linearity_with_exactly_constant_combination": 46, "constant_data:neighbors": 33,
        "constant_data:spline": 60, "constant_data:trend": 48, "constant_data:vector": 41, "constant_data:vector_of": 4,
        "extra_coords_ignored:datetime64": 17, "extra_coords_ignored:datetime64 Series": 19, "extra_coords_ignored:filter_with_time_coordinate": 72,
        "extra_coords_ignored:timedelta64": 17, "extra_coords_ignored:timedelta64 Series": 18, "eval:constant_data": 276,
    },
    "thorough": {
        "eval:broadcast_shape": 5060, "eval:dtype_invariance": 12100, "eval:extra_coords_ignored": 5240, "eval:fitted_model_owns_its_data": 920,
        "eval:layout_invariance": 24840, "eval:linearity": 1820, "eval:permutation_invariance": 2200, "eval:predict_shape": 142200,
        "eval:query_layout": 20920, "eval:reference_agreement": 480, "eval:refit_history": 6700, "distinct_nontrivial": 71800,
        "dtype_invariance:all_int32": 1200, "dtype_invariance:coords_int32": 1200, "dtype_invariance:coords_int64": 1200,
        "dtype_invariance:data_int64": 1200, "dtype_invariance:float_coords_data_int64": 840, "dtype_invariance:query_int64": 1200,
        "forces:Spline:m==2n": 40, "forces:Spline:m==n": 80, "forces:Spline:m==n+1": 40, "forces:Spline:m==n-1": 20,
        "forces:VectorSpline2D:m==2n": 20, "forces:VectorSpline2D:m==n": 40, "forces:VectorSpline2D:m==n+1": 20, "forces:VectorSpline2D:m==n-1": 20,
        "groups": 2360, "groups:ScipyGridder:nearest": 20, "groups:coordinate_extent_class=above_1e6": 200,
        "groups:coordinate_extent_class=below_1e-2": 180, "groups:data_magnitude=1": 320, "groups:data_magnitude=1e+06": 320,
        "groups:data_magnitude=1e+12": 300, "groups:data_magnitude=1e-06": 320, "groups:data_magnitude=1e-09": 320,
        "groups:data_magnitude=1e-12": 340, "groups:data_magnitude=1e-15": 360, "layout_invariance:2d": 1800,
        "layout_invariance:data_magnitude=1": 3440, "layout_invariance:data_magnitude=1e+06": 3380, "layout_invariance:data_magnitude=1e+12": 3340,
        "layout_invariance:data_magnitude=1e-06": 3460, "layout_invariance:data_magnitude=1e-09": 3520,
        "layout_invariance:data_magnitude=1e-12": 3700, "layout_invariance:data_magnitude=1e-15": 3960, "layout_invariance:fortran": 1800,
        "layout_invariance:readonly": 2360, "layout_invariance:reversed_view": 2360, "layout_invariance:series": 2360,
        "layout_invariance:strided": 2360, "linearity:buffer_reuse": 860, "linearity:data_magnitude=1": 260, "linearity:data_magnitude=1e+06": 240,
        "linearity:data_magnitude=1e+12": 240, "linearity:data_magnitude=1e-06": 260, "linearity:data_magnitude=1e-09": 240,
        "linearity:data_magnitude=1e-12": 260, "linearity:data_magnitude=1e-15": 280, "linearity:mixed_magnitudes": 480,
        "linearity:scalars=compensating": 860, "linearity:scalars=general": 960, "permutation_invariance:data_magnitude=1": 300,
        "permutation_invariance:data_magnitude=1e+06": 280, "permutation_invariance:data_magnitude=1e+12": 280,
        "permutation_invariance:data_magnitude=1e-06": 320, "permutation_invariance:data_magnitude=1e-09": 300,
        "permutation_invariance:data_magnitude=1e-12": 300, "permutation_invariance:data_magnitude=1e-15": 360, "query_layout:0d": 2360,
        "query_layout:2d_fortran": 2360, "query_layout:3d": 2040, "reference_agreement:m==2n": 60, "reference_agreement:m==n": 180,
        "reference_agreement:m==n+1": 80, "reference_agreement:m==n-1": 120, "refit_history:chain": 240, "refit_history:cubic": 320,
        "refit_history:linear": 320, "refit_history:neighbors": 640, "refit_history:other_points": 420, "refit_history:other_points_same_size": 400,
        "refit_history:same_points_permuted": 2360, "refit_history:same_points_permuted_vs_base": 2040, "refit_history:spline": 1340,
        "refit_history:subset": 700, "refit_history:superset": 760, "refit_history:trend": 880, "refit_history:vector": 660,
        "refit_history:vector_of": 240, "groups:spelling:cubic": 40, "groups:spelling:linear": 40, "groups:spelling:neighbors": 40,
        "groups:spelling:spline": 40, "groups:spelling:trend": 40, "groups:spelling:vector": 40, "option_spelling:cubic": 840,
        "option_spelling:keyword": 1280, "option_spelling:linear": 840, "option_spelling:neighbors": 660, "option_spelling:positional": 1280,
        "option_spelling:set_params": 1560, "option_spelling:spline": 560, "option_spelling:trend": 660, "option_spelling:vector": 560,
        "option_spelling:within_strict_tolerance": 4140, "eval:option_spelling": 4140, "far_extrapolation:knn_brute_force": 320,
        "far_extrapolation:knn_k=n": 40, "far_extrapolation:knn_k=n-1": 40, "far_extrapolation:knn_k=small": 240,
        "far_extrapolation:layout:chain": 120, "far_extrapolation:layout:cubic": 160, "far_extrapolation:layout:linear": 160,
        "far_extrapolation:layout:neighbors": 340, "far_extrapolation:layout:spline": 660, "far_extrapolation:layout:trend": 440,
        "far_extrapolation:layout:vector": 320, "far_extrapolation:layout:vector_of": 120, "far_extrapolation:permutation:chain": 100,
        "far_extrapolation:permutation:cubic": 160, "far_extrapolation:permutation:linear": 160, "far_extrapolation:permutation:neighbors": 340,
        "far_extrapolation:permutation:spline": 640, "far_extrapolation:permutation:trend": 360, "far_extrapolation:permutation:vector": 300,
        "far_extrapolation:permutation:vector_of": 100, "large:slices_of_500": 4, "large:permutation": 4, "large:reference_subsample": 4,
        "large:n_queries=7001": 4, "eval:far_extrapolation": 4900, "eval:large_call": 24, "groups:ScipyGridder:cubic": 20,
        "groups:ScipyGridder:linear": 20, "layout_invariance:dataframe_columns": 1240, "layout_invariance:table(2,n)_rows": 1180,
        "layout_invariance:table(n,2)": 1160, "layout_invariance:table(n,2).T_unpacked": 1240,
        "layout_invariance:table(n,2)_fortran_northing_first": 1200, "layout_invariance:table(n,2)_northing_first": 1120,
        "layout_invariance:table(n,2)_rows_backwards": 1120, "layout_invariance:wide_table_columns": 1140, "layout_invariance:wide_table_rows": 1100,
        "layout_invariance:wide_table_rows_backwards": 1200, "query_layout:table_northing_first": 2360, "query_layout:table_rows_backwards": 2360,
        "broadcast_shape:(1,)x(M,)": 340, "broadcast_shape:(1,N)x(M,1)": 340, "broadcast_shape:(M,1)x(N,)": 80,
        "broadcast_shape:(N,) x scalar": 1560, "broadcast_shape:(N,)x(1,)": 1640, "broadcast_shape:(N,)x(M,1)": 340,
        "broadcast_shape:(N,1)x(1,M)": 120, "broadcast_shape:0d x (M,1)": 280, "broadcast_shape:chain:accepted": 240,
        "broadcast_shape:cubic:accepted": 640, "broadcast_shape:linear:accepted": 640, "broadcast_shape:neighbors:accepted": 120,
        "broadcast_shape:scalar x (M,)": 280, "broadcast_shape:spline:accepted": 1340, "broadcast_shape:trend:accepted": 880,
        "broadcast_shape:vector:accepted": 1000, "broadcast_shape:vector_of:accepted": 180,
        "dtype_invariance:mixed_components:integer_component=0": 340, "dtype_invariance:mixed_components:integer_component=1": 480,
        "dtype_invariance:mixed_components:vector": 620, "dtype_invariance:mixed_components:vector_of": 200,
        "dtype_invariance:mixed_components:weights_too": 380, "groups:Chain_of_Vector": 60, "large:n_queries=20011": 4,
        "option_spelling:documented_defaults": 100, "dtype_invariance:narrow:Spline": 1280, "dtype_invariance:narrow:SplineCV": 90,
        "dtype_invariance:narrow:VectorSpline2D": 640, "dtype_invariance:narrow:int16": 520, "dtype_invariance:narrow:int8": 520,
        "dtype_invariance:narrow:uint16": 520, "dtype_invariance:narrow:uint8": 520, "groups:SplineCV": 30, "splinecv:rows=16": 10,
        "splinecv:rows=25": 10, "splinecv:rows=40": 10, "splinecv_layout:2d(m,n)": 30, "splinecv_layout:2d(n,m)": 30,
        "splinecv_layout:2d_fortran": 30, "splinecv_layout:dataframe_columns": 30, "splinecv_layout:series": 30, "eval:splinecv_layout": 180,
        "constant_data:chain": 220, "constant_data:cubic": 240, "constant_data:float64:nonzero": 1140, "constant_data:float64:zero": 1140,
        "constant_data:int64:nonzero": 1140, "constant_data:int64:zero": 1140, "constant_data:linear": 340,
        "constant_data:linearity_with_exactly_constant_combination": 920, "constant_data:neighbors": 660, "constant_data:spline": 1200,
        "constant_data:trend": 960, "constant_data:vector": 820, "constant_data:vector_of": 80, "extra_coords_ignored:datetime64": 340,
        "extra_coords_ignored:datetime64 Series": 380, "extra_coords_ignored:filter_with_time_coordinate": 1440,
        "extra_coords_ignored:timedelta64": 340, "extra_coords_ignored:timedelta64 Series": 360, "eval:constant_data": 5520,
    },
}
JOBS = {"quick": 1, "thorough": 16}
CASE_TIMEOUT_S = 240


def plan(tier):
    if tier == "quick":
        return collections.OrderedDict(spline=60, trend=55, vector=30, neighbors=40, scipy=44, composite=30, forces=36, spelling=42, large=2, splinecv=9)
    return collections.OrderedDict(spline=1200, trend=1100, vector=600, neighbors=800, scipy=880, composite=600, forces=720, spelling=840, large=16, splinecv=90)


# ----------------------------------------------------------------------
# monitors
# ----------------------------------------------------------------------
_STATE = {}


def install(tap, run):
    import verde
    import verde.base as vbase
    import verde.synthetic  # noqa: F401 - make sure every gridder subclass is loaded before wrapping

    state = _STATE
    state.clear()
    state.update(last_predict=None, last_fit=None, nested_predicts=0)

    def components(result):
        return result if isinstance(result, tuple) else (result,)

    def post_predict(ev):
        self = ev.args.get("self")
        if ev.parent is None:
            state["last_predict"] = ev
        else:
            run.count("nested_predict_calls")
        if ev.exc is not None:
            return
        coords = ev.args.get("coordinates")
        try:
            want = np.broadcast(*[np.asarray(c) for c in coords[:2]]).shape
        except (ValueError, TypeError):
            run.count("skipped:query_not_broadcastable")
            return
        run.evaluated("predict_shape")
        name = type(self).__name__
        run.count("predict_shape:%s" % name)
        run.count("predict_shape:ndim=%d" % len(want))
        for k, comp in enumerate(components(ev.result)):
            got = np.shape(comp)
            if tuple(got) != tuple(want):
                run.violation("predict_shape", "%s.predict returned shape %s (component %d) for query easting %s / northing %s: broadcast shape is %s"
                              % (name, tuple(got), k, np.shape(coords[0]), np.shape(coords[1]), tuple(want)),
                              {"gridder": repr(self)[:300], "easting": np.asarray(coords[0]), "northing": np.asarray(coords[1]), "result_shape": list(got),
                               "expected_shape": list(want)}, key="shape:" + name)
                break

    def post_fit(ev):
        if ev.parent is None:
            state["last_fit"] = ev
        else:
            run.count("nested_fit_calls")

    tap.method(vbase.BaseGridder, "predict", post=post_predict, subclasses=True)
    tap.method(vbase.BaseGridder, "fit", post=post_fit, subclasses=True, documented={"weights": None})


# ----------------------------------------------------------------------
# reference side: conditioning and magnitude of the summed terms
# ----------------------------------------------------------------------
class Model:
    """Independent description of one gridder configuration (what the reference needs to know about it)."""

    def __init__(self, kind, label, make, ncomp=1, linear=False, weights_ok=True, qhull=False, **params):
        self.kind, self.label, self.make, self.ncomp = kind, label, make, ncomp
        self.linear, self.weights_ok, self.qhull = linear, weights_ok, qhull
        self.rtol = QHULL_RTOL if qhull else 0.0
        self.refit_fresh = None  # (first_east, first_north) -> (fresh estimator, reference Model) when the first fit leaves documented state behind
        self.params = params

    def jacobians(self, east, north, qe, qn):
        p = self.params
        if self.kind == "spline":
            fe, fn = (east, north) if p.get("force_coords") is None else p["force_coords"]
            return ref.spline_jacobian(east, north, fe, fn, p["mindist"])[0], ref.spline_jacobian(qe, qn, fe, fn, p["mindist"])[0]
        if self.kind == "trend":
            return ref.trend_jacobian(east, north, p["degree"]), ref.trend_jacobian(qe, qn, p["degree"])
        if self.kind == "vector":
            fe, fn = (east, north) if p.get("force_coords") is None else p["force_coords"]
            return (ref.elastic_jacobian(east, north, fe, fn, p["mindist"], p["poisson"])[0],
                    ref.elastic_jacobian(qe, qn, fe, fn, p["mindist"], p["poisson"])[0])
        return None, None


def reference(model, east, north, data, weights, qe, qn):
    """
    kappa_eff, per-query magnitude of summed terms (one row per component), scale, skip reason.
    data / weights: tuples of float64 1-D arrays (weights may be None).
    """
    nq = qe.size
    dmax = max(float(np.max(np.abs(d))) for d in data)
    if model.kind in ("neighbors", "linear", "cubic"):
        return {"kappa_eff": 1.0, "terms": np.full((model.ncomp, nq), dmax), "scale": dmax, "skip": None, "kappa": 1.0}
    if model.kind in ("spline", "trend", "vector"):
        jac, jq = model.jacobians(east, north, qe, qn)
        stacked = np.concatenate(data)
        w = None if weights is None else np.concatenate(weights)
        with np.errstate(all="ignore"):
            ls = ref.LeastSquares(jac, stacked, w, model.params.get("damping"))
            if ls.skip or not np.isfinite(ls.cond):
                return {"kappa_eff": np.inf, "terms": np.full((model.ncomp, nq), dmax), "scale": dmax, "skip": ls.skip or "singular reference system", "kappa": np.inf}
            params = ls.params()
            terms = (np.abs(jq) @ np.abs(params)).reshape(model.ncomp, nq)
            pred = (jq @ params).reshape(model.ncomp, nq)
        scale = max(dmax, float(np.max(np.abs(pred))) if pred.size else 0.0)
        slack = np.zeros((model.ncomp, nq))
        if model.kind == "spline":
            # verde's small-distance kernel form has absolute error eps*r, i.e. a RELATIVE error eps/(r|ln r|) (1e-11 at r = 1e-6): a comparison with the
            # reference model (not of verde with itself) must allow the fit to move by kappa_eff times that relative perturbation of the Jacobian
            p = model.params
            fe, fn = (east, north) if p.get("force_coords") is None else p["force_coords"]
            with np.errstate(all="ignore"):
                r_data = ref.spline_jacobian(east, north, fe, fn, p["mindist"])[1]
                r_query = ref.spline_jacobian(qe, qn, fe, fn, p["mindist"])[1]
                rho = float(np.max(np.max(ref.spline_green_tol(r_data), axis=0) / ls.scale))
                slack = (ref.spline_green_tol(r_query) @ np.abs(params)).reshape(1, nq) + 10 * float(ls.kappa_eff) * rho * scale
        return {"kappa_eff": float(ls.kappa_eff), "terms": np.maximum(terms, dmax), "scale": scale, "skip": None, "kappa": float(ls.cond), "pred": pred,
                "minimum_norm": bool(ls.underdetermined and not ls.damped), "kernel_slack": slack}
    if model.kind == "chain":  # [Trend, Spline]: the spline is fitted to the trend residuals
        first, second = model.params["steps"]
        r1 = reference(first, east, north, data, weights, qe, qn)
        if r1["skip"]:
            return r1
        jac, _ = first.jacobians(east, north, qe, qn)
        ls = ref.LeastSquares(jac, data[0], None if weights is None else weights[0], None)
        resid = data[0] - jac @ ls.params()
        r2 = reference(second, east, north, (resid,), weights, qe, qn)
        if r2["skip"]:
            return r2
        return {"kappa_eff": r1["kappa_eff"] + r2["kappa_eff"], "terms": r1["terms"] + r2["terms"], "scale": max(r1["scale"], r2["scale"]), "skip": None,
                "kappa": max(r1["kappa"], r2["kappa"])}
    if model.kind == "vector_of":
        parts = [reference(m, east, north, (data[k],), None if weights is None else (weights[k],), qe, qn) for k, m in enumerate(model.params["components"])]
        skip = next((p["skip"] for p in parts if p["skip"]), None)
        return {"kappa_eff": max(p["kappa_eff"] for p in parts), "terms": np.vstack([p["terms"] for p in parts]), "scale": max(p["scale"] for p in parts),
                "skip": skip, "kappa": max(p["kappa"] for p in parts)}
    raise ValueError(model.kind)


# ----------------------------------------------------------------------
# group driver
# ----------------------------------------------------------------------
class VariantFailed(Exception):
    pass


def _as_tuple(x):
    return x if isinstance(x, tuple) else (x,)


def _fit(model, coords, data, weights):
    est = model.make()
    d = data if model.ncomp > 1 else data[0]
    if weights is None:
        est.fit(coords, d)
    else:
        est.fit(coords, d, weights if model.ncomp > 1 else weights[0])
    return est


def _predict(est, query):
    """Predictions as observed by the predict monitor (tuple of float64 arrays in the returned shape)."""
    est.predict(query)
    ev = _STATE["last_predict"]
    return tuple(np.asarray(c) for c in _as_tuple(ev.result))


def _flat(pred):
    return tuple(np.asarray(c, dtype="float64").ravel() for c in pred)


def _compare(run, monitor, group, variant, base, got, tol, witness, key):
    """Position-wise comparison incl. NaN pattern. tol: array (ncomp, nq) or scalar. Returns worst error/tolerance."""
    worst = 0.0
    for k, (b, g) in enumerate(zip(base, got)):
        t = np.broadcast_to(np.asarray(tol, dtype="float64")[k] if np.ndim(tol) == 2 else tol, b.shape)
        if g.shape != b.shape:
            run.violation(monitor, "%s / %s: %d predictions instead of %d" % (group, variant, g.size, b.size), witness, key=key + ":size")
            return np.inf
        nan_b, nan_g = np.isnan(b), np.isnan(g)
        if not np.array_equal(nan_b, nan_g):
            i = int(np.argwhere(nan_b != nan_g)[0][0])
            run.violation(monitor, "%s / %s: NaN pattern differs at query %d (base %r, variant %r)" % (group, variant, i, float(b[i]), float(g[i])),
                          dict(witness, base=b, variant=g, component=k), key=key + ":nan")
            return np.inf
        ok = ~nan_b
        if not np.any(ok):
            continue
        ratio = np.abs(g[ok] - b[ok]) / (t[ok] + TINY)
        ratio = np.where(np.isfinite(ratio), ratio, np.inf)
        i = int(np.argmax(ratio))
        worst = max(worst, float(ratio[i]))
        if not ratio[i] <= 1:
            run.violation(monitor, "%s / %s: component %d differs from the base run by %.3g at query %d (base %r, variant %r, tolerance %.3g)"
                          % (group, variant, k, float(np.abs(g[ok] - b[ok])[i]), i, float(b[ok][i]), float(g[ok][i]), float(t[ok][i])),
                          dict(witness, base=b, variant=g, component=k, tolerance=float(t[ok][i])), key=key + ":value")
            return worst
    return worst


def _worst_ratio(base, got, tol):
    """Largest |difference| / tolerance without recording anything (inf when sizes or NaN patterns differ)."""
    worst = 0.0
    for k, (b, g) in enumerate(zip(base, got)):
        t = np.broadcast_to(np.asarray(tol, dtype="float64")[k] if np.ndim(tol) == 2 else tol, b.shape)
        if g.shape != b.shape or not np.array_equal(np.isnan(b), np.isnan(g)):
            return np.inf
        ok = ~np.isnan(b)
        if np.any(ok):
            ratio = np.abs(g[ok] - b[ok]) / (t[ok] + TINY)
            worst = max(worst, float(np.max(np.where(np.isfinite(ratio), ratio, np.inf))))
    return worst


def _compare_refit(run, monitor, group, variant, base, got, tol_strict, tol_cond, informative, witness, key):
    """
    A variant that re-runs fit on the same element sequence: first the strict summation tolerance (identical arithmetic expected);
    if that is exceeded, the statement's "up to solver round-off" applies: element-wise kernels may differ by an ulp between
    contiguous and strided arrays and the solver amplifies that by the condition number. Uninformative groups are skipped then.
    Returns the worst error / strict tolerance.
    """
    strict = _worst_ratio(base, got, tol_strict)
    if strict <= 1:
        run.count(monitor + ":within_strict_tolerance")
        return strict
    if np.isfinite(strict) and not informative:
        run.count("skipped:uninformative_" + monitor)
        return 0.0
    run.count(monitor + ":beyond_strict_tolerance")
    _compare(run, monitor, group, variant, base, got, np.asarray(tol_strict) + tol_cond, witness, key)
    return strict


def _nontrivial_inputs(east, data):
    return east.size >= 4 and all(np.ptp(d) > 0 for d in data)


def run_group(run, rng, model, east, north, data, weights, qe, qn, integer_base=None, float_int_data=None, integer_model=None):
    """
    One group: base + variants. east/north: float64 1-D; data, weights: tuples of 1-D float64 arrays (weights may be None).
    integer_base: (east_i, north_i, data_i, query) with integer-valued float arrays for the dtype class.
    """
    group = model.label
    conf = {"gridder": group, "params": {k: v for k, v in model.params.items() if k not in ("steps", "components")}}
    base_witness = dict(conf, east=east, north=north, data=list(data), weights=None if weights is None else list(weights), query_east=qe, query_north=qn)
    try:
        est0 = _fit(model, (east, north), data, weights)
        base = _flat(_predict(est0, (qe, qn)))
    except Exception as exc:  # noqa: BLE001
        if "qhull" in (type(exc).__name__ + str(exc)).lower():
            run.count("refused:qhull")
            return
        raise
    run.count("groups")
    run.count("groups:" + model.kind)
    mag = _STATE.get("magnitude", 1.0)
    conf["data_magnitude"] = mag
    base_witness["data_magnitude"] = mag
    run.count("groups:data_magnitude=%g" % mag)
    extent = max(float(np.ptp(east)), float(np.ptp(north)))
    run.count("groups:coordinate_extent=1e%+03d" % int(np.floor(np.log10(extent))) if extent > 0 else "groups:coordinate_extent=0")
    run.count("groups:coordinate_extent_class=" + ("below_1e-2" if extent < 1e-2 else "above_1e6" if extent > 1e6 else "documented_1e-2..1e6"))
    with np.errstate(all="ignore"):
        refm = reference(model, east, north, data, weights, qe, qn)
    nontrivial = _nontrivial_inputs(east, data)
    rel_cond = K_COND * refm["kappa_eff"] * EPS
    informative = refm["skip"] is None and rel_cond <= UNINFORMATIVE
    if refm["skip"] is None and np.isfinite(refm["kappa"]) and refm["kappa"] > 0:
        run.count("kappa_decade:1e%02d" % int(np.floor(np.log10(max(refm["kappa"], 1.0)))))
    tol_layout = 64 * EPS * refm["terms"]
    tol_cond = max(rel_cond, model.rtol) * refm["scale"]

    def attempt(monitor, variant, fn, witness, key):
        try:
            return fn()
        except Exception as exc:  # noqa: BLE001 - the base run succeeded, so an equivalent input must not raise
            run.evaluated(monitor)
            run.count("%s:%s" % (monitor, variant))
            run.violation(monitor, "%s / %s: raised %s: %s (the base run on the equivalent input succeeded)" % (witness.get("gridder", group), variant, type(exc).__name__, str(exc)[:300]),
                          dict(witness, exception=type(exc).__name__), key="%s:raised:%s" % (key, type(exc).__name__))
            return None

    # -- layout-only containers of the same element sequence ----------------------
    arrays = (east, north) + tuple(data) + (tuple(weights) if weights is not None else ())
    aliased = list(_aliased_tables(arrays, rng))
    keep = set(int(v) for v in rng.choice(len(aliased), 5, replace=False))  # five of the ten aliasing classes per group
    for lname, conts in list(gen.layouts(arrays, rng)) + [a for k, a in enumerate(aliased) if k in keep]:
        ce, cn = conts[0], conts[1]
        cd = tuple(conts[2:2 + model.ncomp])
        cw = None if weights is None else tuple(conts[2 + model.ncomp:])
        changed = all(gen.is_layout_changed(a, c) for a, c in zip(arrays, conts))
        if not all(np.array_equal(np.asarray(c).ravel(), a) for a, c in zip(arrays, conts)):
            raise AssertionError("harness defect: layout %r does not hold the base element sequence" % lname)
        wit = dict(base_witness, variant=lname)
        got = attempt("layout_invariance", lname, lambda: _flat(_predict(_fit(model, (ce, cn), cd, cw), (qe, qn))), wit, "layout:" + lname)
        if got is None:
            continue
        run.evaluated("layout_invariance")
        run.count("layout_invariance:" + lname)
        run.count("layout_invariance:data_magnitude=%g" % mag)
        worst = _compare_refit(run, "layout_invariance", group, lname, base, got, tol_layout, tol_cond, informative or model.qhull or model.kind == "neighbors", wit, "layout:" + lname)
        run.observe_max("layout_error_over_tolerance", worst)
        run.observe_max("layout_max_abs_difference_over_scale", max((float(np.nanmax(np.abs(g - b))) if np.any(~np.isnan(b)) else 0.0) for b, g in zip(base, got)) / (refm["scale"] + TINY))
        if nontrivial and changed:
            run.mark_nontrivial("layout", lname, conf, east, north, data)

    # -- extra ignored coordinates ---------------------------------------------------
    extra_fit = rng.normal(size=east.size) * 1e3
    extra_q = rng.normal(size=qe.size) * 1e3
    wit = dict(base_witness, variant="extra_coords")
    got = attempt("extra_coords_ignored", "extra", lambda: _flat(_predict(_fit(model, (east, north, extra_fit), data, weights), (qe, qn, extra_q))), wit, "extra")
    if got is not None:
        run.evaluated("extra_coords_ignored")
        worst = _compare_refit(run, "extra_coords_ignored", group, "extra coordinate appended in fit and predict", base, got, tol_layout, tol_cond,
                               informative or model.qhull or model.kind == "neighbors", wit, "extra")
        run.observe_max("extra_coords_error_over_tolerance", worst)
        if nontrivial:
            run.mark_nontrivial("extra", conf, east, north, data)

    # -- query containers / shapes ----------------------------------------------------
    for qname, (a, b), index in _query_variants(rng, qe, qn):
        wit = dict(base_witness, variant="query:" + qname, query_shape=list(np.shape(a)))
        res = attempt("query_layout", qname, lambda: _predict(est0, (a, b)), wit, "query:" + qname)
        if res is None:
            continue
        run.evaluated("query_layout")
        run.count("query_layout:" + qname)
        want_shape = np.shape(a)
        bad_shape = next((np.shape(c) for c in res if np.shape(c) != want_shape), None)
        if bad_shape is not None:
            run.violation("query_layout", "%s: prediction for a %s query has shape %s, the query arrays have shape %s" % (group, qname, bad_shape, want_shape), wit,
                          key="query:%s:shape" % qname)
            continue
        sub = tuple(c[index] for c in base)
        worst = _compare(run, "query_layout", group, "query as " + qname, sub, _flat(res), tol_layout[:, index] if np.ndim(tol_layout) == 2 else tol_layout, wit, "query:" + qname)
        run.observe_max("query_layout_error_over_tolerance", worst)
        if nontrivial:
            run.mark_nontrivial("query", qname, conf, east, north, qe, qn)

    # -- different but broadcastable query shapes -----------------------------------------------
    _broadcast_class(run, rng, model, group, conf, base_witness, est0, qe, qn, 64 * EPS * 4.0 * float(np.max(refm["terms"])), attempt, nontrivial)

    # -- permuted points ----------------------------------------------------------------
    perm = rng.permutation(east.size)
    if east.size > 1 and not np.array_equal(perm, np.arange(east.size)):
        wit = dict(base_witness, variant="permutation", permutation=perm)
        pdata = tuple(d[perm] for d in data)
        pweights = None if weights is None else tuple(w[perm] for w in weights)
        got = attempt("permutation_invariance", "perm", lambda: _flat(_predict(_fit(model, (east[perm], north[perm]), pdata, pweights), (qe, qn))), wit, "perm")
        if got is None:
            pass
        elif not informative and not model.qhull and model.kind != "neighbors":
            run.count("skipped:uninformative_permutation")
        else:
            run.evaluated("permutation_invariance")
            run.count("permutation_invariance:" + model.kind)
            run.count("permutation_invariance:data_magnitude=%g" % mag)
            if model.kind == "cubic":  # see ASSUMPTIONS: SciPy's own order dependence is recorded, verde is compared with SciPy on the permuted points
                import scipy.interpolate as si

                want = si.CloughTocher2DInterpolator(np.column_stack([east[perm], north[perm]]), pdata[0], rescale=model.params["rescale"])((qe, qn))
                _compare(run, "permutation_invariance", group, "points permuted (against SciPy on the same permuted points)", (np.asarray(want, dtype="float64"),), got,
                         1e-12 * refm["scale"], wit, "perm-cubic")
                finite = ~np.isnan(base[0]) & ~np.isnan(got[0])
                if np.any(finite):
                    run.observe_max("cubic_scipy_solver_order_dependence_over_scale(not judged)", float(np.max(np.abs(base[0][finite] - got[0][finite]))) / (refm["scale"] + TINY))
                run.count("either_way:cubic_solver_order_dependence")
            else:
                worst = _compare(run, "permutation_invariance", group, "points permuted", base, got, tol_cond + 64 * EPS * refm["scale"], wit, "perm")
                run.observe_max("permutation_error_over_tolerance:" + ("qhull" if model.qhull else "neighbors" if model.kind == "neighbors" else "least_squares"), worst)
            if nontrivial:
                run.mark_nontrivial("perm", conf, east, north, data, perm)

    # -- the base run against the reference least-squares model (explicit force coordinates: any number of forces) --------
    if "pred" in refm and model.params.get("force_coords") is not None:
        if not informative or refm["minimum_norm"]:
            run.count("skipped:reference_agreement_" + ("minimum_norm_solution_not_in_statement" if informative else "uninformative"))
        else:
            run.evaluated("reference_agreement")
            run.count("reference_agreement:" + str(model.params.get("force_class")))
            worst = _compare(run, "reference_agreement", group, "base run vs reference least squares on the reference Jacobian (%d data, %d forces)"
                             % (east.size, model.params["force_coords"][0].size), tuple(refm["pred"]), base, tol_cond + tol_layout + refm["kernel_slack"], base_witness, "reference")
            run.observe_max("reference_agreement_error_over_tolerance", worst)

    # -- exactly constant data; ignored time coordinates -------------------------------------------
    if rng.random() < 0.4:
        _constant_fields(run, rng, model, group, conf, east, north, data, weights, qe, qn, refm, informative, attempt)
    if rng.random() < 0.5:
        _time_extras(run, rng, model, group, conf, east, north, data, weights, qe, qn, est0, base, attempt)

    # -- far extrapolation ------------------------------------------------------------------------
    _far_extrapolation(run, rng, model, group, conf, east, north, data, weights, est0, attempt, nontrivial)

    # -- refit histories on one instance ------------------------------------------------------
    _refit_histories(run, rng, model, group, conf, east, north, data, weights, qe, qn, base, tol_cond, informative, nontrivial, attempt)

    # -- linearity --------------------------------------------------------------------------
    if model.linear:
        _linearity(run, rng, model, group, conf, east, north, data, weights, qe, qn, refm, informative, nontrivial, attempt, base, tol_layout, tol_cond)

    # -- integer dtypes ------------------------------------------------------------------------
    if integer_base is not None:
        imodel = integer_model or model
        iconf = {"gridder": imodel.label, "params": {k: v for k, v in imodel.params.items() if k not in ("steps", "components")}}
        _dtype_class(run, rng, imodel, imodel.label, iconf, integer_base, weights, attempt)
    if float_int_data is not None:
        _float_coords_int_data(run, rng, model, group, conf, east, north, float_int_data, weights, qe, qn, attempt)
    _mixed_component_dtypes(run, rng, model, group, conf, east, north, data, weights, qe, qn, attempt)


BROADCAST_SHAPES = ("(1,N)x(M,1)", "(N,1)x(1,M)", "(N,)x(M,1)", "(M,1)x(N,)", "scalar x (M,)", "(N,) x scalar", "(N,)x(1,)", "(1,)x(M,)", "0d x (M,1)")
# what the unchanged tree accepts (probed): everything for the SciPy-backed gridders; a size-1 northing for Spline / Trend / Chain / Vector;
# any size-1 operand in one dimension for VectorSpline2D; nothing for KNeighbors. Other combinations are tried as well: a refusal is counted, a normal
# return is judged like the accepted ones (contracts judge normal returns).
BROADCAST_ACCEPTED = {
    "linear": BROADCAST_SHAPES, "cubic": BROADCAST_SHAPES, "scipy_nearest": BROADCAST_SHAPES,
    "spline": ("(N,) x scalar", "(N,)x(1,)"), "trend": ("(N,) x scalar", "(N,)x(1,)"), "chain": ("(N,) x scalar", "(N,)x(1,)"), "vector_of": ("(N,) x scalar", "(N,)x(1,)"),
    "vector": ("scalar x (M,)", "(N,) x scalar", "(N,)x(1,)", "(1,)x(M,)", "0d x (M,1)"), "neighbors": (),
}


def _broadcast_queries(qe, qn):
    n_e, n_n = min(5, qe.size), min(4, qn.size)
    a, b = qe[:n_e], qn[qn.size - n_n:]
    return {"(1,N)x(M,1)": (a.reshape(1, -1), b.reshape(-1, 1)), "(N,1)x(1,M)": (a.reshape(-1, 1), b.reshape(1, -1)), "(N,)x(M,1)": (a, b.reshape(-1, 1)),
            "(M,1)x(N,)": (b.reshape(-1, 1) * 0 + a[:n_n].reshape(-1, 1), qn[:n_e]), "scalar x (M,)": (np.float64(a[0]), b), "(N,) x scalar": (a, np.float64(b[0])),
            "(N,)x(1,)": (a, b[:1]), "(1,)x(M,)": (a[:1], b), "0d x (M,1)": (np.array(a[0]), b.reshape(-1, 1))}


def _broadcast_class(run, rng, model, group, conf, base_witness, est0, qe, qn, tol_scale, attempt, nontrivial):
    """Easting and northing of different but broadcastable shapes: broadcast shape, values of the explicitly broadcast contiguous query."""
    if qe.size < 4:
        return
    key = "scipy_nearest" if getattr(model, "owns_data", True) is False else model.kind
    accepted = BROADCAST_ACCEPTED.get(key, ())
    if "neighbors" in _kinds(model) and key != "scipy_nearest":
        accepted = ()  # a KNeighbors component accepts none of them
    queries = _broadcast_queries(qe, qn)
    if len(accepted) == len(BROADCAST_SHAPES):  # the two-dimensional outer-product shapes always, two of the others
        names = ["(1,N)x(M,1)", "(N,)x(M,1)"] + [str(s) for s in rng.permutation([s for s in accepted if s not in ("(1,N)x(M,1)", "(N,)x(M,1)")])[:2]]
    else:
        names = [str(s) for s in rng.permutation(list(accepted))[:3]] + [str(s) for s in rng.permutation([s for s in BROADCAST_SHAPES if s not in accepted])[:1]]
    for bname in names:
        a, b = queries[bname]
        full_a, full_b = (np.ascontiguousarray(x) for x in np.broadcast_arrays(a, b))
        wit = dict(base_witness, variant="broadcast:" + bname, query_east=np.asarray(a), query_north=np.asarray(b))
        if bname not in accepted:
            try:
                res = _predict(est0, (a, b))
            except Exception:  # noqa: BLE001 - not accepted on the unchanged tree either: counted, not judged (DESIGN 3(d))
                run.count("refused:broadcast:%s:%s" % (model.kind, bname))
                continue
        else:
            res = attempt("broadcast_shape", bname, lambda: _predict(est0, (a, b)), wit, "broadcast:" + bname)
            if res is None:
                continue
        full = attempt("broadcast_shape", bname + "(explicit)", lambda: _flat(_predict(est0, (full_a, full_b))), wit, "broadcast-explicit")
        if full is None:
            continue
        run.evaluated("broadcast_shape")
        run.count("broadcast_shape:" + bname)
        run.count("broadcast_shape:%s:%s" % (model.kind, "accepted" if bname in accepted else "also_returned"))
        if any(np.shape(c) != full_a.shape for c in res):
            run.violation("broadcast_shape", "%s: easting %s with northing %s gave shape %s, the broadcast shape is %s"
                          % (group, np.shape(a), np.shape(b), [np.shape(c) for c in res], full_a.shape), wit, key="broadcast:shape:" + model.kind)
            continue
        _compare(run, "broadcast_shape", group, "easting %s with northing %s vs the explicitly broadcast query" % (np.shape(a), np.shape(b)), full, _flat(res), tol_scale, wit,
                 "broadcast:" + model.kind)
        if nontrivial:
            run.mark_nontrivial("broadcast", bname, conf, qe, qn)


def _mixed_component_dtypes(run, rng, model, group, conf, east, north, data, weights, qe, qn, attempt):
    """Two-component data (and weights) whose components have DIFFERENT dtypes: one integer-valued in an integer dtype, the other float64 with fractions."""
    import pandas as pd

    if model.ncomp != 2:
        return
    for which in (int(rng.integers(0, 2)),):  # the integer component is the first or the second one
        ints = np.round(data[which] / (np.max(np.abs(data[which])) or 1.0) * 500.0)
        mixed = tuple(ints if k == which else data[k] for k in range(2))
        wbase = weights
        if weights is not None:  # integer-valued weights for the other component
            wbase = tuple(np.round(1 + 4 * rng.random(east.size)) if k != which else weights[k] for k in range(2))
        wit0 = dict(conf, east=east, north=north, data=list(mixed), weights=None if wbase is None else list(wbase), query_east=qe, query_north=qn)
        base = attempt("dtype_invariance", "mixed-base", lambda: _flat(_predict(_fit(model, (east, north), mixed, wbase), (qe, qn))), wit0, "mixed-base")
        if base is None:
            return
        with np.errstate(all="ignore"):
            refm = reference(model, east, north, mixed, wbase, qe, qn)
        rel = K_COND * refm["kappa_eff"] * EPS
        if refm["skip"] is not None or rel > UNINFORMATIVE:
            run.count("skipped:uninformative_dtype")
            continue
        tol = (rel + 64 * EPS) * refm["scale"]
        for dt, container in ((("int64", "array"), ("int32", "series")) if rng.random() < 0.5 else (("int32", "array"), ("int64", "series"))):
            if True:
                def typed(arr):
                    out = arr.astype(dt)
                    return pd.Series(out, index=rng.permutation(out.size) + 100) if container == "series" else out

                vdata = tuple(typed(mixed[k]) if k == which else mixed[k] for k in range(2))
                vweights = wbase if wbase is None else tuple(typed(wbase[k]) if k != which else wbase[k] for k in range(2))
                vname = "component%d_%s_%s" % (which, dt, container)
                wit = dict(wit0, variant="dtype:mixed:" + vname, integer_dtype=dt)
                got = attempt("dtype_invariance", vname, lambda: _flat(_predict(_fit(model, (east, north), vdata, vweights), (qe, qn))), wit, "dtype:mixed")
                if got is None:
                    continue
                run.evaluated("dtype_invariance")
                run.count("dtype_invariance:mixed_components:%s" % model.kind)
                run.count("dtype_invariance:mixed_components:integer_component=%d" % which)
                if wbase is not None:
                    run.count("dtype_invariance:mixed_components:weights_too")
                worst = _compare(run, "dtype_invariance", group, "component %d integer-valued as %s %s, the other float64 with fractions" % (which, dt, container), base, got, tol, wit,
                                 "dtype:mixed:" + model.kind)
                run.observe_max("dtype_error_over_tolerance", worst)
                run.mark_nontrivial("dtype-mixed", vname, conf, east, north, mixed)


def _constant_fields(run, rng, model, group, conf, east, north, data, weights, qe, qn, refm, informative, attempt):
    """Exactly constant data (std == 0): plain constants (0 and non-zero, float64 and int64) and a linearity triple whose combination is constant."""
    n = east.size
    ok_cond = informative or model.qhull or model.kind == "neighbors"
    reproduces = not (_kinds(model) & {"spline", "vector"}) or "trend" in _kinds(model) and model.kind == "chain"  # splines have no constant term
    rel = max(K_COND * refm["kappa_eff"] * EPS if np.isfinite(refm["kappa_eff"]) else 0.0, model.rtol) + 64 * EPS
    for value, dt in ((0.0, "float64"), (0, "int64"), (float(rng.choice([7.0, -3.0, 1e6])), "float64"), (int(rng.choice([7, -3, 1000])), "int64")):
        const = tuple(np.full(n, value, dtype=dt) for _ in range(model.ncomp))
        wit = dict(conf, variant="constant_data", value=value, dtype=dt, east=east, north=north, query_east=qe, query_north=qn, weights=None if weights is None else list(weights))
        got = attempt("constant_data", "%s:%s" % (dt, value), lambda: _flat(_predict(_fit(model, (east, north), const, weights), (qe, qn))), wit, "constant")
        if got is None:
            continue
        run.evaluated("constant_data")
        run.count("constant_data:%s:%s" % (dt, "zero" if value == 0 else "nonzero"))
        run.count("constant_data:" + model.kind)
        for g in got:
            inside = ~np.isnan(g) if model.qhull else np.ones(g.shape, bool)
            if not np.all(np.isfinite(g[inside])):
                run.violation("constant_data", "%s fitted to the constant %r (%s) predicts non-finite values" % (group, value, dt), dict(wit, predictions=g), key="constant:nonfinite")
                break
            if value == 0 and np.any(np.abs(g[inside]) > 1e-290):
                run.violation("constant_data", "%s fitted to all-zero data predicts %r" % (group, float(np.max(np.abs(g[inside])))), dict(wit, predictions=g), key="constant:zero")
                break
            if value != 0 and reproduces and ok_cond and np.any(np.abs(g[inside] - value) > rel * abs(value) * 4):
                run.violation("constant_data", "%s fitted to the constant %r predicts values off by %.3g" % (group, value, float(np.max(np.abs(g[inside] - value)))),
                              dict(wit, predictions=g), key="constant:value")
                break
    if model.linear and ok_cond:  # a d1 + d2 is EXACTLY constant
        a = float(rng.choice([2.0, -3.0, 0.5]))
        c = float(rng.choice([0.0, 5.0, -40.0]))
        d1 = tuple(np.round(d / (np.max(np.abs(d)) or 1.0) * 64.0) for d in data)
        d2 = tuple(c - a * x for x in d1)
        d3 = tuple(a * x + y for x, y in zip(d1, d2))
        wit = dict(conf, variant="linearity:constant_combination", a=a, b=1.0, constant=c, east=east, north=north, d1=list(d1), query_east=qe, query_north=qn)
        if all(np.ptp(x) == 0 for x in d3):
            res = attempt("constant_data", "linearity", lambda: tuple(_flat(_predict(_fit(model, (east, north), d, weights), (qe, qn))) for d in (d1, d2, d3)), wit, "constant-linearity")
            if res is not None:
                p1, p2, p3 = res
                run.evaluated("constant_data")
                run.count("constant_data:linearity_with_exactly_constant_combination")
                scale = abs(a) * max(float(np.max(np.abs(x))) for x in d1) + max(float(np.max(np.abs(x))) for x in d2)
                scale = max([scale] + [float(np.nanmax(np.abs(p))) for p in p1 + p2 if np.any(~np.isnan(p))])
                _compare(run, "constant_data", group, "fit(a d1 + d2) with a d1 + d2 == %g exactly vs a fit(d1) + fit(d2)" % c, tuple(a * x + y for x, y in zip(p1, p2)), p3,
                         rel * scale, wit, "constant-linearity")


def _time_extras(run, rng, model, group, conf, east, north, data, weights, qe, qn, est0, base, attempt):
    """An ignored third coordinate of datetime64 / timedelta64 dtype (array or Series) in fit, predict and filter."""
    import pandas as pd

    n = east.size
    unit = str(rng.choice(["ns", "s", "ms"]))
    if rng.random() < 0.5:
        tf = np.datetime64("2021-03-04T05:06:07") + (rng.integers(0, 10 ** 6, n)).astype("timedelta64[%s]" % unit)
        tq = np.datetime64("2022-01-01") + np.arange(qe.size).astype("timedelta64[%s]" % unit)
        label = "datetime64[%s]" % unit
    else:
        tf, tq = rng.integers(0, 10 ** 6, n).astype("timedelta64[%s]" % unit), np.arange(qe.size).astype("timedelta64[%s]" % unit)
        label = "timedelta64[%s]" % unit
    if rng.random() < 0.5:
        tf, tq, label = pd.Series(tf, index=rng.permutation(n) + 7), pd.Series(tq), label + " Series"
    wit = dict(conf, variant="extra_coords:" + label, east=east, north=north, data=list(data), query_east=qe, query_north=qn)
    got = attempt("extra_coords_ignored", label, lambda: _flat(_predict(_fit(model, (east, north, tf), data, weights), (qe, qn, tq))), wit, "extra-time")
    if got is None:
        return
    run.evaluated("extra_coords_ignored")
    run.count("extra_coords_ignored:" + label.split("[")[0] + (" Series" if "Series" in label else ""))
    if not all(np.array_equal(b, g, equal_nan=True) for b, g in zip(base, got)):
        run.violation("extra_coords_ignored", "%s with an ignored %s third coordinate in fit and predict differs from the two-coordinate run" % (group, label),
                      dict(wit, base=list(base), got=list(got)), key="extra-time:" + model.kind)
    d = data if model.ncomp > 1 else data[0]
    w = None if weights is None else (weights if model.ncomp > 1 else weights[0])
    f0 = attempt("extra_coords_ignored", "filter", lambda: est0.filter((east, north), d, w), wit, "extra-time-filter")
    f1 = attempt("extra_coords_ignored", "filter+" + label, lambda: model.make().filter((east, north, tf), d, w), wit, "extra-time-filter")
    if f0 is not None and f1 is not None:
        run.evaluated("extra_coords_ignored")
        run.count("extra_coords_ignored:filter_with_time_coordinate")
        r0, r1 = _as_tuple(f0[1]), _as_tuple(f1[1])
        if not all(np.array_equal(np.asarray(x), np.asarray(y), equal_nan=True) for x, y in zip(r0, r1)):
            run.violation("extra_coords_ignored", "%s.filter residuals change when an ignored %s coordinate is appended" % (group, label), wit, key="extra-time-filter:" + model.kind)


def _refit_histories(run, rng, model, group, conf, east, north, data, weights, qe, qn, base, tol_cond, informative, nontrivial, attempt):
    """
    fit, (predict,) fit again on ONE instance: the second fit must give what a fresh estimator gives on the second input, and for the same
    point set in another order it must reproduce the base predictions within the permutation tolerance.
    """
    n = east.size
    if n < 5:
        return
    ok_cond = informative or model.qhull or model.kind == "neighbors"

    def pick(idx):
        return (east[idx], north[idx]), tuple(d[idx] for d in data), None if weights is None else tuple(w[idx] for w in weights)

    everything = pick(np.arange(n))
    perm = rng.permutation(n)
    while np.array_equal(perm, np.arange(n)):
        perm = rng.permutation(n)
    keep = np.sort(rng.choice(n, n - max(1, n // 4), replace=False))
    m = n if rng.random() < 0.5 else max(4, n + int(rng.integers(-n // 3, n // 3 + 1)))  # another point set, half of the time of exactly the same size
    oe = rng.uniform(east.min(), east.max(), m)
    on = rng.uniform(north.min(), north.max(), m)
    scale_d = max(float(np.max(np.abs(d))) for d in data)
    other = ((oe, on), tuple(gen.smooth_field(rng, oe, on, scale_d) for _ in data), None if weights is None else tuple(10 ** rng.uniform(-3, 1, m) for _ in weights))
    histories = [("same_points_permuted", everything, pick(perm))]
    histories.append([("subset", everything, pick(keep)), ("superset", pick(keep), everything), ("other_points_same_size" if m == n else "other_points", other, everything)][int(rng.integers(0, 3))])
    for hname, first, second in histories:
        if model.kind == "neighbors" and model.params["k"] > min(first[0][0].size, second[0][0].size):
            run.count("skipped:refit_history_k_exceeds_the_number_of_points")  # k > n_data is not a configuration of the statement
            continue
        wit = dict(conf, variant="refit:" + hname, first_east=first[0][0], first_north=first[0][1], first_data=list(first[1]), second_east=second[0][0],
                   second_north=second[0][1], second_data=list(second[1]), query_east=qe, query_north=qn,
                   second_weights=None if second[2] is None else list(second[2]))

        def history():
            est = _fit(model, *first)
            if rng.random() < 0.7:
                _predict(est, (qe, qn))
            d = second[1] if model.ncomp > 1 else second[1][0]
            if second[2] is None:
                est.fit(second[0], d)
            else:
                est.fit(second[0], d, second[2] if model.ncomp > 1 else second[2][0])
            return _flat(_predict(est, (qe, qn)))

        def fresh():
            if model.refit_fresh is None:
                return _flat(_predict(_fit(model, *second), (qe, qn))), model
            est, ref_model = model.refit_fresh(first[0][0], first[0][1])
            d = second[1]
            if second[2] is None:
                est.fit(second[0], d)
            else:
                est.fit(second[0], d, second[2])
            return _flat(_predict(est, (qe, qn))), ref_model

        got = attempt("refit_history", hname, history, wit, "refit:" + hname)
        want = attempt("refit_history", hname + "(fresh)", fresh, wit, "refit-fresh:" + hname)
        if got is None or want is None:
            continue
        want, ref_model = want
        with np.errstate(all="ignore"):
            refm2 = reference(ref_model, second[0][0], second[0][1], second[1], second[2], qe, qn)
        rel2 = K_COND * refm2["kappa_eff"] * EPS
        informative2 = (refm2["skip"] is None and rel2 <= UNINFORMATIVE) or model.qhull or model.kind == "neighbors"
        run.evaluated("refit_history")
        run.count("refit_history:" + hname)
        run.count("refit_history:" + model.kind)
        worst = _compare_refit(run, "refit_history", group, "second fit on the same instance (%s) vs a fresh estimator on the second input" % hname, want, got,
                               64 * EPS * refm2["terms"], max(rel2 if np.isfinite(rel2) else 0.0, model.rtol) * refm2["scale"], informative2, wit, "refit:" + hname)
        run.observe_max("refit_error_over_tolerance", worst)
        if hname == "same_points_permuted" and model.kind != "cubic":
            if not ok_cond:
                run.count("skipped:uninformative_refit_vs_base")
            else:
                run.evaluated("refit_history")
                run.count("refit_history:same_points_permuted_vs_base")
                _compare(run, "refit_history", group, "refit with the same points in another order vs the base run", base, got,
                         tol_cond + 64 * EPS * max(float(np.nanmax(np.abs(b))) if np.any(~np.isnan(b)) else 0.0 for b in base) + 64 * EPS * scale_d, wit, "refit-base")
        if nontrivial:
            run.mark_nontrivial("refit", hname, conf, first[0][0], second[0][0], second[1])


def _aliased_tables(arrays, rng):
    """
    The same element sequences given as VIEWS OF ONE COMMON TABLE (argument aliasing): easting / northing (and data, weights) are columns or rows of one
    2-D array in every order and direction. Yields (name, containers); np.ravel of every container is the base sequence.
    """
    import pandas as pd

    east, north = arrays[0], arrays[1]
    rest = list(arrays[2:])
    n = east.size

    def with_rest(e, nn, rest_views=None):
        return (e, nn) + tuple(rest_views if rest_views is not None else [r.copy() for r in rest])

    t = np.column_stack([east, north])
    yield "table(n,2)", with_rest(t[:, 0], t[:, 1])
    t = np.column_stack([north, east])  # a northing-first file
    yield "table(n,2)_northing_first", with_rest(t[:, 1], t[:, 0])
    t = np.column_stack([north, east])
    nn, e = t.T
    yield "table(n,2).T_unpacked", with_rest(e, nn)
    t = np.vstack([east, north]) if rng.random() < 0.5 else np.vstack([north, east])[::-1]
    yield "table(2,n)_rows", with_rest(t[0], t[1])
    t = np.column_stack([east[::-1], north[::-1]])  # rows walked backwards give the base order again
    yield "table(n,2)_rows_backwards", with_rest(t[::-1, 0], t[::-1, 1])
    t = np.asfortranarray(np.column_stack([north, east]))
    yield "table(n,2)_fortran_northing_first", with_rest(t[:, 1], t[:, 0])
    # one wide table holding coordinates, data and weights (and junk columns) in a random column order
    ncols = 2 + len(rest) + int(rng.integers(1, 4))
    cols = rng.permutation(ncols)
    wide = rng.normal(size=(n, ncols)) * 1e3
    if rng.random() < 0.5:
        wide = np.asfortranarray(wide)
    for k, arr in enumerate(arrays):
        wide[:, cols[k]] = arr
    yield "wide_table_columns", tuple(wide[:, cols[k]] for k in range(len(arrays)))
    wide_t = np.ascontiguousarray(wide.T)  # series stored as rows, walked backwards for half of them
    yield "wide_table_rows", tuple(wide_t[cols[k]] for k in range(len(arrays)))
    back = wide[::-1].copy()
    yield "wide_table_rows_backwards", tuple(back[::-1, cols[k]] for k in range(len(arrays)))
    frame = pd.DataFrame(wide, index=rng.permutation(n) + 500, columns=["c%d" % k for k in range(ncols)])
    yield "dataframe_columns", tuple(frame["c%d" % cols[k]] for k in range(len(arrays)))


def _query_variants(rng, qe, qn):
    """(name, (easting, northing) containers, index of the base queries they hold in C order)."""
    size = qe.size
    everything = np.arange(size)
    out = []
    for rows in (2, 3, 4, 5):
        if size % rows == 0 and size // rows > 1:
            out.append(("2d", (qe.reshape(rows, -1), qn.reshape(rows, -1)), everything))
            out.append(("2d_fortran", (np.asfortranarray(qe.reshape(rows, -1)), np.asfortranarray(qn.reshape(rows, -1))), everything))
            break
    for a, b in ((2, 2), (2, 3), (3, 2)):
        if size % (a * b) == 0:
            out.append(("3d", (qe.reshape(a, b, -1), qn.reshape(a, b, -1)), everything))
            break
    big_e, big_n = np.full(size * 2, -777.0), np.full(size * 2, 555.0)
    big_e[::2], big_n[::2] = qe, qn
    out.append(("strided", (big_e[::2], big_n[::2]), everything))
    k = int(rng.integers(0, size))
    out.append(("0d", (np.float64(qe[k]), np.float64(qn[k])) if rng.random() < 0.5 else (np.array(qe[k]), np.array(qn[k])), np.array([k])))
    out.append(("single_row", (qe.reshape(1, -1), qn.reshape(1, -1)), everything))
    tq = np.column_stack([qn, qe]) if rng.random() < 0.5 else np.asfortranarray(np.column_stack([qn, qe]))
    out.append(("table_northing_first", (tq[:, 1], tq[:, 0]), everything))
    tb = np.column_stack([qe[::-1], qn[::-1]])
    out.append(("table_rows_backwards", (tb[::-1, 0], tb[::-1, 1]), everything))
    ro_e, ro_n = qe.copy(), qn.copy()
    ro_e.setflags(write=False)
    ro_n.setflags(write=False)
    out.append(("readonly", (ro_e, ro_n), everything))
    return out


def _linearity(run, rng, model, group, conf, east, north, data, weights, qe, qn, refm, informative, nontrivial, attempt, base, tol_layout, tol_cond):
    mag = _STATE.get("magnitude", 1.0)
    # d2 in the magnitude class of d1, or (30 %) in another one (tiny next to ordinary data)
    mag2 = float(rng.choice(MAGNITUDES)) if rng.random() < 0.3 else None
    d2 = tuple(gen.smooth_field(rng, east, north, (mag2 * 10 ** rng.uniform(-0.5, 0.5)) if mag2 else (float(np.max(np.abs(d))) or 1.0)) for d in data)
    m1, m2 = max(float(np.max(np.abs(d))) for d in data), max(float(np.max(np.abs(d))) for d in d2)
    if rng.random() < 0.5:  # all scalars: +-10^[-12, 12]
        a = float(rng.choice([-1, 1]) * 10 ** rng.uniform(-12, 12))
        b = float(rng.choice([-1, 1]) * 10 ** rng.uniform(-12, 12))
        scalar_class = "general"
    else:  # compensating scalars: a d1 and b d2 of ordinary, comparable size whatever the magnitude of d1 and d2 (and vice versa for huge data)
        a = float(rng.choice([-1, 1]) * rng.uniform(0.3, 3) / m1)
        b = float(rng.choice([-1, 1]) * 10 ** rng.uniform(-1.5, 0) / m2)
        scalar_class = "compensating"
    d3 = tuple(a * x + b * y for x, y in zip(data, d2))
    # buffer re-use only where verde itself owns the stored state (documented copies: KNeighbors.data_, spline force coordinates); Linear hands a view of
    # the caller's data to SciPy, which keeps it - outside this statement (reported, not judged here)
    reuse = rng.random() < 0.5 and model.kind in ("spline", "trend", "vector", "neighbors") and getattr(model, "owns_data", True)
    wit = dict(conf, east=east, north=north, d1=list(data), d2=list(d2), a=a, b=b, weights=None if weights is None else list(weights), query_east=qe, query_north=qn,
               variant="linearity" + ("(caller re-uses one data buffer)" if reuse else ""))

    def triple():
        if reuse:  # the caller fills the same buffers three times and scribbles over them afterwards; a fitted model must not alias them
            bufs = tuple(d.copy() for d in data)
            ce, cn = east.copy(), north.copy()
            cw = None if weights is None else tuple(w.copy() for w in weights)
            est1 = _fit(model, (ce, cn), bufs, cw)
            for buf, src in zip(bufs, d2):
                buf[:] = src
            est2 = _fit(model, (ce, cn), bufs, cw)
            for buf, src in zip(bufs, d3):
                buf[:] = src
            est3 = _fit(model, (ce, cn), bufs, cw)
            for buf in bufs + (ce, cn) + (cw or ()):
                buf[:] = np.nan
        else:
            est1, est2, est3 = (_fit(model, (east, north), d, weights) for d in (data, d2, d3))
        return tuple(_flat(_predict(e, (qe, qn))) for e in (est1, est2, est3))

    res = attempt("linearity", "triple", triple, wit, "linearity")
    if res is None:
        return
    p1, p2, p3 = res
    if reuse:  # est1 saw exactly the base inputs: its predictions must be the base predictions, whatever the caller did to its buffers later
        run.evaluated("fitted_model_owns_its_data")
        _compare_refit(run, "fitted_model_owns_its_data", group, "model fitted on d1, then the caller overwrote its coordinate / data / weight buffers", base, p1,
                       tol_layout, tol_cond, informative or model.qhull or model.kind == "neighbors", wit, "alias")
    if not informative and not model.qhull and model.kind != "neighbors":
        run.count("skipped:uninformative_linearity")
        return
    run.evaluated("linearity")
    run.count("linearity:" + model.kind)
    run.count("linearity:data_magnitude=%g" % mag)
    run.count("linearity:scalars=" + scalar_class)
    run.count("linearity:|a|=1e%+03d" % (3 * int(np.floor(np.log10(abs(a)) / 3))))
    if mag2:
        run.count("linearity:mixed_magnitudes")
    if reuse:
        run.count("linearity:buffer_reuse")
    rel = max(K_COND * refm["kappa_eff"] * EPS, model.rtol) + 64 * EPS
    combo = tuple(a * x + b * y for x, y in zip(p1, p2))
    def magnitude(preds, dats):
        # a least-squares solve is accurate normwise and relative to its data: all components of a stacked (vector) system share one scale,
        # and a prediction that is much smaller than the data (poor fit) does not make the solve more accurate
        finite = [float(np.nanmax(np.abs(x))) for x in preds if np.any(~np.isnan(x))]
        return max(finite + [float(np.max(np.abs(d))) for d in dats])

    tol = np.full((len(p1), qe.size), rel * (abs(a) * magnitude(p1, data) + abs(b) * magnitude(p2, d2)))
    worst = _compare(run, "linearity", group, "fit(a d1 + b d2) vs a fit(d1) + b fit(d2), a=%.3g b=%.3g" % (a, b), combo, p3, tol, wit, "linearity")
    run.observe_max("linearity_error_over_tolerance", worst)
    if nontrivial:
        run.mark_nontrivial("linearity", conf, east, north, data, d2, a, b)


INT_TYPES = ("int64", "int32")
MAGNITUDES = (1e-15, 1e-12, 1e-9, 1e-6, 1.0, 1e6, 1e12)  # data-magnitude classes (absolute tolerances such as numpy.allclose's 1e-8 must not matter)


def _dtype_class(run, rng, model, group, conf, integer_base, weights, attempt):
    ei, ni, di, (qei, qni) = integer_base
    wit0 = dict(conf, east=ei, north=ni, data=list(di), query_east=qei, query_north=qni, weights=None if weights is None else list(weights))
    try:
        est_f = _fit(model, (ei, ni), di, weights)
        base = _flat(_predict(est_f, (qei, qni)))
    except Exception as exc:  # noqa: BLE001
        if "qhull" in (type(exc).__name__ + str(exc)).lower():
            run.count("refused:qhull")
            return
        raise
    with np.errstate(all="ignore"):
        refm = reference(model, ei, ni, di, weights, qei, qni)
    rel = K_COND * refm["kappa_eff"] * EPS
    if refm["skip"] is not None or (rel > UNINFORMATIVE and not model.qhull and model.kind != "neighbors"):
        run.count("skipped:uninformative_dtype")
        return
    tol = (max(rel, model.rtol) + 64 * EPS) * refm["scale"]
    overflow = _overflow_scalars(model, ei, ni, qei, qni)
    for dt in INT_TYPES:
        variants = (
            ("coords_" + dt, lambda: _flat(_predict(_fit(model, (ei.astype(dt), ni.astype(dt)), di, weights), (qei, qni)))),
            ("data_" + dt, lambda: _flat(_predict(_fit(model, (ei, ni), tuple(d.astype(dt) for d in di), weights), (qei, qni)))),
            ("all_" + dt, lambda: _flat(_predict(_fit(model, (ei.astype(dt), ni.astype(dt)), tuple(d.astype(dt) for d in di), weights), (qei.astype(dt), qni.astype(dt))))),
            ("query_" + dt, lambda: _flat(_predict(est_f, (qei.astype(dt), qni.astype(dt))))),
        )
        for vname, fn in variants:
            wit = dict(wit0, variant="dtype:" + vname, integer_dtype=dt, **overflow)
            got = attempt("dtype_invariance", vname, fn, wit, "dtype:" + vname)
            if got is None:
                continue
            run.evaluated("dtype_invariance")
            run.count("dtype_invariance:" + vname)
            worst = _compare(run, "dtype_invariance", group, "integer-valued input passed as " + vname, base, got, tol, wit, "dtype:" + vname)
            run.observe_max("dtype_error_over_tolerance", worst)
            if ei.size >= 4:
                run.mark_nontrivial("dtype", vname, conf, ei, ni, di)


def _float_coords_int_data(run, rng, model, group, conf, east, north, data_int, weights, qe, qn, attempt):
    """General (non-integer) float coordinates with integer-valued data passed with an integer dtype."""
    wit0 = dict(conf, east=east, north=north, data=list(data_int), query_east=qe, query_north=qn, weights=None if weights is None else list(weights))
    base = _flat(_predict(_fit(model, (east, north), data_int, weights), (qe, qn)))
    with np.errstate(all="ignore"):
        refm = reference(model, east, north, data_int, weights, qe, qn)
    rel = K_COND * refm["kappa_eff"] * EPS
    if refm["skip"] is not None or (rel > UNINFORMATIVE and not model.qhull and model.kind != "neighbors"):
        run.count("skipped:uninformative_dtype")
        return
    tol = (max(rel, model.rtol) + 64 * EPS) * refm["scale"]
    for dt in INT_TYPES:
        vname = "float_coords_data_" + dt
        wit = dict(wit0, variant="dtype:" + vname, integer_dtype=dt)
        got = attempt("dtype_invariance", vname, lambda: _flat(_predict(_fit(model, (east, north), tuple(d.astype(dt) for d in data_int), weights), (qe, qn))), wit, "dtype:" + vname)
        if got is None:
            continue
        run.evaluated("dtype_invariance")
        run.count("dtype_invariance:" + vname)
        worst = _compare(run, "dtype_invariance", group, "integer-valued data passed as %s with general float coordinates" % dt, base, got, tol, wit, "dtype:" + vname)
        run.observe_max("dtype_error_over_tolerance", worst)
        if east.size >= 4:
            run.mark_nontrivial("dtype", vname, conf, east, north, data_int)


def _max_degree(model):
    if model.kind == "trend":
        return int(model.params["degree"])
    subs = model.params.get("steps") or model.params.get("components") or ()
    return max([_max_degree(m) for m in subs] + [0])


# ----------------------------------------------------------------------
# witness scalars for the integer-dtype class (what integer arithmetic in the coordinate dtype would have to represent)
# ----------------------------------------------------------------------
def _kinds(model):
    subs = model.params.get("steps") or model.params.get("components") or ()
    out = {model.kind}
    for m in subs:
        out |= _kinds(m)
    return out


def _overflow_scalars(model, east, north, qe, qn):
    """What integer arithmetic in the coordinate dtype would have to represent: largest monomial (Trend) and squared distance (spline family)."""
    kinds = _kinds(model)
    e = np.concatenate([np.abs(east), np.abs(qe)])
    n = np.concatenate([np.abs(north), np.abs(qn)])
    monomial = 0.0
    degree = _max_degree(model)
    if "trend" in kinds:
        monomial = float(max(np.max(e ** i * n ** j) for i, j in ref.trend_exponents(degree)))
    dist2 = 0.0
    if kinds & {"spline", "vector"}:
        ae, an = np.concatenate([east, qe]), np.concatenate([north, qn])
        fe, fn = east, north
        dist2 = float(np.max((ae[:, None] - fe[None, :]) ** 2 + (an[:, None] - fn[None, :]) ** 2))
    return {"max_monomial": monomial, "max_pair_distance_squared": dist2, "trend_degree": degree}


# ----------------------------------------------------------------------
# workloads
# ----------------------------------------------------------------------
def _magnitude(index):
    mag = MAGNITUDES[index % len(MAGNITUDES)]
    _STATE["magnitude"] = mag
    return mag


def _coord_scale(rng, lo, hi):
    """Coordinate extent: the documented range, or (30 %) the wider magnitude classes 1e-8 .. 1e12."""
    if rng.random() < 0.3:
        return float(10 ** rng.uniform(-8, 12))
    return gen.log_uniform(rng, lo, hi)


def _inputs(rng, n, ncomp, want_weights, scale=None, magnitude=1.0):
    east, north = gen.cloud(rng, n, scale=scale)
    data = tuple(gen.smooth_field(rng, east, north, magnitude * 10 ** rng.uniform(-0.5, 0.5)) for _ in range(ncomp))
    weights = tuple(10 ** rng.uniform(-3, 1, n) for _ in range(ncomp)) if want_weights else None
    return east, north, data, weights


def _queries(rng, east, north, q, inside=False, far=0):
    if inside:  # strictly inside the hull: convex combinations of three data points, well away from the edges
        tri = np.array([rng.choice(east.size, 3, replace=False) for _ in range(q)])
        wts = rng.dirichlet(np.ones(3) * 3, q)
        qe, qn = (east[tri] * wts).sum(axis=1), (north[tri] * wts).sum(axis=1)
        if far:
            qe = np.concatenate([qe, east.max() + np.ptp(east) * rng.uniform(1, 2, far)])
            qn = np.concatenate([qn, north.max() + np.ptp(north) * rng.uniform(1, 2, far)])
        return qe, qn
    return (rng.uniform(east.min() - 0.1 * np.ptp(east), east.max() + 0.1 * np.ptp(east), q),
            rng.uniform(north.min() - 0.1 * np.ptp(north), north.max() + 0.1 * np.ptp(north), q))


def _integer_inputs(rng, n, ncomp, radius=None, inside=False):
    """Distinct integer-valued points (float64), integer-valued data and integer-valued queries."""
    if radius is None:
        radius = int(rng.choice([40, 300, 2000, 30000]))
    radius = max(radius, 2 * int(np.ceil(np.sqrt(n))) + 2)
    offset = int(rng.choice([0, 0, radius, 20 * radius]))
    pts = set()
    while len(pts) < n:
        pts.add((int(rng.integers(-radius, radius + 1)), int(rng.integers(-radius, radius + 1))))
    pts = np.array(sorted(pts), dtype="float64")[rng.permutation(n)]
    ei, ni = pts[:, 0] + offset, pts[:, 1] - offset
    di = tuple(np.round(gen.smooth_field(rng, ei, ni, 1000.0)) for _ in range(ncomp))
    q = 12
    if inside:
        tri = np.array([rng.choice(n, 3, replace=False) for _ in range(q)])
        qe, qn = np.round(ei[tri].mean(axis=1)), np.round(ni[tri].mean(axis=1))
    else:
        qe = np.round(rng.uniform(ei.min(), ei.max(), q))
        qn = np.round(rng.uniform(ni.min(), ni.max(), q))
    fe, fn = _far_points(rng, ei, ni)  # integer-valued queries 2 and 100 diagonals outside the data as well
    qe, qn = np.concatenate([qe, np.round(fe[[0, 5]])]), np.concatenate([qn, np.round(fn[[0, 5]])])
    return ei, ni, di, (qe, qn)


def _drop_knn_ties(east, north, qe, qn, k):
    """Keep queries whose k-th and (k+1)-th nearest data points are clearly separated (no ties: general position)."""
    d = np.hypot(qe[:, None] - east[None, :], qn[:, None] - north[None, :])
    d.sort(axis=1)
    if k >= east.size:
        return qe, qn
    ok = (d[:, k] - d[:, k - 1]) > 1e-9 * d[:, k]
    return qe[ok], qn[ok]


def run_case(run, tap, stream, index, rng):
    import verde

    with warnings.catch_warnings():
        warnings.simplefilter("ignore")
        old = np.seterr(all="ignore")
        try:
            _STREAMS[stream](run, rng, verde, index)
        finally:
            np.seterr(**old)


def _spline_model(rng, verde, east, north, scale, force_separate=None, damping="random", label="Spline"):
    mindist = float(rng.choice([0.0, 0.0, 1e-3 * scale, 0.05 * scale]))
    if damping == "random":
        damping = None if rng.random() < 0.45 else float(10 ** rng.uniform(-8, 2))
    if force_separate is None:
        force_separate = rng.random() < 0.4
    force_coords = None
    if force_separate:
        m, force_class = _force_count(rng, east.size)
        force_coords = (rng.uniform(east.min(), east.max(), m), rng.uniform(north.min(), north.max(), m))
    kwargs = {"damping": damping, "force_coords": force_coords}
    if mindist:
        kwargs["mindist"] = mindist

    def make():
        with warnings.catch_warnings():
            warnings.simplefilter("ignore")
            return verde.Spline(**kwargs)

    return Model("spline", "%s(mindist=%g, damping=%s, forces=%s)" % (label, mindist, damping, "data" if force_coords is None else "separate[%d]" % force_coords[0].size),
                 make, linear=True, mindist=mindist, damping=damping, force_coords=force_coords, force_class=force_class if force_separate else "data")


def _force_count(rng, n):
    """Number of explicit forces: exactly the number of data points (a square, non-symmetric system), one less / more, twice as many, or anything."""
    cls = str(rng.choice(["m==n", "m==n", "m==n-1", "m==n+1", "m==2n", "other"]))
    m = {"m==n": n, "m==n-1": max(1, n - 1), "m==n+1": n + 1, "m==2n": 2 * n}.get(cls)
    if m is None:
        m = int(rng.integers(max(1, n // 4), n + 1))
        cls = "m==n" if m == n else "other"
    return m, cls


def _stream_spline(run, rng, verde, index):
    n = int(rng.integers(4, 130))
    scale = _coord_scale(rng, 1e-2, 1e6)
    want_w = rng.random() < 0.5
    east, north, data, weights = _inputs(rng, n, 1, want_w, scale=scale, magnitude=_magnitude(index))
    model = _spline_model(rng, verde, east, north, scale)
    qe, qn = _queries(rng, east, north, 12)
    ib, imodel = None, None
    if index % 2 == 0:
        ib = _integer_inputs(rng, n, 1)
        imodel = model
        if model.params["force_coords"] is not None:  # separate forces must live in the integer cloud (on half-integers: no coincident points)
            m = model.params["force_coords"][0].size
            imodel = _respline(verde, model, (np.round(rng.uniform(ib[0].min(), ib[0].max(), m)) + 0.5, np.round(rng.uniform(ib[1].min(), ib[1].max(), m)) + 0.5))
        elif model.params["mindist"]:
            imodel = _respline(verde, model, None, mindist=float(rng.choice([0.5, 2.0])))
    fid = tuple(np.round(d / (np.max(np.abs(d)) or 1.0) * 500.0) for d in data) if index % 3 == 0 else None
    run_group(run, rng, model, east, north, data, weights, qe, qn, integer_base=ib, float_int_data=fid, integer_model=imodel)
    if index % 3 == 1:
        damping_n = float(10 ** rng.uniform(-4, 0)) if rng.random() < 0.7 else None
        _narrow_integer_class(run, rng, "Spline(damping=%s)" % damping_n, lambda: verde.Spline(damping=damping_n), 1,
                              Model("spline", "Spline", None, mindist=0.0, damping=damping_n, force_coords=None))
    run.sample("spline", {"gridder": model.label, "n": n, "scale": scale, "weights": want_w,
                          "compared": "predictions of base vs permuted / re-laid-out / extra-coordinate / integer-typed / reshaped-query runs and linearity triples"})


def _respline(verde, model, force_coords, mindist=None):
    p = dict(model.params, force_coords=force_coords)
    if mindist is not None:
        p["mindist"] = mindist
    kwargs = {"damping": p["damping"], "force_coords": force_coords}
    if p["mindist"]:
        kwargs["mindist"] = p["mindist"]

    def make():
        with warnings.catch_warnings():
            warnings.simplefilter("ignore")
            return verde.Spline(**kwargs)

    return Model("spline", model.label + "[integer cloud]", make, linear=True, **p)


def _stream_trend(run, rng, verde, index):
    degree = index % 5
    nterms = (degree + 1) * (degree + 2) // 2
    n = int(rng.integers(max(4, nterms + 2), 150))
    want_w = rng.random() < 0.5
    east, north, data, weights = _inputs(rng, n, 1, want_w, scale=_coord_scale(rng, 1e-2, 1e6), magnitude=_magnitude(index))
    model = Model("trend", "Trend(%d)" % degree, lambda: verde.Trend(degree), linear=True, degree=degree)
    qe, qn = _queries(rng, east, north, 12)
    ib = _integer_inputs(rng, n, 1)
    fid = (np.round(data[0] / (np.max(np.abs(data[0])) or 1.0) * 500.0),)
    run_group(run, rng, model, east, north, data, weights, qe, qn, integer_base=ib, float_int_data=fid)
    run.sample("trend", {"gridder": model.label, "n": n, "weights": want_w, "integer_radius": float(np.max(np.abs(ib[0]))),
                         "compared": "base vs permuted / re-laid-out / integer-typed runs, reshaped queries, linearity"})


def _stream_vector(run, rng, verde, index):
    n = int(rng.integers(4, 70))
    scale = _coord_scale(rng, 1e-2, 1e6)
    want_w = rng.random() < 0.5
    east, north, data, weights = _inputs(rng, n, 2, want_w, scale=scale, magnitude=_magnitude(index))
    poisson = float(rng.choice([-1.0, 0.5, 1.0, rng.uniform(-1, 1)]))
    mindist = float(rng.choice([0.02, 0.1, 0.5]) * scale)
    damping = None if rng.random() < 0.4 else float(10 ** rng.uniform(-8, 2))
    force_coords, force_class = None, "data"
    if rng.random() < 0.4:
        m, force_class = _force_count(rng, n)
        force_coords = (rng.uniform(east.min(), east.max(), m), rng.uniform(north.min(), north.max(), m))
    fc = force_coords

    def make():
        return verde.VectorSpline2D(poisson=poisson, mindist=mindist, damping=damping, force_coords=None if fc is None else (fc[0].copy(), fc[1].copy()))

    model = Model("vector", "VectorSpline2D(poisson=%g, mindist=%g, damping=%s, forces=%s)" % (poisson, mindist, damping, "data" if fc is None else "separate[%d]" % fc[0].size),
                  make, ncomp=2, linear=True, poisson=poisson, mindist=mindist, damping=damping, force_coords=force_coords, force_class=force_class)
    if force_coords is None:  # documented: the force locations are set by the FIRST fit and kept by later fits of the same instance

        def refit_fresh(first_east, first_north):
            held = (np.array(first_east, dtype="float64"), np.array(first_north, dtype="float64"))
            est = verde.VectorSpline2D(poisson=poisson, mindist=mindist, damping=damping, force_coords=(held[0].copy(), held[1].copy()))
            return est, Model("vector", model.label + "[forces of the first fit]", None, ncomp=2, poisson=poisson, mindist=mindist, damping=damping, force_coords=held)

        model.refit_fresh = refit_fresh
    qe, qn = _queries(rng, east, north, 12)
    ib, imodel = None, None
    if force_coords is None and index % 2 == 0:
        ib = _integer_inputs(rng, n, 2, radius=int(rng.choice([40, 300, 2000])))
        md = float(rng.choice([1.0, 5.0]))  # a mindist that suits the integer cloud
        imodel = Model("vector", "VectorSpline2D(poisson=%g, mindist=%g, damping=%s)[integer cloud]" % (poisson, md, damping),
                       lambda: verde.VectorSpline2D(poisson=poisson, mindist=md, damping=damping), ncomp=2, linear=True, poisson=poisson, mindist=md, damping=damping,
                       force_coords=None)
    fid = tuple(np.round(d / (np.max(np.abs(d)) or 1.0) * 500.0) for d in data) if index % 3 == 0 else None
    run_group(run, rng, model, east, north, data, weights, qe, qn, integer_base=ib, float_int_data=fid, integer_model=imodel)
    if index % 3 == 1:
        nu, md, dp = float(rng.uniform(-1, 1)), float(rng.choice([2.0, 10.0])), float(10 ** rng.uniform(-4, 0))
        _narrow_integer_class(run, rng, "VectorSpline2D(poisson=%g, mindist=%g, damping=%g)" % (nu, md, dp), lambda: verde.VectorSpline2D(poisson=nu, mindist=md, damping=dp), 2,
                              Model("vector", "VectorSpline2D", None, ncomp=2, poisson=nu, mindist=md, damping=dp, force_coords=None))
    run.sample("vector", {"gridder": model.label, "n": n, "weights": want_w, "compared": "both components of base vs variant runs; weights differ per component"})


def _stream_neighbors(run, rng, verde, index):
    n = int(rng.integers(6, 150))
    east, north, data, _ = _inputs(rng, n, 1, False, scale=_coord_scale(rng, 1e-2, 1e6), magnitude=_magnitude(index))
    k = int([1, 1, 2, 3, 5, n, n - 1][index % 7])  # up to all data points
    use_median = index % 11 == 10 and 3 <= k <= 5
    kwargs = {"k": k}
    if use_median:
        kwargs["reduction"] = np.median
    model = Model("neighbors", "KNeighbors(k=%d%s)" % (k, ", median" if use_median else ""), lambda: verde.KNeighbors(**kwargs), linear=not use_median, weights_ok=False, k=k)
    qe, qn = _queries(rng, east, north, 16)
    qe, qn = _drop_knn_ties(east, north, qe, qn, k)
    if qe.size < 4:
        run.count("skipped:knn_ties")
        return
    if qe.size % 2:
        qe, qn = qe[:-1], qn[:-1]
    ib = None  # integer lattices have distance ties: the dtype class uses the same order of points, so ties break identically
    if index % 2 == 0:
        ib = _integer_inputs(rng, n, 1)
    run_group(run, rng, model, east, north, data, None, qe, qn, integer_base=ib,
              float_int_data=(np.round(data[0] / (np.max(np.abs(data[0])) or 1.0) * 500.0),) if index % 3 == 0 else None)
    run.sample("neighbors", {"gridder": model.label, "n": n, "compared": "base vs variant predictions; queries with near-tied neighbours dropped"})


def _stream_scipy(run, rng, verde, index):
    n = int(rng.integers(5, 120))
    east, north = gen.cloud(rng, n, kind=str(rng.choice(["uniform", "jitter", "clusters"])), scale=_coord_scale(rng, 1e-2, 1e6))
    data = (gen.smooth_field(rng, east, north, _magnitude(index) * 10 ** rng.uniform(-0.5, 0.5)),)
    rescale = bool(index % 4 in (1, 2))
    linear = (index // 2) % 2 == 0
    cls = verde.Linear if linear else verde.Cubic
    model = Model("linear" if linear else "cubic", "%s(rescale=%s)" % (cls.__name__, rescale), lambda: cls(rescale=rescale), linear=linear, weights_ok=False, qhull=True,
                  rescale=rescale)
    nearest = False
    if index % 5 == 4:  # the deprecated generic wrapper around the same SciPy classes: linear, cubic and nearest
        method = ("linear" if linear else "cubic", "nearest")[(index // 5) % 2]
        nearest = method == "nearest"
        if nearest:
            model = Model("neighbors", "ScipyGridder(nearest)", lambda: verde.ScipyGridder(method="nearest"), linear=True, weights_ok=False, k=1)
            model.owns_data = False  # SciPy keeps the view of the caller's data it is given (reported; outside this statement)
        else:
            model = Model(method, "ScipyGridder(%s, rescale=%s)" % (method, rescale), lambda: verde.ScipyGridder(method=method, extra_args={"rescale": rescale}),
                          linear=linear, weights_ok=False, qhull=True, rescale=rescale)
        run.count("groups:ScipyGridder:" + method)
    qe, qn = _queries(rng, east, north, 12, inside=True, far=2)
    if nearest:
        qe, qn = _drop_knn_ties(east, north, qe[:12], qn[:12], 1)
        qe, qn = qe[: qe.size - qe.size % 2], qn[: qn.size - qn.size % 2]
        if qe.size < 4:
            run.count("skipped:knn_ties")
            return
    ib = _integer_inputs(rng, min(n, 60), 1, inside=True) if index % 2 == 0 else None
    run_group(run, rng, model, east, north, data, None, qe, qn, integer_base=ib,
              float_int_data=(np.round(data[0] / (np.max(np.abs(data[0])) or 1.0) * 500.0),) if index % 3 == 0 else None)
    run.sample("scipy", {"gridder": model.label, "n": n, "compared": "values and NaN pattern of base vs variant predictions (queries inside the hull or far outside)"})


def _stream_composite(run, rng, verde, index):
    n = int(rng.integers(8, 100))
    scale = _coord_scale(rng, 1e-1, 1e5)
    want_w = rng.random() < 0.5
    mag = _magnitude(index // 2)
    if index % 2 == 0:
        east, north, data, weights = _inputs(rng, n, 1, want_w, scale=scale, magnitude=mag)
        degree = int(rng.integers(0, 3))
        trend = Model("trend", "Trend(%d)" % degree, None, degree=degree)
        spline = _spline_model(rng, verde, east, north, scale, force_separate=False)
        model = Model("chain", "Chain[Trend(%d), %s]" % (degree, spline.label),
                      lambda: verde.Chain([("trend", verde.Trend(degree)), ("spline", spline.make())]), steps=(trend, spline))
    else:
        east, north, data, weights = _inputs(rng, n, 2, want_w, scale=scale, magnitude=mag)
        degree = int(rng.integers(0, 4))
        trend = Model("trend", "Trend(%d)" % degree, None, degree=degree)
        spline = _spline_model(rng, verde, east, north, scale, force_separate=False)
        if weights is None and index % 4 == 3:
            knn = Model("neighbors", "KNeighbors(k=1)", None, k=1)
            model = Model("vector_of", "Vector[%s, KNeighbors(1)]" % spline.label, lambda: verde.Vector([spline.make(), verde.KNeighbors()]), ncomp=2, components=(spline, knn))
        else:
            model = Model("vector_of", "Vector[Trend(%d), %s]" % (degree, spline.label), lambda: verde.Vector([verde.Trend(degree), spline.make()]), ncomp=2,
                          components=(trend, spline))
            if index % 4 == 1:  # the same two-component model as the only step of a Chain
                model = Model("vector_of", "Chain[Vector[Trend(%d), %s]]" % (degree, spline.label),
                              lambda: verde.Chain([("vector", verde.Vector([verde.Trend(degree), spline.make()]))]), ncomp=2, components=(trend, spline))
                run.count("groups:Chain_of_Vector")
    qe, qn = _queries(rng, east, north, 12)
    ib = _integer_inputs(rng, n, model.ncomp, radius=int(rng.choice([40, 300, 2000]))) if index % 2 == 0 or weights is None else None
    run_group(run, rng, model, east, north, data, weights, qe, qn, integer_base=ib)
    run.sample("composite", {"gridder": model.label, "n": n, "weights": want_w, "compared": "base vs variant predictions through Chain / Vector (nested fit / predict calls are monitored too)"})


def _stream_forces(run, rng, verde, index):
    """Explicit force coordinates that are NOT the data points, with size coincidences: exactly / one less / one more / twice as many forces as data."""
    n = int(rng.integers(5, 45))
    scale = gen.log_uniform(rng, 1e-1, 1e5)
    want_w = rng.random() < 0.5
    vector = index % 3 == 2
    east, north, data, weights = _inputs(rng, n, 2 if vector else 1, want_w, scale=scale, magnitude=_magnitude(index))
    cls = ("m==n", "m==n", "m==n-1", "m==n+1", "m==2n")[index % 5]
    m = {"m==n": n, "m==n-1": n - 1, "m==n+1": n + 1, "m==2n": 2 * n}[cls]
    fc = (rng.uniform(east.min(), east.max(), m), rng.uniform(north.min(), north.max(), m))
    damping = None if (rng.random() < 0.5 and m <= n) else float(10 ** rng.uniform(-6, 1))
    if vector:
        poisson = float(rng.choice([-1.0, 0.0, 0.5, 1.0]))
        mindist = float(rng.choice([0.05, 0.3]) * scale)
        model = Model("vector", "VectorSpline2D(poisson=%g, mindist=%g, damping=%s, forces=separate[%d of %d])" % (poisson, mindist, damping, m, n),
                      lambda: verde.VectorSpline2D(poisson=poisson, mindist=mindist, damping=damping, force_coords=(fc[0].copy(), fc[1].copy())),
                      ncomp=2, linear=True, poisson=poisson, mindist=mindist, damping=damping, force_coords=fc, force_class=cls)
    else:
        mindist = float(rng.choice([0.0, 0.0, 1e-2 * scale]))
        kwargs = {"damping": damping, "force_coords": fc}
        if mindist:
            kwargs["mindist"] = mindist
        model = Model("spline", "Spline(mindist=%g, damping=%s, forces=separate[%d of %d])" % (mindist, damping, m, n), lambda: verde.Spline(**kwargs),
                      linear=True, mindist=mindist, damping=damping, force_coords=fc, force_class=cls)
    run.count("forces:%s:%s" % ("VectorSpline2D" if vector else "Spline", cls))
    qe, qn = _queries(rng, east, north, 12)
    run_group(run, rng, model, east, north, data, weights, qe, qn)
    run.sample("forces", {"gridder": model.label, "n_data": n, "n_forces": m, "compared": "base vs reference least squares on the reference Jacobian, point orders, refits, layouts"})


def _spell(value):
    """Equivalent spellings of a boolean or integer-valued option value."""
    if isinstance(value, bool):
        return [("numpy.bool_", np.bool_(value)), ("comparison", np.float64(1.0) > (0.0 if value else 2.0)), ("int", int(value)), ("0-d array", np.array(value)),
                ("numpy.int64", np.int64(int(value)))]
    v = int(value)
    return [("int", v), ("numpy.int64", np.int64(v)), ("numpy.int32", np.int32(v)), ("numpy.float64", np.float64(v)), ("numpy.float32", np.float32(v))]


def _stream_spelling(run, rng, verde, index):
    """One configuration, its option values spelled differently (numpy scalars, ints for floats, 0-d arrays; keyword / positional / set_params)."""
    kind = index % 6
    n = int(rng.integers(8, 60))
    scale = float(rng.choice([5.0, 50.0, 500.0]))
    want_w = rng.random() < 0.4 and kind in (0, 1, 3)
    east, north, data, weights = _inputs(rng, n, 2 if kind == 1 else 1, want_w, scale=scale, magnitude=_magnitude(index))
    qe, qn = _queries(rng, east, north, 12)
    variants = []  # (label, factory)
    if kind == 0:
        mindist, damping = float(rng.choice([0, 1, 2])), float(rng.choice([1, 3, 10]))
        model = Model("spline", "Spline(mindist=%g, damping=%g)" % (mindist, damping), lambda: verde.Spline(mindist=mindist, damping=damping), linear=True, mindist=mindist,
                      damping=damping, force_coords=None)
        for (la, md), (lb, dp) in zip(_spell(mindist), _spell(damping)[::-1]):
            variants.append(("mindist=%s,damping=%s" % (la, lb), lambda md=md, dp=dp: verde.Spline(mindist=md, damping=dp)))
            variants.append(("set_params(mindist=%s,damping=%s)" % (la, lb), lambda md=md, dp=dp: verde.Spline().set_params(mindist=md, damping=dp)))
    elif kind == 1:
        poisson, mindist, damping = float(rng.choice([-1, 0, 1])), float(rng.choice([1, 3])) * scale / 5, float(rng.choice([1, 10]))
        model = Model("vector", "VectorSpline2D(poisson=%g, mindist=%g, damping=%g)" % (poisson, mindist, damping),
                      lambda: verde.VectorSpline2D(poisson=poisson, mindist=mindist, damping=damping), ncomp=2, linear=True, poisson=poisson, mindist=mindist, damping=damping,
                      force_coords=None)
        for (la, nu), (lb, md), (lc, dp) in zip(_spell(poisson), _spell(mindist)[::-1], _spell(damping)):
            variants.append(("poisson=%s,mindist=%s,damping=%s" % (la, lb, lc), lambda nu=nu, md=md, dp=dp: verde.VectorSpline2D(nu, md, dp)))
            variants.append(("set_params(poisson=%s)" % la, lambda nu=nu: verde.VectorSpline2D(mindist=mindist, damping=damping).set_params(poisson=nu)))
    elif kind == 2:
        k = int(rng.choice([1, 2, 3, 5]))
        model = Model("neighbors", "KNeighbors(k=%d)" % k, lambda: verde.KNeighbors(k=k), linear=True, k=k)
        qe, qn = _drop_knn_ties(east, north, qe, qn, k)
        if qe.size < 2:
            run.count("skipped:knn_ties")
            return
        for label, kk in [("numpy.int64", np.int64(k)), ("numpy.int32", np.int32(k)), ("numpy.intp", np.intp(k)), ("numpy.uint8", np.uint8(k))]:
            variants.append(("k=" + label, lambda kk=kk: verde.KNeighbors(k=kk)))
            variants.append(("positional k=" + label, lambda kk=kk: verde.KNeighbors(kk)))
            variants.append(("set_params(k=%s)" % label, lambda kk=kk: verde.KNeighbors().set_params(k=kk)))
        if k == 1:  # the documented defaults: k=1, reduction=numpy.mean
            variants.append(("no arguments (documented defaults)", lambda: verde.KNeighbors()))
        variants.append(("reduction left out (documented default numpy.mean)", lambda: verde.KNeighbors(k=k)))
        model = Model("neighbors", "KNeighbors(k=%d, reduction=np.mean)" % k, lambda: verde.KNeighbors(k=k, reduction=np.mean), linear=True, k=k)
    elif kind == 3:
        degree = int(rng.integers(0, 4))
        model = Model("trend", "Trend(%d)" % degree, lambda: verde.Trend(degree), linear=True, degree=degree)
        for label, dg in [("numpy.int64", np.int64(degree)), ("numpy.int32", np.int32(degree)), ("numpy.uint8", np.uint8(degree)), ("0-d int array", np.array(degree))]:
            variants.append(("degree=" + label, lambda dg=dg: verde.Trend(degree=dg)))
            variants.append(("positional degree=" + label, lambda dg=dg: verde.Trend(dg)))
            variants.append(("set_params(degree=%s)" % label, lambda dg=dg: verde.Trend((degree + 1) % 4).set_params(degree=dg)))
    else:
        north = north * float(10 ** rng.uniform(2, 4))  # anisotropic: the rescale flag matters
        data = tuple(gen.smooth_field(rng, east, north, float(np.max(np.abs(d)))) for d in data)
        tri = np.array([rng.choice(n, 3, replace=False) for _ in range(12)])
        wts = rng.dirichlet(np.ones(3) * 3, 12)
        qe, qn = (east[tri] * wts).sum(axis=1), (north[tri] * wts).sum(axis=1)
        cls = verde.Linear if kind == 4 else verde.Cubic
        flag = bool((index // 6) % 3 != 2)
        model = Model("linear" if kind == 4 else "cubic", "%s(rescale=%s)" % (cls.__name__, flag), lambda: cls(rescale=flag), linear=kind == 4, qhull=True, rescale=flag)
        for label, value in _spell(flag):
            variants.append(("rescale=" + label, lambda value=value: cls(rescale=value)))
            variants.append(("positional rescale=" + label, lambda value=value: cls(value)))
            variants.append(("set_params(rescale=%s)" % label, lambda value=value: cls(rescale=not flag).set_params(rescale=value)))
        if not flag:  # the documented default: rescale=False
            variants.append(("no arguments (documented defaults)", lambda: cls()))
    conf = {"gridder": model.label, "params": {k: v for k, v in model.params.items() if k != "force_coords"}}
    wit0 = dict(conf, east=east, north=north, data=list(data), weights=None if weights is None else list(weights), query_east=qe, query_north=qn)
    try:
        base = _flat(_predict(_fit(model, (east, north), data, weights), (qe, qn)))
    except Exception as exc:  # noqa: BLE001
        if "qhull" in (type(exc).__name__ + str(exc)).lower():
            run.count("refused:qhull")
            return
        raise
    with np.errstate(all="ignore"):
        refm = reference(model, east, north, data, weights, qe, qn)
    rel = K_COND * refm["kappa_eff"] * EPS
    informative = (refm["skip"] is None and rel <= UNINFORMATIVE) or model.qhull or model.kind == "neighbors"
    tol_cond = max(rel if np.isfinite(rel) else 0.0, model.rtol) * refm["scale"]
    run.count("groups:spelling:" + model.kind)
    for label, factory in variants:
        wit = dict(wit0, variant="spelling:" + label)
        spelled = Model(model.kind, model.label + " spelled " + label, factory, ncomp=model.ncomp)
        try:
            got = _flat(_predict(_fit(spelled, (east, north), data, weights), (qe, qn)))
        except Exception as exc:  # noqa: BLE001
            run.evaluated("option_spelling")
            run.violation("option_spelling", "%s with %s raised %s: %s (the plain spelling of the same values works)" % (model.label, label, type(exc).__name__, str(exc)[:300]),
                          dict(wit, exception=type(exc).__name__), key="spelling:raised:" + model.kind)
            continue
        run.evaluated("option_spelling")
        run.count("option_spelling:" + model.kind)
        if "documented default" in label:
            run.count("option_spelling:documented_defaults")
        run.count("option_spelling:" + ("set_params" if label.startswith("set_params") else "positional" if label.startswith("positional") or model.kind == "vector" else "keyword"))
        worst = _compare_refit(run, "option_spelling", model.label, "options spelled as " + label, base, got, 64 * EPS * refm["terms"], tol_cond, informative, wit,
                               "spelling:" + model.kind)
        run.observe_max("option_spelling_error_over_tolerance", worst)
        if east.size >= 4:
            run.mark_nontrivial("spelling", conf, label, east, north, data)
    run.sample("spelling", {"gridder": model.label, "spellings": [v[0] for v in variants], "compared": "predictions with option values spelled differently against the plain spelling"})


def _far_points(rng, east, north):
    """Query points 2, 10 and 100 bounding-box diagonals outside the data region (two directions each)."""
    ce, cn = 0.5 * (east.min() + east.max()), 0.5 * (north.min() + north.max())
    diag = float(np.hypot(np.ptp(east), np.ptp(north))) or 1.0
    fe, fn = [], []
    for factor in (2.0, 10.0, 100.0):
        for _ in range(2):
            ang = rng.uniform(0, 2 * np.pi)
            fe.append(ce + (0.5 + factor) * diag * np.cos(ang))
            fn.append(cn + (0.5 + factor) * diag * np.sin(ang))
    return np.array(fe), np.array(fn)


def _far_extrapolation(run, rng, model, group, conf, east, north, data, weights, est0, attempt, nontrivial):
    """Invariance far outside the data region: point order (with a different LAST data point), layout; KNeighbors against brute force."""
    n = east.size
    if n < 4:
        return
    fe, fn = _far_points(rng, east, north)
    if model.kind == "neighbors":
        fe, fn = _drop_knn_ties(east, north, fe, fn, model.params["k"])
        if fe.size == 0:
            run.count("skipped:knn_ties")
            return
    wit0 = dict(conf, east=east, north=north, data=list(data), weights=None if weights is None else list(weights), query_east=fe, query_north=fn, variant="far_extrapolation")
    base = attempt("far_extrapolation", "base", lambda: _flat(_predict(est0, (fe, fn))), wit0, "far")
    if base is None:
        return
    with np.errstate(all="ignore"):
        refm = reference(model, east, north, data, weights, fe, fn)
    rel = K_COND * refm["kappa_eff"] * EPS
    informative = (refm["skip"] is None and rel <= UNINFORMATIVE) or model.qhull or model.kind == "neighbors"
    tol_strict = 64 * EPS * refm["terms"]
    tol_cond = max(rel if np.isfinite(rel) else 0.0, model.rtol) * refm["scale"]
    # another order of the same points whose LAST point differs
    perm = rng.permutation(n)
    while perm[-1] == n - 1 or np.array_equal(perm, np.arange(n)):
        perm = rng.permutation(n)
    pdata = tuple(d[perm] for d in data)
    pweights = None if weights is None else tuple(w[perm] for w in weights)
    wit = dict(wit0, variant="far_extrapolation:permutation", permutation=perm)
    got = attempt("far_extrapolation", "perm", lambda: _flat(_predict(_fit(model, (east[perm], north[perm]), pdata, pweights), (fe, fn))), wit, "far-perm")
    if got is not None:
        if not informative:
            run.count("skipped:uninformative_far_extrapolation")
        else:
            run.evaluated("far_extrapolation")
            run.count("far_extrapolation:permutation:" + model.kind)
            worst = _compare(run, "far_extrapolation", group, "points permuted (another last point), queries 2-100 diagonals outside the data", base, got,
                             tol_cond + tol_strict, wit, "far-perm")
            run.observe_max("far_permutation_error_over_tolerance", worst)
    # one re-laid-out container
    lname, conts = list(gen.layouts((east, north) + tuple(data) + (tuple(weights) if weights is not None else ()), rng,
                                    include=(("reversed_view", "strided", "series", "readonly")[int(rng.integers(0, 4))],)))[0]
    cd = tuple(conts[2:2 + model.ncomp])
    cw = None if weights is None else tuple(conts[2 + model.ncomp:])
    wit = dict(wit0, variant="far_extrapolation:" + lname)
    got = attempt("far_extrapolation", lname, lambda: _flat(_predict(_fit(model, (conts[0], conts[1]), cd, cw), (fe, fn))), wit, "far-layout")
    if got is not None:
        run.evaluated("far_extrapolation")
        run.count("far_extrapolation:layout:" + model.kind)
        _compare_refit(run, "far_extrapolation", group, lname + " containers, queries far outside the data", base, got, tol_strict, tol_cond, informative, wit, "far-layout")
    # KNeighbors with the mean: brute-force k nearest
    if model.kind == "neighbors" and model.linear:
        k = min(model.params["k"], n)
        dist = np.hypot(fe[:, None] - east[None, :], fn[:, None] - north[None, :])
        nearest = np.argsort(dist, axis=1, kind="stable")[:, :k]
        want = (data[0][nearest].mean(axis=1),)
        run.evaluated("far_extrapolation")
        run.count("far_extrapolation:knn_brute_force")
        run.count("far_extrapolation:knn_k=%s" % ("n" if k == n else "n-1" if k == n - 1 else "small"))
        _compare(run, "far_extrapolation", group, "mean of the brute-force %d nearest data points, queries far outside the data" % k, want, base,
                 64 * EPS * float(np.max(np.abs(data[0]))), wit0, "far-knn")
    if nontrivial:
        run.mark_nontrivial("far", conf, east, north, data, fe, fn)


def _stream_large(run, rng, verde, index):
    """n_query x n_forces > 1e7 in ONE predict call, n_forces not a multiple of small block lengths."""
    n = int([1501, 1507, 1513, 1499][index % 4])
    nq = int([7001, 20011][index % 2]) if run.tier == "thorough" else 7001
    scale = gen.log_uniform(rng, 1e1, 1e5)
    east, north = gen.cloud(rng, n, kind=str(rng.choice(["uniform", "jitter"])), scale=scale, offset_factor=0.0)
    data = (gen.smooth_field(rng, east, north, _magnitude(4)),)
    damping = float(10 ** rng.uniform(-3, 0))
    model = Model("spline", "Spline(damping=%g)[%d data, %d queries in one call]" % (damping, n, nq), lambda: verde.Spline(damping=damping), linear=True, mindist=0.0, damping=damping,
                  force_coords=None)
    qe, qn = rng.uniform(east.min(), east.max(), nq), rng.uniform(north.min(), north.max(), nq)
    conf = {"gridder": model.label, "n_data": n, "n_queries": nq}
    est = _fit(model, (east, north), data, None)
    whole = _flat(_predict(est, (qe, qn)))
    sub = rng.choice(nq, 48, replace=False)
    sub[0], sub[1] = nq - 1, nq - 2  # the tail of the call is where a dropped remainder shows
    with np.errstate(all="ignore"):
        refm = reference(model, east, north, data, None, qe[sub], qn[sub])
    terms_scale = 4.0 * float(np.max(refm["terms"]))
    rel = K_COND * refm["kappa_eff"] * EPS
    run.count("large:n_forces=%d" % n)
    run.count("large:n_queries=%d" % nq)
    # the sub-sample against the reference model
    if refm["skip"] is None and rel <= UNINFORMATIVE:
        run.evaluated("large_call")
        run.count("large:reference_subsample")
        _compare(run, "large_call", model.label, "sub-sample (incl. the last points) of one large predict call vs reference least squares", tuple(refm["pred"]), (whole[0][sub],),
                 rel * refm["scale"] + 64 * EPS * refm["terms"] + refm["kernel_slack"], dict(conf, query_index=sub), "large-reference")
    # the same points in slices of 500
    pieces = np.concatenate([_flat(_predict(est, (qe[a:a + 500], qn[a:a + 500])))[0] for a in range(0, nq, 500)])
    run.evaluated("large_call")
    run.count("large:slices_of_500")
    run.count("large:bit_identical_to_slices" if np.array_equal(pieces, whole[0]) else "large:slices_differ_within_round_off")
    _compare(run, "large_call", model.label, "all %d points in one call vs slices of 500" % nq, (pieces,), whole, 64 * EPS * terms_scale, conf, "large-slices")
    # another order of the data points
    perm = rng.permutation(n)
    got = _flat(_predict(_fit(model, (east[perm], north[perm]), (data[0][perm],), None), (qe, qn)))
    if refm["skip"] is None and rel <= UNINFORMATIVE:
        run.evaluated("large_call")
        run.count("large:permutation")
        worst = _compare(run, "large_call", model.label, "data points permuted, %d x %d kernel evaluations in one call" % (nq, n), whole, got,
                         rel * max(refm["scale"], float(np.max(np.abs(whole[0])))) + 64 * EPS * terms_scale, dict(conf, permutation=perm), "large-perm")
        run.observe_max("large_permutation_error_over_tolerance", worst)
    else:
        run.count("skipped:uninformative_large")
    run.mark_nontrivial("large", conf, east, north, data)
    run.sample("large", {"gridder": model.label, "compared": "one predict call with n_query x n_forces > 1e7 vs slices of 500, vs a permuted fit and (sub-sample) vs the reference model"})


NARROW_INT_TYPES = ("int16", "uint16", "int8", "uint8")


def _narrow_integer_class(run, rng, label, make, ncomp, kappa_model, n=None):
    """
    Integer-valued coordinates (data and query points) given as int16 / uint16 / int8 / uint8: predictions equal the float64 run to solver
    round-off and come back as float64. make() builds a fresh estimator; kappa_model is the Model the reference needs.
    """
    n = int(rng.integers(12, 50)) if n is None else n
    side = 121  # 0..120 fits every narrow type, signed and unsigned
    pts = rng.permutation(side * side)[:n]
    ei, ni = (pts % side).astype("float64"), (pts // side).astype("float64")
    data = tuple(gen.smooth_field(rng, ei, ni, 1.0) for _ in range(ncomp))
    qe, qn = rng.integers(0, side, 10).astype("float64"), rng.integers(0, side, 10).astype("float64")

    def fit_predict(coords, query):
        est = make()
        est.fit(coords, data if ncomp > 1 else data[0])
        est.predict(query)
        return tuple(np.asarray(c) for c in _as_tuple(_STATE["last_predict"].result)), est

    base, est_f = fit_predict((ei, ni), (qe, qn))
    base = tuple(np.asarray(b, dtype="float64").ravel() for b in base)
    with np.errstate(all="ignore"):
        refm = reference(kappa_model, ei, ni, data, None, qe, qn)
    rel = K_COND * refm["kappa_eff"] * EPS
    if refm["skip"] is not None or rel > UNINFORMATIVE:
        run.count("skipped:uninformative_dtype")
        return
    tol = (rel + 64 * EPS) * refm["scale"]
    conf = {"gridder": label}
    for dt in NARROW_INT_TYPES:
        for vname, coords, query in (("coords+query_" + dt, (ei.astype(dt), ni.astype(dt)), (qe.astype(dt), qn.astype(dt))),
                                     ("query_" + dt, None, (qe.astype(dt), qn.astype(dt)))):
            wit = dict(conf, variant="dtype:narrow:" + vname, integer_dtype=dt, east=ei, north=ni, data=list(data), query_east=qe, query_north=qn)
            try:
                if coords is None:
                    est_f.predict(query)
                    got = tuple(np.asarray(c) for c in _as_tuple(_STATE["last_predict"].result))
                else:
                    got, _ = fit_predict(coords, query)
            except Exception as exc:  # noqa: BLE001
                run.evaluated("dtype_invariance")
                run.violation("dtype_invariance", "%s / %s: raised %s: %s (the float64 run on the same integer values succeeded)" % (label, vname, type(exc).__name__, str(exc)[:200]),
                              dict(wit, exception=type(exc).__name__), key="dtype:narrow:raised")
                continue
            run.evaluated("dtype_invariance")
            run.count("dtype_invariance:narrow:" + dt)
            run.count("dtype_invariance:narrow:" + label.split("(")[0])
            if any(g.dtype != np.dtype("float64") for g in got):
                run.violation("dtype_invariance", "%s / %s: the prediction has dtype %s, not float64" % (label, vname, [str(g.dtype) for g in got]), wit, key="dtype:narrow:result-dtype")
                continue
            worst = _compare(run, "dtype_invariance", label, "integer-valued coordinates as " + vname, base, tuple(np.asarray(g, dtype="float64").ravel() for g in got), tol, wit,
                             "dtype:narrow:" + label.split("(")[0])
            run.observe_max("dtype_error_over_tolerance", worst)
            run.mark_nontrivial("dtype-narrow", label, vname, ei, ni)


def _stream_splinecv(run, rng, verde, index):
    """SplineCV: the data points as 2-D arrays (m, n), raveled, as pandas columns - same scores_, same selected parameters, same predictions."""
    import pandas as pd

    m = int([16, 25, 40][index % 3])
    n = int(rng.integers(3, 6))
    size = m * n
    scale = gen.log_uniform(rng, 1e1, 1e4)
    east, north = gen.cloud(rng, size, kind=str(rng.choice(["uniform", "jitter"])), scale=scale, offset_factor=0.0)
    noise = float(10 ** rng.uniform(-2, -0.3))
    data = gen.smooth_field(rng, east, north, 1.0) + noise * rng.normal(size=size)  # the noise level decides which damping wins
    dampings = tuple(float(v) for v in 10 ** np.sort(rng.uniform(-7, 1, int(rng.integers(2, 5)))))
    mindists = (1e-6 * scale, 0.05 * scale)[: int(rng.integers(1, 3))]
    want_w = rng.random() < 0.3
    weights = rng.uniform(0.2, 2, size) if want_w else None
    qe, qn = _queries(rng, east, north, 10)

    def run_cv(coords, d, w):
        cv = verde.SplineCV(dampings=dampings, mindists=mindists)
        cv.fit(coords, d) if w is None else cv.fit(coords, d, weights=w)
        cv.predict((qe, qn))
        return np.asarray(cv.scores_, dtype="float64"), float(cv.damping_), float(cv.mindist_), _flat(tuple(np.asarray(c) for c in _as_tuple(_STATE["last_predict"].result)))

    base = run_cv((east, north), data, weights)
    run.count("groups:SplineCV")
    run.count("splinecv:rows=%d" % m)
    order = np.argsort(base[0])
    gap = float(base[0][order[-1]] - base[0][order[-2]]) if base[0].size > 1 else np.inf
    run.count("splinecv:selected_damping_index=%d_of_%d" % (dampings.index(base[1]), len(dampings)))
    labels = rng.permutation(size) + 10
    variants = [("2d(m,n)", (east.reshape(m, n), north.reshape(m, n)), data.reshape(m, n), None if weights is None else weights.reshape(m, n)),
                ("2d(n,m)", (east.reshape(n, m), north.reshape(n, m)), data.reshape(n, m), None if weights is None else weights.reshape(n, m)),
                ("2d_fortran", (np.asfortranarray(east.reshape(m, n)), np.asfortranarray(north.reshape(m, n))), np.asfortranarray(data.reshape(m, n)),
                 None if weights is None else np.asfortranarray(weights.reshape(m, n))),
                ("series", (pd.Series(east, index=labels), pd.Series(north, index=labels)), pd.Series(data, index=labels), None if weights is None else pd.Series(weights, index=labels)),
                ("dataframe_columns", None, None, None)]
    frame = pd.DataFrame({"e": east, "n": north, "d": data, "w": weights if weights is not None else np.ones(size)}, index=labels)
    variants[-1] = ("dataframe_columns", (frame.e, frame.n), frame.d, None if weights is None else frame.w)
    model = Model("spline", "SplineCV -> Spline(mindist=%g, damping=%g)" % (base[2], base[1]), None, mindist=base[2], damping=base[1], force_coords=None)
    with np.errstate(all="ignore"):
        refm = reference(model, east, north, (data,), None if weights is None else (weights,), qe, qn)
    rel = K_COND * refm["kappa_eff"] * EPS
    informative = refm["skip"] is None and rel <= UNINFORMATIVE
    for vname, coords, d, w in variants:
        wit = {"gridder": "SplineCV(dampings=%r, mindists=%r)" % (dampings, mindists), "variant": "splinecv:" + vname, "east": east, "north": north, "data": data,
               "weights": weights, "rows": m, "columns": n, "base_scores": base[0]}
        try:
            got = run_cv(coords, d, w)
        except Exception as exc:  # noqa: BLE001
            run.evaluated("splinecv_layout")
            run.violation("splinecv_layout", "SplineCV with the points as %s raised %s: %s (the 1-D run succeeded)" % (vname, type(exc).__name__, str(exc)[:200]),
                          dict(wit, exception=type(exc).__name__), key="splinecv:raised")
            continue
        run.evaluated("splinecv_layout")
        run.count("splinecv_layout:" + vname)
        score_tol = 1e-9 * np.maximum(1.0, np.abs(base[0]))
        if got[0].shape != base[0].shape or not np.all(np.abs(got[0] - base[0]) <= score_tol):
            run.violation("splinecv_layout", "SplineCV scores_ differ when the same points are given as %s: %r vs %r" % (vname, got[0].tolist(), base[0].tolist()),
                          dict(wit, scores=got[0]), key="splinecv:scores")
            continue
        run.count("splinecv:scores_bit_identical" if np.array_equal(got[0], base[0]) else "splinecv:scores_within_1e-9")
        if (got[1], got[2]) != (base[1], base[2]):
            if gap <= 2e-9:
                run.count("either_way:splinecv_tied_candidates")
                continue
            run.violation("splinecv_layout", "SplineCV selects damping=%r mindist=%r for %s and damping=%r mindist=%r for 1-D arrays" % (got[1], got[2], vname, base[1], base[2]),
                          dict(wit, scores=got[0]), key="splinecv:selection")
            continue
        _compare_refit(run, "splinecv_layout", "SplineCV", "points as " + vname, base[3], got[3], 64 * EPS * refm["terms"], rel * refm["scale"] if np.isfinite(rel) else 0.0,
                       informative, wit, "splinecv:predictions")
        run.mark_nontrivial("splinecv", vname, east, north, data, dampings)
    # narrow integer coordinate dtypes through the cross-validated spline as well
    if index % 3 == 0:
        dp = tuple(float(v) for v in (1e-3, 1e-1))
        _narrow_integer_class(run, rng, "SplineCV(dampings=(1e-3, 1e-1))", lambda: verde.SplineCV(dampings=dp, mindists=(1e-3,)), 1,
                              Model("spline", "Spline", None, mindist=1e-3, damping=1e-3, force_coords=None), n=40)
    run.sample("splinecv", {"rows": m, "columns": n, "dampings": dampings, "mindists": mindists, "scores": base[0], "selected": [base[1], base[2]],
                            "compared": "scores_, selected damping / mindist and predictions for 2-D, Fortran, Series and DataFrame-column inputs against the raveled 1-D run"})


_STREAMS = {"splinecv": _stream_splinecv, "large": _stream_large, "spelling": _stream_spelling, "forces": _stream_forces, "spline": _stream_spline, "trend": _stream_trend, "vector": _stream_vector, "neighbors": _stream_neighbors, "scipy": _stream_scipy,
            "composite": _stream_composite}


LEVEL_TEXT = (
    "Groups of executions of the real fit/predict methods on equivalent inputs (permuted, re-laid-out, integer-typed, extra coordinates, reshaped "
    "queries, linear combinations of data) are recorded by monitors on every gridder's fit and predict and compared by an offline group checker with "
    "tolerances derived from an independent reference least-squares model; the shape clause is a postcondition on every predict return, nested ones "
    "included. Sampled over seeded random point sets in general position; held means 'no refutation among the monitored executions', not a proof."
)
LEVEL_NOTE = ("Trusted: numpy / pandas container semantics used to build equivalent inputs (np.ravel in C order returns the same element sequence - asserted on "
              "the arrays), the reference condition number from numpy's SVD, qhull's determinism.")
TECHNIQUE = ("trace recording on fit/predict of every gridder + offline metamorphic group checker (layout / order / dtype / linearity relations) with "
             "conditioning-aware tolerances from an independent reference model; shape postcondition on every predict return")
