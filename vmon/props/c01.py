"""
C01 - exact interpolators reproduce the data at the data points; Trend(N) reproduces polynomials of degree <= N.

Monitors sit on ``fit`` and ``predict`` of Spline, VectorSpline2D, KNeighbors, the scipy gridders (Linear, Cubic,
ScipyGridder), Trend, Chain and Vector.  A ``fit`` return leaves a record (own copies of the coordinates and data, the
configuration) in a side table keyed by object identity; every later ``predict`` return of the same object *at the
fitted coordinates* is judged against the recorded data - whoever made the call (the workload, ``BaseGridder.filter``
inside a Chain, a Vector delegating to its components).  The tolerance of the spline family comes from the condition
number of a Green's matrix the reference builds from its own kernels (``vmon.ref``), never from verde's Jacobian.
"""
import collections
import contextlib
import warnings
import weakref

import numpy as np

from .. import gen, ref
from . import _c02_layouts as lay
from ._c01_defaults import defaults_case

ID = "C01"
LEVEL = "exploration"
K = 100.0                  # error <= K * kappa * eps * scale
INFORMATIVE = 1e-3         # a tolerance above 1e-3 of the data scale decides nothing -> skipped
SCIPY_RTOL = 1e-9          # scipy gridders: 1e-9 * max|d| (measured worst 2e-13)
CHAIN_ROUND = 64.0         # chains: + 64 eps max(|d|, |step predictions|) for the residual bookkeeping
HULL_BOUNDARY = "either_way"     # scipy gridders at data points lying on the convex-hull boundary (see ASSUMPTIONS and finish note)
EPS = ref.EPS
DATA_MAGNITUDES = (1e-15, 1e-12, 1e-9, 1e-6, 1e-3, 1.0, 1e3, 1e6, 1e9, 1e12, 1e15)   # 'all finite data values': absolute-tolerance shortcuts show
SIZES = (127, 128, 129, 255, 256, 257, 385, 513)   # at and around multiples of 64/128/256: tails of blocked / vectorised kernels

RULE = (
    "cases = seeded clouds of 1..400 pairwise-distinct points (uniform, jittered grid, clusters, anisotropic box, "
    "collinear-plus-one; logical shapes 1-D or non-square 2-D with each coordinate and each data component in an independently chosen memory layout / container - C, Fortran, transposed view, strided, negative strides, read-only, pandas Series; coordinate scales 1e-2..1e6, offsets 0..1e3 extents; data "
    "magnitudes 1e-3..1e6) fitted by every exact configuration (Spline with mindist None/small, VectorSpline2D with Poisson "
    "in [-1,1] and mindist>0, KNeighbors() / k=1 with mean/median/max, Linear/Cubic with rescale on/off, ScipyGridder "
    "linear/nearest/cubic, Chains [Trend(0..2), exact], nested Chains, Vectors of exact gridders and of Chains, vector Chains "
    "ending in VectorSpline2D) and predicted at the fitted coordinates (also after the caller overwrote its own arrays); "
    "CLOSE_PAIRS stream: distinct points whose mutual distance is far below the float32 resolution of the coordinates - coordinate magnitude 1e9 "
    "with pairs 5-25 units apart, UTM-like offsets 5e5 / 7.5e6 with pairs 0.01-0.03 m apart, the two data values of a pair clearly different - for "
    "KNeighbors(k=1) alone / in a Vector / in a Chain (up to ~800 points), Linear, Cubic and Spline; DEFAULTS stream: every estimator built with NO optional arguments and fitted without the weights argument against the same estimator with the "
    "documented defaults spelled out (get_params() and bit-identical predictions); GRID_LIKE stream: coordinates and data as 2-D arrays - a meshgrid whose border rows / columns are untouched while the interior nodes are moved "
    "off the grid lines by 10-40 % of the spacing, true meshgrids, scattered points reshaped 2-D, 'ij'-indexed meshgrids, (1, n) / (n, 1) point lists "
    "whose end points share a coordinate, rotated and sheared grids - for every exact interpolator, Trend with an exact polynomial and "
    "Chain[Trend, Spline]; prediction at the fitted 2-D points judged as usual and compared with the prediction at the same points raveled to 1-D; "
    "LARGE_PREDICT stream: one predict call on more than 2**17 points (131073, 200000, 400x400, 450x600; C or Fortran grids) for KNeighbors(k=1) alone, "
    "in a Chain and in a Vector, Spline, VectorSpline2D, Linear, Cubic and Chain[Trend, Spline], the fitted points sitting at declared positions of the "
    "query (also the very last ones and position 2**17) where they are judged; ERRSTATE stream: the spline / vspline / knn / scipy / chain / vector / "
    "trend_poly / forces_order workloads with every verde call made inside np.errstate(all='raise'); FORCES_ORDER stream: undamped Spline / VectorSpline2D (alone and as the last step of a Chain) with EXPLICIT force_coords that are the data points "
    "listed in the same order, reversed, sorted, shuffled or as np.unique output, held in tuples / lists of arrays, 2-D arrays, lists of floats or "
    "strided column views (still 'forces at the data': the square system is not symmetric then); SPELLINGS stream: k, mindist, poisson, degree, rescale "
    "given as Python int, numpy integer, numpy floating or 0-d array; HISTORY stream: the same Spline / VectorSpline2D / KNeighbors / Linear / Cubic / Trend / Chain / Vector object fitted again (after predict / grid / "
    "filter / score or directly; other locations, smaller / equal / larger size, other layouts; the caller's buffers re-used with new contents), "
    "re-configured to an exact configuration through set_params or attribute assignment after or before first use (also through instances held in "
    "a Chain / Vector) and fitted validly after a fit() that raised ValueError on other coordinates; "
    "all data times 1e-15..1e15 half of the time (magnitude classes); stream sizes: VectorSpline2D, Spline, KNeighbors and Linear on well separated "
    "jittered grids of 127, 128, 129, 255, 256, 257, 385, 513 points; Trend(0..4) fitted to polynomials of total degree <= N and predicted inside twice the data bounding box. "
    "Non-trivial = at least 3 points, non-constant data and an informative tolerance (< 1e-3 of the data scale); distinct = "
    "hash of estimator kind, configuration, coordinates and data. Spline-family cases are binned by decade of the reference "
    "condition number; bins 1e6..1e10 are the regression test of finding F1."
)
ASSUMPTIONS = [
    "spline family: |prediction - datum| <= 100 * kappa * eps * max|data| with kappa the 2-norm condition number of the reference Green's matrix "
    "after unit-variance column scaling (constant columns unscaled); cases with 100*kappa*eps >= 1e-3 are skipped as uninformative",
    "scipy gridders: 1e-9 * max|data| + 100 * eps * (max|coordinate| / smallest point separation) * range(data) - positions carry a relative rounding of "
    "eps*|coordinate|, which across the closest pair moves barycentric coordinates by that ratio; an interior data point whose finite error is "
    "explained by the conditioning of a Delaunay triangle meeting there (100 eps |coordinate| (|v_i|+|v_j|)/|v_i x v_j| max|d_i - d_k|, for Cubic times "
    "longest/shortest edge; triangulation recomputed with scipy.spatial.Delaunay, evaluated lazily) is counted either-way; KNeighbors(k=1): exact equality; chains: tolerance of the last (exact) step on the residual it was given "
    "plus 64 eps max(|data|, sum of |step predictions|)",
    "Trend reproduction: |predict(q) - p(q)| <= 100 * kappa_V * eps * max(sum_k |c_k m_k|) over data and query points, q inside twice the data bounding box, "
    "n >= number of coefficients",
    "scipy gridders: a data point lying on the boundary of the exact convex hull (a hull vertex, or within 1e-9 of the extent of a hull edge) that is "
    "returned as NaN or inaccurately is counted either-way (it sits on the backend's inside/outside decision boundary and in sliver hull triangles "
    "whose barycentric coordinates are arbitrarily ill-conditioned); any other data point must be reproduced within the tolerance",
    "VectorSpline2D: the forces are documented to sit at the data of the first successful fit while force_coords is None and to stay there until "
    "the parameter is set again; the monitor tracks this over the object's history (a refit without resetting force_coords is classified not exact, "
    "a fit() that raised does not count as the first fit)",
    "callers with numpy floating-point errors set to raise (np.errstate(all='raise')) are in scope for the configurations of the ERRSTATE stream, all of "
    "which complete on the unchanged code (surveyed: 400 clouds x 12 configurations without a FloatingPointError); there a FloatingPointError is a failure "
    "to reproduce the data; the monitors themselves always decide under numpy's default error handling",
    "a predict call at a declared large query is judged at the positions holding the fitted points (verified by the monitor against its own record)",
    "the fitted points are pairwise distinct (cases with duplicates are skipped, the statement quantifies over distinct points)",
]
FLOORS = {
    "quick": {'eval:spline_exact': 512, 'eval:vspline_exact': 156, 'eval:knn_exact': 313, 'eval:scipy_exact': 544, 'eval:chain_exact': 226, 'eval:vector_exact': 69, 'eval:trend_reproduction': 626, 'informative_kappa_ge_1e6:spline': 75, 'informative_kappa_ge_1e6:trend': 115, 'distinct_nontrivial': 1350, 'layout:coordinates:2d_fortran': 150, 'layout:coordinates:2d_transposed_view': 140, 'layout:coordinates:2d_strided': 150, 'layout:coordinates:1d_series': 250, 'layout:data:2d_fortran': 70, 'layout:data:2d_transposed_view': 80, 'layout:data:2d_strided': 80, 'layout:data:2d_negative_stride': 80, 'layout:data:1d_series': 140, 'layout:data_laid_out_differently_from_coordinates': 800, 'data_magnitude:1e+00': 683, 'data_magnitude:1e+03': 64, 'data_magnitude:1e+06': 56, 'data_magnitude:1e+09': 55, 'data_magnitude:1e+12': 48, 'data_magnitude:1e+15': 63, 'data_magnitude:1e-03': 52, 'data_magnitude:1e-06': 48, 'data_magnitude:1e-09': 55, 'data_magnitude:1e-12': 56, 'data_magnitude:1e-15': 48, 'size_class:knn:127': 1, 'size_class:knn:128': 1, 'size_class:knn:129': 1, 'size_class:knn:255': 1, 'size_class:knn:256': 1, 'size_class:knn:257': 1, 'size_class:knn:385': 1, 'size_class:knn:513': 1, 'size_class:linear:127': 1, 'size_class:linear:128': 1, 'size_class:linear:129': 1, 'size_class:linear:255': 1, 'size_class:linear:256': 1, 'size_class:linear:257': 1, 'size_class:linear:385': 1, 'size_class:linear:513': 1, 'size_class:spline:127': 1, 'size_class:spline:128': 1, 'size_class:spline:129': 1, 'size_class:spline:255': 1, 'size_class:spline:256': 1, 'size_class:spline:257': 1, 'size_class:spline:385': 1, 'size_class:spline:513': 1, 'size_class:vspline:127': 1, 'size_class:vspline:128': 1, 'size_class:vspline:129': 1, 'size_class:vspline:255': 1, 'size_class:vspline:256': 1, 'size_class:vspline:257': 1, 'size_class:vspline:385': 1, 'size_class:vspline:513': 1, 'history:error_then_fit:chain': 2, 'history:error_then_fit:cubic': 2, 'history:error_then_fit:knn': 2, 'history:error_then_fit:linear': 2, 'history:error_then_fit:spline': 2, 'history:error_then_fit:trend': 2, 'history:error_then_fit:vector': 2, 'history:error_then_fit:vspline': 2, 'history:held_instances_reconfigured': 7, 'history:reconfigure_after_use:chain': 2, 'history:reconfigure_after_use:cubic': 2, 'history:reconfigure_after_use:knn': 2, 'history:reconfigure_after_use:linear': 2, 'history:reconfigure_after_use:spline': 2, 'history:reconfigure_after_use:trend': 2, 'history:reconfigure_after_use:vector': 2, 'history:reconfigure_after_use:vspline': 2, 'history:reconfigure_before_use:chain': 2, 'history:reconfigure_before_use:cubic': 2, 'history:reconfigure_before_use:knn': 2, 'history:reconfigure_before_use:linear': 2, 'history:reconfigure_before_use:spline': 2, 'history:reconfigure_before_use:trend': 2, 'history:reconfigure_before_use:vector': 2, 'history:reconfigure_before_use:vspline': 2, 'history:refit_after_use:chain': 2, 'history:refit_after_use:cubic': 2, 'history:refit_after_use:knn': 2, 'history:refit_after_use:linear': 2, 'history:refit_after_use:spline': 2, 'history:refit_after_use:trend': 2, 'history:refit_after_use:vector': 2, 'history:refit_after_use:vspline': 2, 'history:refit_directly:chain': 2, 'history:refit_directly:cubic': 2, 'history:refit_directly:knn': 2, 'history:refit_directly:linear': 2, 'history:refit_directly:spline': 2, 'history:refit_directly:trend': 2, 'history:refit_directly:vector': 2, 'history:refit_directly:vspline': 2, 'history:refit_same_arrays_new_contents:chain': 2, 'history:refit_same_arrays_new_contents:cubic': 2, 'history:refit_same_arrays_new_contents:knn': 2, 'history:refit_same_arrays_new_contents:linear': 2, 'history:refit_same_arrays_new_contents:spline': 2, 'history:refit_same_arrays_new_contents:trend': 2, 'history:refit_same_arrays_new_contents:vector': 2, 'history:refit_same_arrays_new_contents:vspline': 2, 'history:size_change:equal': 21, 'history:size_change:larger': 28, 'history:size_change:smaller': 21, 'history:use:filter': 9, 'history:use:grid': 6, 'history:use:nothing': 7, 'history:use:predict_data': 4, 'history:use:predict_elsewhere': 8, 'history:use:score': 7, 'history:via_attribute_assignment': 10, 'history:via_set_params': 11, 'fit_raised:vspline:ValueError': 2, 'explicit_forces_at_the_data:spline:other_order': 16, 'explicit_forces_at_the_data:spline:same_order': 4, 'explicit_forces_at_the_data:vspline:other_order': 16, 'explicit_forces_at_the_data:vspline:same_order': 4, 'forces_container:list_of_arrays': 6, 'forces_container:strided_columns': 14, 'forces_container:tuple_of_2d_arrays': 6, 'forces_container:tuple_of_arrays': 6, 'forces_container:tuple_of_lists': 6, 'forces_order:chain_spline:np_unique': 2, 'forces_order:chain_spline:reversed': 2, 'forces_order:chain_spline:same_order': 2, 'forces_order:chain_spline:shuffled': 2, 'forces_order:chain_spline:sorted': 2, 'forces_order:chain_vspline:np_unique': 2, 'forces_order:chain_vspline:reversed': 2, 'forces_order:chain_vspline:same_order': 2, 'forces_order:chain_vspline:shuffled': 2, 'forces_order:chain_vspline:sorted': 2, 'forces_order:spline:np_unique': 2, 'forces_order:spline:reversed': 2, 'forces_order:spline:same_order': 2, 'forces_order:spline:shuffled': 2, 'forces_order:spline:sorted': 2, 'forces_order:vspline:np_unique': 2, 'forces_order:vspline:reversed': 2, 'forces_order:vspline:same_order': 2, 'forces_order:vspline:shuffled': 2, 'forces_order:vspline:sorted': 2, 'spelling:knn_k:int32': 1, 'spelling:knn_k:int64': 1, 'spelling:knn_k:int8': 1, 'spelling:knn_k:uint8': 1, 'spelling:scipy_rescale:bool(False)': 1, 'spelling:scipy_rescale:bool(True)': 1, 'spelling:scipy_rescale:int(False)': 1, 'spelling:scipy_rescale:int(True)': 1, 'spelling:spline_mindist:0-d array': 1, 'spelling:spline_mindist:int': 1, 'spelling:spline_mindist:np.float32': 1, 'spelling:spline_mindist:np.int64': 1, 'spelling:trend_degree:0-d array': 1, 'spelling:trend_degree:int32': 1, 'spelling:trend_degree:int64': 1, 'spelling:trend_degree:uint8': 1, 'spelling:vspline_mindist:0-d array': 1, 'spelling:vspline_mindist:int': 1, 'spelling:vspline_mindist:np.float32': 1, 'spelling:vspline_mindist:np.int64': 1, 'spelling:vspline_poisson:float32(0.5)': 1, 'spelling:vspline_poisson:int(-1)': 1, 'spelling:vspline_poisson:int(0)': 1, 'spelling:vspline_poisson:int(1)': 1, 'spelling:vspline_poisson:int64(-1)': 1, 'spelling:vspline_poisson:int64(0)': 1, 'spelling:vspline_poisson:ndarray(0.25)': 1, 'spelling:vspline_poisson:ndarray(1)': 1, 'errstate_raise:chain': 3, 'errstate_raise:forces_order': 3, 'errstate_raise:knn': 3, 'errstate_raise:scipy': 3, 'errstate_raise:spline': 3, 'errstate_raise:trend_poly': 3, 'errstate_raise:vector': 3, 'errstate_raise:vspline': 3, 'judged_inside_a_large_query:chain': 1, 'judged_inside_a_large_query:knn': 1, 'judged_inside_a_large_query:scipy': 1, 'judged_inside_a_large_query:spline': 1, 'judged_inside_a_large_query:vector': 1, 'judged_inside_a_large_query:vspline': 1, 'large_predict:chain_knn:200000': 1, 'large_predict:chain_spline:450x600': 1, 'large_predict:cubic:400x400': 1, 'large_predict:knn:131073': 1, 'large_predict:linear:200000': 1, 'large_predict:spline:450x600': 1, 'large_predict:vector_knn:400x400': 1, 'large_predict:vspline:131073': 1, 'eval:shape_independence': 51, 'grid_like:interior_jitter': 6, 'grid_like:interior_jitter:spline': 1, 'grid_like:interior_jitter:knn': 1, 'grid_like:interior_jitter:linear': 1, 'grid_like:interior_jitter:cubic': 1, 'grid_like:interior_jitter:vspline': 1, 'grid_like:interior_jitter:trend': 1, 'grid_like:interior_jitter:chain_trend_spline': 1, 'grid_like:interior_jitter:vector': 1, 'grid_like:regular': 6, 'grid_like:regular:spline': 1, 'grid_like:regular:knn': 1, 'grid_like:regular:linear': 1, 'grid_like:regular:cubic': 1, 'grid_like:regular:vspline': 1, 'grid_like:regular:trend': 1, 'grid_like:regular:chain_trend_spline': 1, 'grid_like:regular:vector': 1, 'grid_like:scattered_2d': 6, 'grid_like:scattered_2d:spline': 1, 'grid_like:scattered_2d:knn': 1, 'grid_like:scattered_2d:linear': 1, 'grid_like:scattered_2d:cubic': 1, 'grid_like:scattered_2d:vspline': 1, 'grid_like:scattered_2d:trend': 1, 'grid_like:scattered_2d:chain_trend_spline': 1, 'grid_like:scattered_2d:vector': 1, 'grid_like:ij_meshgrid': 6, 'grid_like:ij_meshgrid:spline': 1, 'grid_like:ij_meshgrid:knn': 1, 'grid_like:ij_meshgrid:linear': 1, 'grid_like:ij_meshgrid:cubic': 1, 'grid_like:ij_meshgrid:vspline': 1, 'grid_like:ij_meshgrid:trend': 1, 'grid_like:ij_meshgrid:chain_trend_spline': 1, 'grid_like:ij_meshgrid:vector': 1, 'grid_like:row_vector': 6, 'grid_like:row_vector:spline': 1, 'grid_like:row_vector:knn': 1, 'grid_like:row_vector:linear': 1, 'grid_like:row_vector:cubic': 1, 'grid_like:row_vector:vspline': 1, 'grid_like:row_vector:trend': 1, 'grid_like:row_vector:chain_trend_spline': 1, 'grid_like:row_vector:vector': 1, 'grid_like:column_vector': 6, 'grid_like:column_vector:spline': 1, 'grid_like:column_vector:knn': 1, 'grid_like:column_vector:linear': 1, 'grid_like:column_vector:cubic': 1, 'grid_like:column_vector:vspline': 1, 'grid_like:column_vector:trend': 1, 'grid_like:column_vector:chain_trend_spline': 1, 'grid_like:column_vector:vector': 1, 'grid_like:rotated': 6, 'grid_like:rotated:spline': 1, 'grid_like:rotated:knn': 1, 'grid_like:rotated:linear': 1, 'grid_like:rotated:cubic': 1, 'grid_like:rotated:vspline': 1, 'grid_like:rotated:trend': 1, 'grid_like:rotated:chain_trend_spline': 1, 'grid_like:rotated:vector': 1, 'grid_like:sheared': 6, 'grid_like:sheared:spline': 1, 'grid_like:sheared:knn': 1, 'grid_like:sheared:linear': 1, 'grid_like:sheared:cubic': 1, 'grid_like:sheared:vspline': 1, 'grid_like:sheared:trend': 1, 'grid_like:sheared:chain_trend_spline': 1, 'grid_like:sheared:vector': 1, 'defaults:Spline': 1, 'defaults:VectorSpline2D': 1, 'defaults:KNeighbors': 1, 'defaults:Linear': 1, 'defaults:Cubic': 1, 'defaults:ScipyGridder': 1, 'defaults:Trend': 1, 'eval:documented_defaults': 11, 'close_pairs:magnitude_1e9:knn': 1, 'close_pairs:magnitude_1e9:vector_knn': 1, 'close_pairs:magnitude_1e9:chain_knn': 1, 'close_pairs:magnitude_1e9:linear': 1, 'close_pairs:magnitude_1e9:cubic': 1, 'close_pairs:magnitude_1e9:spline': 1, 'close_pairs:utm:knn': 1, 'close_pairs:utm:vector_knn': 1, 'close_pairs:utm:chain_knn': 1, 'close_pairs:utm:linear': 1, 'close_pairs:utm:cubic': 1, 'close_pairs:utm:spline': 1, 'close_pairs:spline:informative': 2, 'close_pairs:points_merged_in_float32': 200},
    "thorough": {'eval:spline_exact': 9223, 'eval:vspline_exact': 2808, 'eval:knn_exact': 5637, 'eval:scipy_exact': 9799, 'eval:chain_exact': 4068, 'eval:vector_exact': 1252, 'eval:trend_reproduction': 11268, 'informative_kappa_ge_1e6:spline': 1500, 'informative_kappa_ge_1e6:trend': 2300, 'distinct_nontrivial': 27000, 'layout:coordinates:2d_fortran': 3000, 'layout:coordinates:2d_transposed_view': 2800, 'layout:coordinates:2d_strided': 3000, 'layout:coordinates:1d_series': 5000, 'layout:data:2d_fortran': 1400, 'layout:data:2d_transposed_view': 1600, 'layout:data:2d_strided': 1600, 'layout:data:2d_negative_stride': 1600, 'layout:data:1d_series': 2800, 'layout:data_laid_out_differently_from_coordinates': 16000, 'data_magnitude:1e+00': 12294, 'data_magnitude:1e+03': 1152, 'data_magnitude:1e+06': 1008, 'data_magnitude:1e+09': 990, 'data_magnitude:1e+12': 864, 'data_magnitude:1e+15': 1134, 'data_magnitude:1e-03': 936, 'data_magnitude:1e-06': 864, 'data_magnitude:1e-09': 990, 'data_magnitude:1e-12': 1008, 'data_magnitude:1e-15': 864, 'size_class:knn:127': 8, 'size_class:knn:128': 8, 'size_class:knn:129': 8, 'size_class:knn:255': 8, 'size_class:knn:256': 8, 'size_class:knn:257': 8, 'size_class:knn:385': 8, 'size_class:knn:513': 8, 'size_class:linear:127': 8, 'size_class:linear:128': 8, 'size_class:linear:129': 8, 'size_class:linear:255': 8, 'size_class:linear:256': 8, 'size_class:linear:257': 8, 'size_class:linear:385': 8, 'size_class:linear:513': 8, 'size_class:spline:127': 8, 'size_class:spline:128': 8, 'size_class:spline:129': 8, 'size_class:spline:255': 8, 'size_class:spline:256': 8, 'size_class:spline:257': 8, 'size_class:spline:385': 8, 'size_class:spline:513': 8, 'size_class:vspline:127': 8, 'size_class:vspline:128': 8, 'size_class:vspline:129': 8, 'size_class:vspline:255': 8, 'size_class:vspline:256': 8, 'size_class:vspline:257': 8, 'size_class:vspline:385': 8, 'size_class:vspline:513': 8, 'history:error_then_fit:chain': 32, 'history:error_then_fit:cubic': 32, 'history:error_then_fit:knn': 32, 'history:error_then_fit:linear': 32, 'history:error_then_fit:spline': 32, 'history:error_then_fit:trend': 32, 'history:error_then_fit:vector': 32, 'history:error_then_fit:vspline': 32, 'history:held_instances_reconfigured': 129, 'history:reconfigure_after_use:chain': 32, 'history:reconfigure_after_use:cubic': 32, 'history:reconfigure_after_use:knn': 32, 'history:reconfigure_after_use:linear': 32, 'history:reconfigure_after_use:spline': 32, 'history:reconfigure_after_use:trend': 32, 'history:reconfigure_after_use:vector': 32, 'history:reconfigure_after_use:vspline': 32, 'history:reconfigure_before_use:chain': 32, 'history:reconfigure_before_use:cubic': 32, 'history:reconfigure_before_use:knn': 32, 'history:reconfigure_before_use:linear': 32, 'history:reconfigure_before_use:spline': 32, 'history:reconfigure_before_use:trend': 32, 'history:reconfigure_before_use:vector': 32, 'history:reconfigure_before_use:vspline': 32, 'history:refit_after_use:chain': 32, 'history:refit_after_use:cubic': 32, 'history:refit_after_use:knn': 32, 'history:refit_after_use:linear': 32, 'history:refit_after_use:spline': 32, 'history:refit_after_use:trend': 32, 'history:refit_after_use:vector': 32, 'history:refit_after_use:vspline': 32, 'history:refit_directly:chain': 32, 'history:refit_directly:cubic': 32, 'history:refit_directly:knn': 32, 'history:refit_directly:linear': 32, 'history:refit_directly:spline': 32, 'history:refit_directly:trend': 32, 'history:refit_directly:vector': 32, 'history:refit_directly:vspline': 32, 'history:refit_same_arrays_new_contents:chain': 32, 'history:refit_same_arrays_new_contents:cubic': 32, 'history:refit_same_arrays_new_contents:knn': 32, 'history:refit_same_arrays_new_contents:linear': 32, 'history:refit_same_arrays_new_contents:spline': 32, 'history:refit_same_arrays_new_contents:trend': 32, 'history:refit_same_arrays_new_contents:vector': 32, 'history:refit_same_arrays_new_contents:vspline': 32, 'history:size_change:equal': 394, 'history:size_change:larger': 513, 'history:size_change:smaller': 388, 'history:use:filter': 172, 'history:use:grid': 118, 'history:use:nothing': 129, 'history:use:predict_data': 81, 'history:use:predict_elsewhere': 145, 'history:use:score': 129, 'history:via_attribute_assignment': 183, 'history:via_set_params': 205, 'fit_raised:vspline:ValueError': 32, 'explicit_forces_at_the_data:spline:other_order': 256, 'explicit_forces_at_the_data:spline:same_order': 64, 'explicit_forces_at_the_data:vspline:other_order': 256, 'explicit_forces_at_the_data:vspline:same_order': 64, 'forces_container:list_of_arrays': 96, 'forces_container:strided_columns': 224, 'forces_container:tuple_of_2d_arrays': 96, 'forces_container:tuple_of_arrays': 96, 'forces_container:tuple_of_lists': 96, 'forces_order:chain_spline:np_unique': 32, 'forces_order:chain_spline:reversed': 32, 'forces_order:chain_spline:same_order': 32, 'forces_order:chain_spline:shuffled': 32, 'forces_order:chain_spline:sorted': 32, 'forces_order:chain_vspline:np_unique': 32, 'forces_order:chain_vspline:reversed': 32, 'forces_order:chain_vspline:same_order': 32, 'forces_order:chain_vspline:shuffled': 32, 'forces_order:chain_vspline:sorted': 32, 'forces_order:spline:np_unique': 32, 'forces_order:spline:reversed': 32, 'forces_order:spline:same_order': 32, 'forces_order:spline:shuffled': 32, 'forces_order:spline:sorted': 32, 'forces_order:vspline:np_unique': 32, 'forces_order:vspline:reversed': 32, 'forces_order:vspline:same_order': 32, 'forces_order:vspline:shuffled': 32, 'forces_order:vspline:sorted': 32, 'spelling:knn_k:int32': 16, 'spelling:knn_k:int64': 16, 'spelling:knn_k:int8': 16, 'spelling:knn_k:uint8': 16, 'spelling:scipy_rescale:bool(False)': 16, 'spelling:scipy_rescale:bool(True)': 16, 'spelling:scipy_rescale:int(False)': 16, 'spelling:scipy_rescale:int(True)': 16, 'spelling:spline_mindist:0-d array': 16, 'spelling:spline_mindist:int': 16, 'spelling:spline_mindist:np.float32': 16, 'spelling:spline_mindist:np.int64': 16, 'spelling:trend_degree:0-d array': 16, 'spelling:trend_degree:int32': 16, 'spelling:trend_degree:int64': 16, 'spelling:trend_degree:uint8': 16, 'spelling:vspline_mindist:0-d array': 16, 'spelling:vspline_mindist:int': 16, 'spelling:vspline_mindist:np.float32': 16, 'spelling:vspline_mindist:np.int64': 16, 'spelling:vspline_poisson:float32(0.5)': 16, 'spelling:vspline_poisson:int(-1)': 16, 'spelling:vspline_poisson:int(0)': 16, 'spelling:vspline_poisson:int(1)': 16, 'spelling:vspline_poisson:int64(-1)': 16, 'spelling:vspline_poisson:int64(0)': 16, 'spelling:vspline_poisson:ndarray(0.25)': 16, 'spelling:vspline_poisson:ndarray(1)': 16, 'errstate_raise:chain': 53, 'errstate_raise:forces_order': 53, 'errstate_raise:knn': 53, 'errstate_raise:scipy': 53, 'errstate_raise:spline': 53, 'errstate_raise:trend_poly': 53, 'errstate_raise:vector': 53, 'errstate_raise:vspline': 53, 'judged_inside_a_large_query:chain': 18, 'judged_inside_a_large_query:knn': 24, 'judged_inside_a_large_query:scipy': 12, 'judged_inside_a_large_query:spline': 12, 'judged_inside_a_large_query:vector': 6, 'judged_inside_a_large_query:vspline': 6, 'large_predict:knn:131073': 2, 'large_predict:knn:200000': 2, 'large_predict:knn:400x400': 2, 'large_predict:knn:450x600': 2, 'large_predict:chain_knn:131073': 2, 'large_predict:chain_knn:200000': 2, 'large_predict:chain_knn:400x400': 2, 'large_predict:chain_knn:450x600': 2, 'large_predict:vector_knn:131073': 2, 'large_predict:vector_knn:200000': 2, 'large_predict:vector_knn:400x400': 2, 'large_predict:vector_knn:450x600': 2, 'large_predict:spline:131073': 2, 'large_predict:spline:200000': 2, 'large_predict:spline:400x400': 2, 'large_predict:spline:450x600': 2, 'large_predict:vspline:131073': 2, 'large_predict:vspline:200000': 2, 'large_predict:vspline:400x400': 2, 'large_predict:vspline:450x600': 2, 'large_predict:linear:131073': 2, 'large_predict:linear:200000': 2, 'large_predict:linear:400x400': 2, 'large_predict:linear:450x600': 2, 'large_predict:cubic:131073': 2, 'large_predict:cubic:200000': 2, 'large_predict:cubic:400x400': 2, 'large_predict:cubic:450x600': 2, 'large_predict:chain_spline:131073': 2, 'large_predict:chain_spline:200000': 2, 'large_predict:chain_spline:400x400': 2, 'large_predict:chain_spline:450x600': 2, 'eval:shape_independence': 921, 'grid_like:interior_jitter': 120, 'grid_like:interior_jitter:spline': 12, 'grid_like:interior_jitter:knn': 12, 'grid_like:interior_jitter:linear': 12, 'grid_like:interior_jitter:cubic': 12, 'grid_like:interior_jitter:vspline': 12, 'grid_like:interior_jitter:trend': 12, 'grid_like:interior_jitter:chain_trend_spline': 12, 'grid_like:interior_jitter:vector': 12, 'grid_like:regular': 120, 'grid_like:regular:spline': 12, 'grid_like:regular:knn': 12, 'grid_like:regular:linear': 12, 'grid_like:regular:cubic': 12, 'grid_like:regular:vspline': 12, 'grid_like:regular:trend': 12, 'grid_like:regular:chain_trend_spline': 12, 'grid_like:regular:vector': 12, 'grid_like:scattered_2d': 120, 'grid_like:scattered_2d:spline': 12, 'grid_like:scattered_2d:knn': 12, 'grid_like:scattered_2d:linear': 12, 'grid_like:scattered_2d:cubic': 12, 'grid_like:scattered_2d:vspline': 12, 'grid_like:scattered_2d:trend': 12, 'grid_like:scattered_2d:chain_trend_spline': 12, 'grid_like:scattered_2d:vector': 12, 'grid_like:ij_meshgrid': 120, 'grid_like:ij_meshgrid:spline': 12, 'grid_like:ij_meshgrid:knn': 12, 'grid_like:ij_meshgrid:linear': 12, 'grid_like:ij_meshgrid:cubic': 12, 'grid_like:ij_meshgrid:vspline': 12, 'grid_like:ij_meshgrid:trend': 12, 'grid_like:ij_meshgrid:chain_trend_spline': 12, 'grid_like:ij_meshgrid:vector': 12, 'grid_like:row_vector': 120, 'grid_like:row_vector:spline': 12, 'grid_like:row_vector:knn': 12, 'grid_like:row_vector:linear': 12, 'grid_like:row_vector:cubic': 12, 'grid_like:row_vector:vspline': 12, 'grid_like:row_vector:trend': 12, 'grid_like:row_vector:chain_trend_spline': 12, 'grid_like:row_vector:vector': 12, 'grid_like:column_vector': 120, 'grid_like:column_vector:spline': 12, 'grid_like:column_vector:knn': 12, 'grid_like:column_vector:linear': 12, 'grid_like:column_vector:cubic': 12, 'grid_like:column_vector:vspline': 12, 'grid_like:column_vector:trend': 12, 'grid_like:column_vector:chain_trend_spline': 12, 'grid_like:column_vector:vector': 12, 'grid_like:rotated': 120, 'grid_like:rotated:spline': 12, 'grid_like:rotated:knn': 12, 'grid_like:rotated:linear': 12, 'grid_like:rotated:cubic': 12, 'grid_like:rotated:vspline': 12, 'grid_like:rotated:trend': 12, 'grid_like:rotated:chain_trend_spline': 12, 'grid_like:rotated:vector': 12, 'grid_like:sheared': 120, 'grid_like:sheared:spline': 12, 'grid_like:sheared:knn': 12, 'grid_like:sheared:linear': 12, 'grid_like:sheared:cubic': 12, 'grid_like:sheared:vspline': 12, 'grid_like:sheared:trend': 12, 'grid_like:sheared:chain_trend_spline': 12, 'grid_like:sheared:vector': 12, 'defaults:Spline': 16, 'defaults:VectorSpline2D': 16, 'defaults:KNeighbors': 16, 'defaults:Linear': 16, 'defaults:Cubic': 16, 'defaults:ScipyGridder': 16, 'defaults:Trend': 16, 'eval:documented_defaults': 112, 'close_pairs:magnitude_1e9:knn': 24, 'close_pairs:magnitude_1e9:vector_knn': 24, 'close_pairs:magnitude_1e9:chain_knn': 24, 'close_pairs:magnitude_1e9:linear': 24, 'close_pairs:magnitude_1e9:cubic': 24, 'close_pairs:magnitude_1e9:spline': 24, 'close_pairs:utm:knn': 24, 'close_pairs:utm:vector_knn': 24, 'close_pairs:utm:chain_knn': 24, 'close_pairs:utm:linear': 24, 'close_pairs:utm:cubic': 24, 'close_pairs:utm:spline': 24, 'close_pairs:spline:informative': 40, 'close_pairs:points_merged_in_float32': 4000},
}
JOBS = {"quick": 1, "thorough": 16}
CASE_TIMEOUT_S = 300


def plan(tier):
    if tier == "quick":
        return collections.OrderedDict(spline=400, vspline=130, knn=150, scipy=200, chain=220, vector=90, trend_poly=300, sizes=64, history=288, forces_order=100, spellings=96, large_predict=8, errstate=72, grid_like=128, defaults=28, close_pairs=36)
    return collections.OrderedDict(spline=8000, vspline=2600, knn=3000, scipy=4000, chain=4400, vector=1800, trend_poly=6000, sizes=640, history=5760, forces_order=2000, spellings=1920, large_predict=160, errstate=1440, grid_like=2560, defaults=280, close_pairs=720)


# ----------------------------------------------------------------------
# side table: what was fitted, by object identity
# ----------------------------------------------------------------------
class _State:
    def __init__(self):
        self.records = {}
        self.polys = {}
        self.expect = {}
        self.errstate_raise = False  # run the verde calls of the workload inside np.errstate(all='raise')
        self.embed = None  # a declared large query: {'size', 'idx'} - the fitted points sit at positions idx of the query sequence
        self.vforce = {}  # VectorSpline2D: are the forces documented to sit at the data of this fit (tracked over the object's history)


_S = _State()


def _seq(x):
    """The element sequence of an array-like (C-order ravel), as an own float64 copy."""
    return np.array(np.asarray(x), dtype="float64").ravel()


def _components(data):
    return [_seq(d) for d in data] if isinstance(data, tuple) else [_seq(data)]


class Rec:
    def __init__(self, obj, kind, coordinates, data, weights, cfg, exact, why=""):
        self.ref = weakref.ref(obj)
        self.kind = kind
        self.east = _seq(coordinates[0])
        self.north = _seq(coordinates[1])
        self.data = _components(data)
        if weights is None or (isinstance(weights, tuple) and all(w is None for w in weights)):
            self.weights = None
        else:
            self.weights = _components(weights)
        self.cfg = cfg
        self.exact = exact
        self.why = why
        self.info = None
        self.last_tol = None
        self.forces = None  # explicit force locations that are the data points in another order (None: forces at the data, in data order)
        self.excused = None  # per component: fitted points counted either-way at the last judged predict (scipy hull boundary)
        self.excused_nan = False

    def same_points(self, coordinates):
        east, north = _seq(coordinates[0]), _seq(coordinates[1])
        return east.shape == self.east.shape and np.array_equal(east, self.east) and np.array_equal(north, self.north)

    def distinct(self):
        if self.east.size < 2:
            return True
        pts = np.stack([self.east, self.north], axis=1)
        return np.unique(pts, axis=0).shape[0] == pts.shape[0]

    def scale(self):
        return max((float(np.max(np.abs(d))) if d.size else 0.0) for d in self.data)

    def finite(self):
        return all(np.all(np.isfinite(d)) for d in self.data)


def _forces_at_data(force_coords, east, north):
    """
    (forces are exactly the data points - possibly listed in another order, own float64 copies of them or None when they are not).
    'Forces at the data points' does not depend on the order in which the points are listed.
    """
    try:
        fe, fn = _seq(force_coords[0]), _seq(force_coords[1])
    except Exception:  # noqa: BLE001
        return False, None
    if fe.shape != east.shape or fn.shape != north.shape:
        return False, None
    mine = np.stack([east, north], axis=1)
    theirs = np.stack([fe, fn], axis=1)
    same = np.array_equal(mine[np.lexsort((mine[:, 1], mine[:, 0]))], theirs[np.lexsort((theirs[:, 1], theirs[:, 0]))])
    return bool(same), ((fe, fn) if same else None)


def _scipy_tol(rec):
    """
    Tolerance of the triangulation-based gridders at their own data points: 1e-9 max|d| plus the conditioning of the point set. The positions
    enter with a relative rounding of eps * |coordinate|; across a closest pair s apart a piecewise-linear / cubic interpolant changes by up to the
    data range, so barycentric coordinates known to eps * |coordinate| / s move the value by that fraction of the range (K = 100 as elsewhere).
    Negligible for well separated clouds near the origin; it matters for points a few float64 ulps x 1e7 apart at large offsets.
    """
    if rec.info is None:
        n = rec.east.size
        if n >= 2:
            d2 = (rec.east[:, None] - rec.east[None, :]) ** 2 + (rec.north[:, None] - rec.north[None, :]) ** 2
            d2[np.diag_indices(n)] = np.inf
            smin = float(np.sqrt(d2.min()))
        else:
            smin = np.inf
        mag = max(float(np.max(np.abs(rec.east))), float(np.max(np.abs(rec.north)))) if n else 0.0
        rec.info = {"geometric_conditioning": (mag / smin) if smin > 0 else np.inf}
    spread = max((float(np.ptp(d)) if d.size else 0.0) for d in rec.data)
    return SCIPY_RTOL * rec.scale() + K * EPS * rec.info["geometric_conditioning"] * spread


def _sliver_bound(rec, k):
    """
    Largest error that the conditioning of the triangles meeting at data point k explains there. The triangulation is recomputed with
    scipy.spatial.Delaunay (a geometry calculator, not verde code), in the given coordinates and in coordinates rescaled to the unit box (what
    rescale=True triangulates). Positions are known to eps * |coordinate|; the barycentric coordinates of a point in a triangle with edge vectors
    v_i, v_j then to eps * |coordinate| * (|v_i| + |v_j|) / |v_i x v_j|, and the value moves by that times the data differences across the
    triangle - for the cubic interpolant times longest / shortest edge as well (its gradients scale with difference / shortest edge). K = 100.
    """
    import scipy.spatial

    data = rec.data[0]
    cubic = "ubic" in (rec.cfg.get("class", "") + rec.cfg.get("method", ""))
    best = 0.0
    for rescale in (False, True):
        east, north = rec.east, rec.north
        if rescale:
            pe, pn = float(np.ptp(east)) or 1.0, float(np.ptp(north)) or 1.0
            east, north = (east - east.mean()) / pe, (north - north.mean()) / pn
            mag = max(float(np.max(np.abs(rec.east))) / pe, float(np.max(np.abs(rec.north))) / pn, 1.0)
        else:
            mag = max(float(np.max(np.abs(east))), float(np.max(np.abs(north))))
        cache = rec.__dict__.setdefault("_simplices", {})
        if rescale not in cache:
            try:
                cache[rescale] = scipy.spatial.Delaunay(np.stack([east, north], axis=1)).simplices
            except Exception:  # noqa: BLE001
                cache[rescale] = None
        simplices = cache[rescale]
        if simplices is None:
            continue
        for tri in simplices[(simplices == k).any(axis=1)]:
            i, j = [int(v) for v in tri if v != k]
            vi = np.array([east[i] - east[k], north[i] - north[k]])
            vj = np.array([east[j] - east[k], north[j] - north[k]])
            cross = abs(vi[0] * vj[1] - vi[1] * vj[0])
            if cross == 0:
                return np.inf
            edges = [np.hypot(*vi), np.hypot(*vj), np.hypot(*(vi - vj))]
            bound = K * EPS * mag * (edges[0] + edges[1]) / cross * max(abs(data[i] - data[k]), abs(data[j] - data[k]))
            if cubic:
                bound *= max(edges) / min(edges)
            best = max(best, float(bound))
    return best


def _lookup(obj):
    rec = _S.records.get(id(obj))
    if rec is None or rec.ref() is not obj:
        return None
    return rec


def _decade(kappa):
    if not np.isfinite(kappa) or kappa <= 0:
        return 99
    return int(np.floor(np.log10(max(kappa, 1.0))))


def _green_info(rec):
    """Reference condition number of the (weighted, column-scaled) Green's matrix of a spline-family record."""
    if rec.info is not None:
        return rec.info
    if rec.kind == "spline":
        fe, fn = (rec.east, rec.north) if rec.forces is None else rec.forces
        jac, _ = ref.spline_jacobian(rec.east, rec.north, fe, fn, rec.cfg["mindist"])
        data = rec.data[0]
    else:
        fe, fn = (rec.east, rec.north) if rec.forces is None else rec.forces
        jac, _ = ref.elastic_jacobian(rec.east, rec.north, fe, fn, rec.cfg["mindist"], rec.cfg["poisson"])
        data = np.concatenate(rec.data)
    weights = None if rec.weights is None else np.concatenate(rec.weights)
    wfac = 1.0
    info = {"skip": None}
    if not np.all(np.isfinite(jac)):
        info["skip"] = "reference kernel not finite (coincident force and data point with mindist=0)"
        rec.info = info
        return info
    if weights is not None:
        if not np.all(weights > 0):
            info["skip"] = "non-positive weights"
            rec.info = info
            return info
        wfac = float(np.sqrt(weights.max() / weights.min()))
    lsq = ref.LeastSquares(jac, data, weights, None)
    info.update(skip=lsq.skip, kappa=lsq.cond, wfac=wfac, rel_tol=K * lsq.cond * EPS * wfac)
    rec.info = info
    return info


def _tol_of(obj):
    """Per-component absolute tolerance of an exact estimator at its fitted points, or (None, reason)."""
    rec = _lookup(obj)
    if rec is None:
        return None, "no fit record"
    if not rec.exact:
        return None, "not exact: " + rec.why
    if not rec.distinct():
        return None, "duplicate points"
    if rec.kind in ("spline", "vspline"):
        info = _green_info(rec)
        if info["skip"]:
            return None, info["skip"]
        if not info["rel_tol"] < INFORMATIVE:
            return None, "uninformative"
        return [info["rel_tol"] * rec.scale()] * len(rec.data), None
    if rec.kind == "knn":
        return [0.0], None
    if rec.kind == "scipy":
        return [_scipy_tol(rec)], None
    if rec.kind == "vector":
        out = []
        for comp in rec.cfg["components"]:
            tol, why = _tol_of(comp)
            if tol is None:
                return None, why
            out.extend(tol)
        return out, None
    if rec.kind == "chain":
        if rec.last_tol is None:
            return None, "chain not judged at its data points"
        return list(rec.last_tol), None
    return None, "unknown kind"


def _structure(obj):
    """(is the object in the exact class, may it sit before the last step of an exact chain)."""
    import verde
    from verde.scipygridder import _BaseScipyGridder

    if isinstance(obj, verde.Chain):
        steps = [s for _, s in obj.steps]
        if not steps or any(not hasattr(s, "predict") for s in steps):
            return False, False
        parts = [_structure(s) for s in steps]
        benign = all(p[1] for p in parts)
        return benign and parts[-1][0], benign
    if isinstance(obj, verde.Vector):
        parts = [_structure(c) for c in obj.components]
        return all(p[0] for p in parts), all(p[1] for p in parts)
    if isinstance(obj, verde.Trend):
        return False, True
    if isinstance(obj, (verde.Spline, verde.VectorSpline2D, verde.KNeighbors, _BaseScipyGridder)):
        rec = _lookup(obj)
        exact = rec.exact if rec is not None else False
        return exact, True
    return False, False


def _excused(obj, ncomp, size):
    """Per component: fitted points that a nested scipy step left either-way (they poison sums and residuals downstream)."""
    import verde

    none = [np.zeros(size, bool) for _ in range(ncomp)]
    rec = _lookup(obj)
    if rec is None:
        return none
    if isinstance(obj, verde.Chain):
        out = none
        for _, step in obj.steps:
            for k, mask in enumerate(_excused(step, ncomp, size)):
                out[k] = out[k] | mask
        return out
    if isinstance(obj, verde.Vector):
        out = []
        for comp in obj.components:
            out.extend(_excused(comp, 1, size))
        return out if len(out) == ncomp else none
    if rec.excused is not None and len(rec.excused) == ncomp and all(m.size == size for m in rec.excused):
        return [m.copy() for m in rec.excused]
    return none


# ----------------------------------------------------------------------
# monitors
# ----------------------------------------------------------------------
def install(tap, run):
    import verde
    from verde.scipygridder import _BaseScipyGridder

    def remember(obj, rec):
        _S.records[id(obj)] = rec
        return rec

    def maxabs(x):
        x = np.asarray(x, dtype="float64")
        return float(np.max(np.abs(x))) if x.size else 0.0

    def nontrivial(rec, tag):
        if rec.east.size >= 3 and any(d.size and np.ptp(d) > 0 for d in rec.data):
            run.mark_nontrivial(tag, rec.kind, repr(sorted(rec.cfg.items(), key=str)) if rec.kind not in ("chain", "vector") else rec.cfg.get("desc"),
                                rec.east, rec.north, rec.data)
            return True
        return False

    def witness(rec, preds, extra=None):
        out = {"kind": rec.kind, "config": {k: v for k, v in rec.cfg.items() if k not in ("components", "steps")},
               "easting": rec.east, "northing": rec.north, "data": rec.data, "weights": rec.weights,
               "prediction_at_the_data_points": preds}
        out.update(extra or {})
        return out

    def compare(monitor, rec, preds, tols, extra=None, key=None, excused=None):
        """Decide one (fit, predict-at-the-data) pair. preds / tols: one entry per data component."""
        run.evaluated(monitor)
        if excused is not None and len(excused) == len(preds) and any(m.any() for m in excused):
            run.count("either_way:downstream_of_scipy_hull_boundary_point", int(sum(m.sum() for m in excused)))
            preds = [np.where(m, d, p) if p.shape == d.shape == m.shape else p for p, d, m in zip(preds, rec.data, excused)]
        if len(preds) != len(rec.data):
            run.violation(monitor, "predict returned %d components for %d fitted components" % (len(preds), len(rec.data)),
                          witness(rec, preds, extra), key=(key or monitor) + ":ncomp")
            return None
        worst = 0.0
        for k, (pred, datum, tol) in enumerate(zip(preds, rec.data, tols)):
            if pred.shape != datum.shape:
                run.violation(monitor, "component %d: %d predictions for %d data points" % (k, pred.size, datum.size),
                              witness(rec, preds, extra), key=(key or monitor) + ":size")
                return None
            diff = np.abs(pred - datum)
            err = float(np.max(diff)) if diff.size else 0.0
            if not err <= tol:  # NaN-safe
                where = int(np.nanargmax(np.where(np.isnan(diff), np.inf, diff)))
                run.violation(
                    monitor,
                    "component %d: prediction at fitted point %d is %r, datum %r; |difference| %.3g exceeds the tolerance %.3g"
                    % (k, where, float(pred[where]), float(datum[where]), err, tol),
                    witness(rec, preds, dict(extra or {}, tolerance=tol, max_error=err, point=where)), key=key or monitor)
                return None
            if tol > 0:
                worst = max(worst, err / tol)
        return worst

    def at_data(rec, ev):
        """
        The predictions of this call at the fitted points: (components, index) when the call was made at exactly the fitted coordinates
        (index None) or at a declared large query whose positions `index` hold the fitted points (verified here); None otherwise.
        """
        coordinates = ev.args["coordinates"]
        if rec.same_points(coordinates):
            return _components(ev.result), None
        emb = _S.embed
        if emb is None:
            return None
        try:
            qe, qn = _seq(coordinates[0]), _seq(coordinates[1])
        except Exception:  # noqa: BLE001
            return None
        idx = emb["idx"]
        if qe.size != emb["size"] or idx.size != rec.east.size or not (np.array_equal(qe[idx], rec.east) and np.array_equal(qn[idx], rec.north)):
            return None
        comps = _components(ev.result)
        if any(c.size != qe.size for c in comps):
            return comps, None  # wrong size: let the comparison report it
        run.count("judged_inside_a_large_query:" + rec.kind)
        return [c[idx] for c in comps], idx

    # -- spline family ---------------------------------------------------
    def post_spline_fit(ev):
        if ev.exc is not None:
            return
        obj, a = ev.obj, ev.args
        rec = Rec(obj, "spline", a["coordinates"], a["data"], a["weights"], {"mindist": float(obj.mindist), "damping": obj.damping}, False)
        at_data = obj.force_coords is None
        if not at_data:
            at_data, rec.forces = _forces_at_data(obj.force_coords, rec.east, rec.north)
            if at_data:
                run.count("explicit_forces_at_the_data:spline:" + ("same_order" if np.array_equal(rec.forces[0], rec.east) and np.array_equal(rec.forces[1], rec.north) else "other_order"))
        rec.exact = obj.damping is None and at_data
        rec.why = "" if rec.exact else ("damping" if obj.damping is not None else "forces not at the data")
        remember(obj, rec)

    def pre_vspline_fit(ev):
        """
        Where the documentation puts the forces of this fit: the configured force_coords, or - when None - the data of the first
        *successful* fit (they then stay there until the parameter is set again). Returns None for 'at the data of this fit'. The monitor
        tracks this over the object's history: the parameter is read from the object only when it shows a value the monitor did not see at
        the end of the previous fit call (the user re-configured it), so a fit() that raised - or anything cached at first use - cannot
        redefine the expectation.
        """
        obj = ev.args["self"]
        track = _S.vforce.get(id(obj))
        current = obj.force_coords
        if track is None or track["ref"]() is not obj or current is not track["last_seen"]:
            try:
                return {"expected": None if current is None else (_seq(current[0]), _seq(current[1]))}
            except Exception:  # noqa: BLE001
                return {"expected": (np.zeros(0), np.zeros(0))}
        return {"expected": track["expected"]}

    def post_vspline_fit(ev):
        obj, a = ev.obj, ev.args
        expected = ev.pre["expected"]
        after = expected
        if ev.exc is None and expected is None:
            try:
                after = (_seq(a["coordinates"][0]), _seq(a["coordinates"][1]))
            except Exception:  # noqa: BLE001
                after = None
        _S.vforce[id(obj)] = {"ref": weakref.ref(obj), "expected": after, "last_seen": obj.force_coords}
        if ev.exc is not None:
            run.count("fit_raised:vspline:" + type(ev.exc).__name__)
            return
        rec = Rec(obj, "vspline", a["coordinates"], a["data"], a["weights"],
                  {"mindist": float(obj.mindist), "poisson": float(obj.poisson), "damping": obj.damping}, False)
        at_data = expected is None
        if not at_data:
            at_data, rec.forces = _forces_at_data(expected, rec.east, rec.north)
            if at_data:
                run.count("explicit_forces_at_the_data:vspline:" + ("same_order" if np.array_equal(rec.forces[0], rec.east) and np.array_equal(rec.forces[1], rec.north) else "other_order"))
        rec.exact = obj.damping is None and at_data and float(obj.mindist) > 0
        rec.why = "" if rec.exact else ("damping" if obj.damping is not None else "forces not at these data (refit / given) or mindist=0")
        remember(obj, rec)

    def judge_green(ev, monitor):
        if ev.exc is not None:
            return
        rec = _lookup(ev.obj)
        if rec is None:
            run.count("predict_without_fit_record:" + monitor)
            return
        found = at_data(rec, ev)
        if found is None:
            run.count("predict_elsewhere:" + rec.kind)
            return
        if not rec.exact:
            run.count("not_exact_class:%s:%s" % (rec.kind, rec.why))
            return
        if not rec.distinct():
            run.count("skipped:duplicate_points:" + rec.kind)
            return
        if not rec.finite():
            run.count("skipped:non_finite_data:" + rec.kind)
            return
        info = _green_info(rec)
        if info["skip"]:
            run.count("skipped:%s:%s" % (rec.kind, info["skip"][:40]))
            return
        dec = _decade(info["kappa"])
        run.count("kappa_bin:%s:1e%02d" % (rec.kind, dec))
        if not info["rel_tol"] < INFORMATIVE:
            run.count("skipped:uninformative:" + rec.kind)
            return
        preds = found[0]
        tol = info["rel_tol"] * rec.scale()
        ratio = compare(monitor, rec, preds, [tol] * len(rec.data), {"kappa": info["kappa"]}, key="%s:kappa_1e%02d" % (rec.kind, dec))
        run.count("informative_kappa_bin:%s:1e%02d" % (rec.kind, dec))
        if dec >= 6:
            run.count("informative_kappa_ge_1e6:" + rec.kind)
        if ratio is not None:
            run.observe_max("err_over_tol:%s:kappa_1e%02d" % (rec.kind, dec), ratio)
            run.observe_max("err_over_tol:" + rec.kind, ratio)
            nontrivial(rec, "exact")
            if rec.weights is not None:
                run.count("weighted_exact:" + rec.kind)

    # -- nearest neighbours ------------------------------------------------
    def post_knn_fit(ev):
        if ev.exc is not None:
            return
        obj, a = ev.obj, ev.args
        declared = _S.expect.get(id(obj))
        exact = obj.k == 1 or (declared is not None and declared[0]() is obj)
        remember(obj, Rec(obj, "knn", a["coordinates"], a["data"], None,
                          {"k": obj.k, "reduction": getattr(obj.reduction, "__name__", repr(obj.reduction)),
                           "declared_default": declared is not None}, exact, "k=%r" % (obj.k,)))

    def post_knn_predict(ev):
        if ev.exc is not None:
            return
        rec = _lookup(ev.obj)
        if rec is None:
            run.count("predict_without_fit_record:knn")
            return
        found = at_data(rec, ev)
        if found is None:
            run.count("predict_elsewhere:knn")
            return
        if not rec.exact:
            run.count("not_exact_class:knn:" + rec.why)
            return
        if not rec.distinct():
            run.count("skipped:duplicate_points:knn")
            return
        if not rec.finite():
            run.count("skipped:non_finite_data:knn")
            return
        ratio = compare("knn_exact", rec, found[0], [0.0], key="knn")
        if ratio is not None:
            nontrivial(rec, "exact")

    # -- scipy gridders ----------------------------------------------------
    def post_scipy_fit(ev):
        if ev.exc is not None:
            return
        obj, a = ev.obj, ev.args
        cfg = {"class": type(obj).__name__}
        for name in ("rescale", "method", "extra_args"):
            if hasattr(obj, name):
                cfg[name] = repr(getattr(obj, name))
        remember(obj, Rec(obj, "scipy", a["coordinates"], a["data"], None, cfg, True))

    def post_scipy_predict(ev):
        if ev.exc is not None:
            return
        rec = _lookup(ev.obj)
        if rec is None:
            run.count("predict_without_fit_record:scipy")
            return
        found = at_data(rec, ev)
        if found is None:
            run.count("predict_elsewhere:scipy")
            return
        if not rec.distinct():
            run.count("skipped:duplicate_points:scipy")
            return
        preds = found[0]
        tol = _scipy_tol(rec)
        rec.excused, rec.excused_nan = None, False
        if not rec.finite():
            run.count("skipped:non_finite_data:scipy")
            return
        if len(preds) == 1 and preds[0].shape == rec.data[0].shape and HULL_BOUNDARY == "either_way":
            # geometry-only rule, evaluated lazily: a data point on the boundary of the convex hull sits on the backend's inside/outside
            # decision boundary (NaN outside) and in sliver hull triangles (barycentric coordinates lose all accuracy): either-way.
            failing = ~(np.abs(preds[0] - rec.data[0]) <= tol)
            if failing.any():
                hull = ref.convex_hull(zip(rec.east, rec.north))
                which = np.flatnonzero(failing)
                if len(hull) >= 3:
                    margin = 1e-9 * max(float(np.ptp(rec.east)), float(np.ptp(rec.north)))
                    on_edge = ref.hull_signed_distances(hull, rec.east[which], rec.north[which]) <= margin
                else:
                    on_edge = np.ones(which.size, bool)
                if on_edge.any():
                    nan_there = np.isnan(preds[0][which[on_edge]])
                    run.count("either_way:scipy_nan_on_hull_boundary", int(nan_there.sum()))
                    run.count("either_way:scipy_inaccurate_on_hull_boundary", int((~nan_there).sum()))
                    finite = np.abs(preds[0][which[on_edge]] - rec.data[0][which[on_edge]])[~nan_there]
                    if finite.size and rec.scale() > 0:
                        run.observe_max("scipy_relative_error_on_hull_boundary", float(finite.max()) / rec.scale())
                    run.sample("scipy_hull_boundary", {"config": rec.cfg, "n_points": int(rec.east.size), "points": which[on_edge],
                                                       "returned": preds[0][which[on_edge]], "data_there": rec.data[0][which[on_edge]],
                                                       "easting": rec.east, "northing": rec.north})
                    fixed = preds[0].copy()
                    fixed[which[on_edge]] = rec.data[0][which[on_edge]]
                    preds = [fixed]
                    mask = np.zeros(rec.east.size, bool)
                    mask[which[on_edge]] = True
                    rec.excused, rec.excused_nan = [mask], bool(nan_there.any())
        if len(preds) == 1 and preds[0].shape == rec.data[0].shape:
            # geometry-and-data-only rule, evaluated lazily for interior points: a finite error is within the conditioning of the triangulation
            # when the point forms a sliver with two other data points (see _sliver_bound)
            err = np.abs(preds[0] - rec.data[0])
            late = np.flatnonzero(np.isfinite(err) & ~(err <= tol))
            if late.size:
                keep = preds[0].copy()
                mask = np.zeros(rec.east.size, bool) if rec.excused is None else rec.excused[0].copy()
                for k in late:
                    bound = _sliver_bound(rec, int(k))
                    if err[k] <= bound:
                        run.count("either_way:scipy_sliver_triangle_conditioning")
                        run.observe_max("scipy_sliver_error_over_bound", float(err[k] / bound))
                        keep[k] = rec.data[0][k]
                        mask[k] = True
                if mask.any():
                    preds = [keep]
                    rec.excused = [mask]
        ratio = compare("scipy_exact", rec, preds, [tol], key="scipy:" + rec.cfg["class"])
        if ratio is not None:
            run.observe_max("err_over_tol:scipy" if rec.excused is None else "err_over_tol:scipy:clouds_with_either_way_hull_points", ratio)
            nontrivial(rec, "exact")

    # -- Trend ---------------------------------------------------------------
    def post_trend_fit(ev):
        if ev.exc is not None:
            return
        obj, a = ev.obj, ev.args
        remember(obj, Rec(obj, "trend", a["coordinates"], a["data"], a["weights"], {"degree": int(obj.degree)}, False, "Trend is not an interpolator"))

    def post_trend_predict(ev):
        if ev.exc is not None:
            return
        obj = ev.obj
        claim = _S.polys.get(id(obj))
        rec = _lookup(obj)
        if claim is None or claim["ref"]() is not obj or rec is None:
            return
        degree, deg_p, coefs = rec.cfg["degree"], claim["degree"], claim["coefs"]
        vp = ref.trend_jacobian(rec.east, rec.north, deg_p)
        terms = np.abs(vp) @ np.abs(coefs)
        if not np.all(np.abs(rec.data[0] - vp @ coefs) <= 8 * (coefs.size + 2) * EPS * terms + np.finfo("float64").tiny):
            run.count("trend_claim_not_the_fitted_data")
            return
        if deg_p > degree:
            run.count("not_promised:polynomial_degree_above_trend_degree")
            return
        ncols = len(ref.trend_exponents(degree))
        if rec.east.size < ncols:
            run.count("skipped:trend_underdetermined")
            return
        if rec.info is None:
            weights = None if rec.weights is None else rec.weights[0]
            lsq = ref.LeastSquares(ref.trend_jacobian(rec.east, rec.north, degree), rec.data[0], weights, None)
            rec.info = {"skip": lsq.skip, "kappa": lsq.cond}
        info = rec.info
        if info["skip"]:
            run.count("skipped:trend:" + info["skip"][:40])
            return
        dec = _decade(info["kappa"])
        run.count("kappa_bin:trend:1e%02d" % dec)
        rel_tol = K * info["kappa"] * EPS
        if not rel_tol < INFORMATIVE:
            run.count("skipped:uninformative:trend")
            return
        qe, qn = _seq(ev.args["coordinates"][0]), _seq(ev.args["coordinates"][1])
        pred = _seq(ev.result)
        if pred.shape != qe.shape:
            run.evaluated("trend_reproduction")
            run.violation("trend_reproduction", "predict returned %d values for %d points" % (pred.size, qe.size), {"degree": degree}, key="trend:size")
            return
        ce, cn = 0.5 * (rec.east.min() + rec.east.max()), 0.5 * (rec.north.min() + rec.north.max())
        he, hn = 0.5 * np.ptp(rec.east), 0.5 * np.ptp(rec.north)
        inside = (np.abs(qe - ce) <= 2 * he) & (np.abs(qn - cn) <= 2 * hn)
        run.count("trend_query_points_outside_twice_bbox", int((~inside).sum()))
        if not inside.any():
            return
        vq = ref.trend_jacobian(qe[inside], qn[inside], deg_p)
        want = vq @ coefs
        scale = max(float(terms.max()), float((np.abs(vq) @ np.abs(coefs)).max()))
        tol = rel_tol * scale
        err = np.abs(pred[inside] - want)
        worst = float(err.max())
        run.evaluated("trend_reproduction")
        run.count("informative_kappa_bin:trend:1e%02d" % dec)
        if dec >= 6:
            run.count("informative_kappa_ge_1e6:trend")
        if rec.same_points(ev.args["coordinates"]):
            run.count("trend_reproduction_at_the_data")
        else:
            run.count("trend_reproduction_elsewhere")
        if not worst <= tol:
            k = int(np.nanargmax(np.where(np.isnan(err), np.inf, err)))
            run.violation(
                "trend_reproduction",
                "Trend(%d) fitted to a degree-%d polynomial predicts %r at (%r, %r), the polynomial is %r; |difference| %.3g > tolerance %.3g (kappa_V %.3g)"
                % (degree, deg_p, float(pred[inside][k]), float(qe[inside][k]), float(qn[inside][k]), float(want[k]), worst, tol, info["kappa"]),
                {"degree": degree, "polynomial_degree": deg_p, "coefficients": coefs, "easting": rec.east, "northing": rec.north, "data": rec.data[0],
                 "weights": rec.weights, "query_easting": qe, "query_northing": qn, "prediction": pred, "kappa_V": info["kappa"], "tolerance": tol},
                key="trend:kappa_1e%02d" % dec)
            return
        if tol > 0:
            run.observe_max("err_over_tol:trend:kappa_1e%02d" % dec, worst / tol)
            run.observe_max("err_over_tol:trend", worst / tol)
        if rec.east.size >= 3 and np.ptp(rec.data[0]) > 0:
            run.mark_nontrivial("trend", degree, deg_p, coefs, rec.east, rec.north, qe, qn)

    # -- compositions -------------------------------------------------------
    def post_chain_fit(ev):
        if ev.exc is not None:
            return
        obj, a = ev.obj, ev.args
        exact, _ = _structure(obj)
        desc = _describe(obj)
        remember(obj, Rec(obj, "chain", a["coordinates"], a["data"], a["weights"], {"desc": desc, "steps": [s for _, s in obj.steps]}, exact,
                          "" if exact else "last step not an exact interpolator / a step without predict"))

    def step_magnitudes(ev, ncomp, idx=None):
        mags = [0.0] * ncomp
        for child in ev.children:
            if child.exc is None and child.name.endswith(".predict"):
                comps = _components(child.result)
                if idx is not None:
                    comps = [c[idx] if c.size > idx.max() else c for c in comps]
                for k in range(min(ncomp, len(comps))):
                    mags[k] += maxabs(comps[k])
        return mags

    def post_chain_predict(ev):
        if ev.exc is not None:
            return
        rec = _lookup(ev.obj)
        if rec is None:
            run.count("predict_without_fit_record:chain")
            return
        found = at_data(rec, ev)
        if found is None:
            run.count("predict_elsewhere:chain")
            return
        rec.last_tol = None
        if not rec.exact:
            run.count("not_exact_class:chain")
            return
        if not rec.distinct():
            run.count("skipped:duplicate_points:chain")
            return
        if not rec.finite():
            run.count("skipped:non_finite_data:chain")
            return
        last = rec.cfg["steps"][-1]
        tols, why = _tol_of(last)
        if tols is None:
            run.count("skipped:chain:" + str(why)[:40])
            return
        preds = found[0]
        if len(tols) != len(rec.data):
            run.count("skipped:chain:component_mismatch")
            return
        mags = step_magnitudes(ev, len(rec.data), found[1])
        total = [t + CHAIN_ROUND * EPS * max(maxabs(d), m) for t, d, m in zip(tols, rec.data, mags)]
        if any(not t < INFORMATIVE * maxabs(d) for t, d in zip(total, rec.data) if maxabs(d) > 0):
            run.count("skipped:uninformative:chain")
            return
        rec.last_tol = total
        ratio = compare("chain_exact", rec, preds, total, {"steps": rec.cfg["desc"]}, key="chain", excused=_excused(ev.obj, len(rec.data), rec.east.size))
        if ratio is not None:
            run.observe_max("err_over_tol:chain", ratio)
            run.seen("chain_structures", rec.cfg["desc"])
            nontrivial(rec, "exact")

    def post_vector_fit(ev):
        if ev.exc is not None:
            return
        obj, a = ev.obj, ev.args
        exact, _ = _structure(obj)
        remember(obj, Rec(obj, "vector", a["coordinates"], a["data"], a["weights"], {"desc": _describe(obj), "components": list(obj.components)}, exact,
                          "" if exact else "a component is not an exact interpolator"))

    def post_vector_predict(ev):
        if ev.exc is not None:
            return
        rec = _lookup(ev.obj)
        if rec is None:
            run.count("predict_without_fit_record:vector")
            return
        found = at_data(rec, ev)
        if found is None:
            run.count("predict_elsewhere:vector")
            return
        if not rec.exact:
            run.count("not_exact_class:vector")
            return
        if not rec.distinct():
            run.count("skipped:duplicate_points:vector")
            return
        if not rec.finite():
            run.count("skipped:non_finite_data:vector")
            return
        tols, why = _tol_of(ev.obj)
        if tols is None or len(tols) != len(rec.data):
            run.count("skipped:vector:" + str(why)[:40])
            return
        ratio = compare("vector_exact", rec, found[0], tols, {"components": rec.cfg["desc"]}, key="vector",
                        excused=_excused(ev.obj, len(rec.data), rec.east.size))
        if ratio is not None:
            run.observe_max("err_over_tol:vector", ratio)
            run.seen("vector_structures", rec.cfg["desc"])
            nontrivial(rec, "exact")

    def calm(fn):
        """Monitors decide under numpy's default floating-point error handling, whatever np.errstate the monitored caller runs in."""
        if fn is None:
            return None

        def hook(ev):
            with np.errstate(divide="warn", over="warn", under="ignore", invalid="warn"), warnings.catch_warnings():
                warnings.simplefilter("ignore")
                return fn(ev)
        return hook

    real_tap = tap

    class _CalmTap:
        def method(self, cls, name, post=None, pre=None, **kwargs):
            return real_tap.method(cls, name, post=calm(post), pre=calm(pre), **kwargs)

    tap = _CalmTap()
    tap.method(verde.Spline, "fit", post=post_spline_fit, documented={"weights": None})
    tap.method(verde.Spline, "predict", post=lambda ev: judge_green(ev, "spline_exact"))
    tap.method(verde.VectorSpline2D, "fit", post=post_vspline_fit, pre=pre_vspline_fit, documented={"weights": None})
    tap.method(verde.VectorSpline2D, "predict", post=lambda ev: judge_green(ev, "vspline_exact"))
    tap.method(verde.KNeighbors, "fit", post=post_knn_fit, documented={"weights": None})
    tap.method(verde.KNeighbors, "predict", post=post_knn_predict)
    tap.method(_BaseScipyGridder, "fit", post=post_scipy_fit, documented={"weights": None})
    tap.method(_BaseScipyGridder, "predict", post=post_scipy_predict)
    tap.method(verde.Trend, "fit", post=post_trend_fit, documented={"weights": None})
    tap.method(verde.Trend, "predict", post=post_trend_predict)
    tap.method(verde.Chain, "fit", post=post_chain_fit, documented={"weights": None})
    tap.method(verde.Chain, "predict", post=post_chain_predict)
    tap.method(verde.Vector, "fit", post=post_vector_fit, documented={"weights": None})
    tap.method(verde.Vector, "predict", post=post_vector_predict)


def _describe(obj):
    import verde

    if isinstance(obj, verde.Chain):
        return "Chain[" + ", ".join(_describe(s) for _, s in obj.steps) + "]"
    if isinstance(obj, verde.Vector):
        return "Vector[" + ", ".join(_describe(c) for c in obj.components) + "]"
    if isinstance(obj, verde.Trend):
        return "Trend(%s)" % obj.degree
    if isinstance(obj, verde.Spline):
        return "Spline(mindist=%g)" % float(obj.mindist) if float(obj.mindist) else "Spline()"
    if isinstance(obj, verde.VectorSpline2D):
        return "VectorSpline2D"
    if isinstance(obj, verde.KNeighbors):
        return "KNeighbors(k=%s)" % obj.k
    name = type(obj).__name__
    if hasattr(obj, "rescale"):
        return "%s(rescale=%s)" % (name, obj.rescale)
    if hasattr(obj, "method"):
        return "%s(%s)" % (name, obj.method)
    return name


# ----------------------------------------------------------------------
# workloads
# ----------------------------------------------------------------------
def _n_points(rng, lo, hi, big_share=0.35, big_lo=100):
    """Sizes spread log-uniformly, with a fixed share of large clouds (where the Green's matrices reach kappa > 1e6)."""
    if hi > big_lo and rng.random() < big_share:
        return int(rng.integers(big_lo, hi + 1))
    return int(round(gen.log_uniform(rng, lo, min(hi, max(big_lo, lo + 1)))))


def _cloud(rng, n, collinear_ok=True):
    """Pairwise-distinct points (float64, 1-D) including a collinear-plus-one layout."""
    for _ in range(20):
        if collinear_ok and n >= 3 and rng.random() < 0.06:
            scale = gen.log_uniform(rng, 1e-2, 1e6)
            off = float(rng.choice([0.0, 1.0, 30.0, 1e3]))
            t = np.sort(rng.uniform(0, 1, n - 1)) + np.arange(n - 1) * 1e-3
            t /= t.max() if t.max() > 0 else 1.0
            ang = rng.uniform(0, np.pi)
            east = np.append(t * np.cos(ang), 0.5 * np.cos(ang) - 0.4 * np.sin(ang))
            north = np.append(t * np.sin(ang), 0.5 * np.sin(ang) + 0.4 * np.cos(ang))
            east, north = (east + off) * scale, (north - off) * scale
            kind = "collinear_plus_one"
        else:
            kind = str(rng.choice(["uniform", "jitter", "clusters", "aniso"]))
            east, north = gen.cloud(rng, n, kind=kind)
        pts = np.stack([east, north], axis=1)
        if np.unique(pts, axis=0).shape[0] == n:
            return east, north, kind
    raise RuntimeError("could not generate distinct points")


class _Layout(str):
    """'1d' / '2d' plus the per-argument layout classes (first two arguments are the coordinates, the rest data components)."""
    classes = ()


def _shape(rng, arrays):
    """
    Present equal-size 1-D arrays over one logical shape (1-D or a non-square 2-D grid), each argument in an independently chosen memory layout /
    container (C, Fortran, transposed view, strided, negative strides, read-only, pandas Series): the C-order element sequence never changes.
    """
    shape = lay.logical_shape(rng, arrays[0].size, p_2d=0.55)
    out, classes = [], []
    for a in arrays:
        name, arr = lay.present(rng, a, shape)
        out.append(arr)
        classes.append(lay.layout_class(name, shape))
    layout = _Layout("%dd" % len(shape))
    layout.classes = tuple(classes)
    return layout, tuple(out)


def _count_layouts(run, layout):
    run.count("layout:logical_" + str(layout))
    for k, cls in enumerate(layout.classes):
        run.count("layout:%s:%s" % ("coordinates" if k < 2 else "data", cls))
    if len(set(layout.classes)) > 1:
        run.count("layout:arguments_in_different_layouts")
    if set(layout.classes[2:]) - set(layout.classes[:2]):
        run.count("layout:data_laid_out_differently_from_coordinates")


def _composite_size(rng, lo, hi, **kwargs):
    """A size with a non-trivial factorisation (so that 2-D layouts exist) most of the time."""
    n = _n_points(rng, lo, hi, **kwargs)
    if n >= 6 and rng.random() < 0.7 and n % 2:
        n += 1
    return n


def _ctx():
    """The floating-point error mode the caller of verde is in: numpy's default, or - stream errstate - every error raising."""
    return np.errstate(all="raise") if _S.errstate_raise else contextlib.nullcontext()


def _fit_predict(est, coords, data, rng, run, weights=None, overwrite=()):
    """
    fit, then predict at the fitted coordinates. Half of the time the caller's arrays named in *overwrite* ("coordinates",
    "data") are overwritten between fit and predict and the prediction is requested at saved copies: the fitted state that the
    documentation describes as copied (force_coords_ of the splines, tree_/data_ of KNeighbors) must not alias them.
    """
    saved = tuple(np.array(np.asarray(c), copy=True, order="K") for c in coords)
    with warnings.catch_warnings(), _ctx():
        warnings.simplefilter("ignore")
        if weights is None:
            est.fit(coords, data)
        else:
            est.fit(coords, data, weights)
        if overwrite and rng.random() < 0.5:
            run.count("caller_arrays_overwritten_after_fit")
            if "coordinates" in overwrite:
                for c in coords:
                    if isinstance(c, np.ndarray) and c.flags.writeable:
                        c += 0.37 * (np.ptp(c) or 1.0)
            if "data" in overwrite:
                for d in data if isinstance(data, tuple) else (data,):
                    if isinstance(d, np.ndarray) and d.flags.writeable:
                        d[...] = 1e3 + 2 * d
        return est.predict(saved)


FORCE_ORDERS = ("same_order", "reversed", "sorted", "shuffled", "np_unique")
FORCE_CONTAINERS = ("tuple_of_arrays", "list_of_arrays", "tuple_of_2d_arrays", "tuple_of_lists", "strided_columns")


def _forces_order(run, rng, verde, index):
    """Explicit force_coords that ARE the data points, listed in another order and held in another container: still 'forces at the data'."""
    kind = ["spline", "vspline", "chain_spline", "chain_vspline"][index % 4]
    order = FORCE_ORDERS[(index // 4) % len(FORCE_ORDERS)]
    container = FORCE_CONTAINERS[(index // 20) % len(FORCE_CONTAINERS)] if order != "np_unique" else "strided_columns"
    vector = "vspline" in kind
    n = _composite_size(rng, 6, 150 if not vector else 70, big_share=0.2, big_lo=70 if not vector else 35)
    east, north, _ = _cloud(rng, n, collinear_ok=False)
    if order == "same_order":
        idx = np.arange(n)
    elif order == "reversed":
        idx = np.arange(n)[::-1]
    elif order == "sorted":
        idx = np.lexsort((north, east)) if rng.random() < 0.5 else np.argsort(north, kind="stable")
    else:
        idx = rng.permutation(n)
    if order == "np_unique":
        unique = np.unique(np.stack([east, north], axis=1), axis=0)  # rows sorted lexicographically; the columns are strided views
        fe, fn = unique[:, 0], unique[:, 1]
    else:
        fe, fn = east[idx].copy(), north[idx].copy()
        if container == "strided_columns":
            both = np.stack([fe, fn], axis=1)
            fe, fn = both[:, 0], both[:, 1]
    if container == "list_of_arrays":
        forces = [fe, fn]
    elif container == "tuple_of_2d_arrays":
        shape = lay.logical_shape(rng, n, p_2d=1.0)
        forces = (fe.reshape(shape), np.asfortranarray(fn.reshape(shape)) if len(shape) == 2 else fn.reshape(shape))
    elif container == "tuple_of_lists":
        forces = (fe.tolist(), fn.tolist())
    else:
        forces = (fe, fn)
    spacing = np.hypot(np.ptp(east), np.ptp(north)) / np.sqrt(n)
    with warnings.catch_warnings():
        warnings.simplefilter("ignore")
        if vector:
            comps = (_field(run, rng, east, north), _field(run, rng, east, north))
            est = verde.VectorSpline2D(poisson=float(rng.uniform(-1, 1)), mindist=float(spacing * gen.log_uniform(rng, 1e-2, 1.5)), force_coords=forces)
            whole = est if kind == "vspline" else verde.Chain([("trend", verde.Vector([verde.Trend(int(rng.integers(0, 2))) for _ in range(2)])), ("interp", est)])
        else:
            comps = (_field(run, rng, east, north),)
            est = verde.Spline(force_coords=forces) if rng.random() < 0.6 else verde.Spline(mindist=float(spacing * gen.log_uniform(rng, 1e-3, 0.3)), force_coords=forces)
            whole = est if kind == "spline" else verde.Chain([("trend", verde.Trend(int(rng.integers(0, 3)))), ("interp", est)])
    layout, shaped = _shape(rng, (east, north) + comps)
    _count_layouts(run, layout)
    data = tuple(shaped[2:]) if vector else shaped[2]
    pred = _fit_predict(whole, (shaped[0], shaped[1]), data, rng, run)
    run.count("forces_order:%s:%s" % (kind, order))
    run.count("forces_container:" + container)
    rec = _lookup(est)
    run.sample("forces_order", {"estimator": _describe(whole), "order": order, "container": container, "n": n, "easting": east, "northing": north,
                                "force_easting": fe, "force_northing": fn, "kappa": None if rec is None or rec.info is None else rec.info.get("kappa")})
    return pred


SPELLINGS = {
    "knn_k": [np.int64(1), np.int32(1), np.int8(1), np.uint8(1)],
    "spline_mindist": ["int", "np.int64", "np.float32", "0-d array"],
    "vspline_poisson": [0, -1, 1, np.int64(0), np.int64(-1), np.float32(0.5), np.array(0.25), np.array(1)],
    "vspline_mindist": ["int", "np.int64", "np.float32", "0-d array"],
    "trend_degree": [np.int64, np.int32, np.uint8, "0-d array"],
    "scipy_rescale": [np.True_, np.False_, 1, 0],
}


def _spell(value, how):
    if how == "int":
        return int(value)
    if how == "np.int64":
        return np.int64(value)
    if how == "np.float32":
        return np.float32(value)
    return np.array(float(value))


def _spellings(run, rng, verde, index):
    """The same scalar parameter value written as Python int / numpy integer / numpy floating / 0-d array: the model must not change."""
    names = sorted(SPELLINGS)
    name = names[index % len(names)]
    options = SPELLINGS[name]
    option = options[(index // len(names)) % len(options)]
    n = _composite_size(rng, 6, 120, big_share=0.15, big_lo=60)
    scale = float(rng.choice([30.0, 100.0, 1e3, 1e4]))  # mean spacings of a few units, so that integer mindist values are sensible
    east, north = gen.cloud(rng, n, scale=scale * np.sqrt(n) / 10, offset_factor=float(rng.choice([0.0, 1.0])))
    spacing = np.hypot(np.ptp(east), np.ptp(north)) / np.sqrt(n)
    comps = (_field(run, rng, east, north),)
    claim = None
    with warnings.catch_warnings():
        warnings.simplefilter("ignore")
        if name == "knn_k":
            est = verde.KNeighbors(k=option, reduction=[np.mean, np.median][int(rng.integers(0, 2))])
            label = type(option).__name__
        elif name == "spline_mindist":
            value = max(1, int(round(spacing * rng.uniform(0.05, 0.4))))
            est = verde.Spline(mindist=_spell(value, option))
            label = option
        elif name == "vspline_poisson":
            comps = comps + (_field(run, rng, east, north),)
            est = verde.VectorSpline2D(poisson=option, mindist=float(spacing * gen.log_uniform(rng, 0.1, 1.5)))
            label = "%s(%s)" % (type(option).__name__, np.asarray(option).item())
        elif name == "vspline_mindist":
            comps = comps + (_field(run, rng, east, north),)
            value = max(1, int(round(spacing * rng.uniform(0.2, 1.2))))
            est = verde.VectorSpline2D(poisson=float(rng.uniform(-1, 1)), mindist=_spell(value, option))
            label = option
        elif name == "trend_degree":
            degree = int(rng.integers(0, 5))
            est = verde.Trend(np.array(degree) if option == "0-d array" else option(degree))
            vp = ref.trend_jacobian(east, north, degree)
            mags = np.max(np.abs(vp), axis=0)
            coefs = gen.log_uniform(rng, 1e-3, 1e6) * rng.normal(size=vp.shape[1]) / np.where(mags > 0, mags, 1.0)
            comps = (vp @ coefs,)
            claim = {"degree": degree, "coefs": coefs, "ref": weakref.ref(est)}
            _S.polys[id(est)] = claim
            label = option if isinstance(option, str) else option.__name__
        else:
            est = (verde.Linear if rng.random() < 0.5 else verde.Cubic)(rescale=option)
            label = type(option).__name__ + "(%s)" % bool(option)
    run.count("spelling:%s:%s" % (name, label))
    layout, shaped = _shape(rng, (east, north) + comps)
    _count_layouts(run, layout)
    data = tuple(shaped[2:]) if len(comps) > 1 else shaped[2]
    _fit_predict(est, (shaped[0], shaped[1]), data, rng, run)
    if claim is not None:
        with warnings.catch_warnings():
            warnings.simplefilter("ignore")
            est.predict((rng.uniform(east.min(), east.max(), 15), rng.uniform(north.min(), north.max(), 15)))
    run.sample("spellings", {"parameter": name, "spelling": label, "estimator": _describe(est), "n": n})


HISTORY_KINDS = ("spline", "vspline", "knn", "linear", "cubic", "trend", "chain", "vector")
HISTORY_MODES = ("refit_after_use", "refit_directly", "refit_same_arrays_new_contents", "reconfigure_after_use", "reconfigure_before_use",
                 "error_then_fit")


def _history(run, rng, verde, index):
    """
    Object life-cycle histories: the same estimator object is fitted again - after being used, with its caller's buffers re-used,
    after its parameters were changed, after a fit() that raised. Every fit / predict is judged by the monitors against THAT fit.
    """
    kind = HISTORY_KINDS[index % len(HISTORY_KINDS)]
    mode = HISTORY_MODES[(index // len(HISTORY_KINDS)) % len(HISTORY_MODES)]
    run.count("history:%s:%s" % (mode, kind))
    ncomp = {"vspline": 2, "vector": 2}.get(kind, 1)
    n = _composite_size(rng, 6, 150 if kind != "vspline" else 70, big_share=0.15, big_lo=70 if kind != "vspline" else 35)

    def problem(size, degree=None):
        east, north, _ = _cloud(rng, size, collinear_ok=False)
        if kind == "trend":
            deg_p = int(rng.integers(0, degree + 1))
            vp = ref.trend_jacobian(east, north, deg_p)
            mags = np.max(np.abs(vp), axis=0)
            coefs = gen.log_uniform(rng, 1e-3, 1e6) * rng.normal(size=vp.shape[1]) / np.where(mags > 0, mags, 1.0)
            return east, north, (vp @ coefs,), {"degree": deg_p, "coefs": coefs}
        return east, north, tuple(_field(run, rng, east, north) for _ in range(ncomp)), None

    def spacing_of(east, north):
        return float(np.hypot(np.ptp(east), np.ptp(north)) / np.sqrt(east.size)) or 1.0

    def exact_params(east, north):
        """Parameters of an exact configuration of the kind."""
        if kind == "spline":
            return {"damping": None, "force_coords": None, "mindist": 0 if rng.random() < 0.5 else spacing_of(east, north) * gen.log_uniform(rng, 1e-3, 0.5)}
        if kind == "vspline":
            return {"damping": None, "force_coords": None, "poisson": float(rng.uniform(-1, 1)), "mindist": spacing_of(east, north) * gen.log_uniform(rng, 1e-2, 1.5)}
        if kind == "knn":
            return {"k": 1, "reduction": [np.mean, np.median, np.max][int(rng.integers(0, 3))]}
        if kind in ("linear", "cubic"):
            return {"rescale": bool(rng.random() < 0.5)}
        return {}

    def other_params(east, north):
        """Another configuration of the kind (exact or not): what the object is used with before it is re-configured."""
        if kind == "spline":
            m = max(2, east.size // 2)
            return {"damping": [None, 1e-3, 10.0][int(rng.integers(0, 3))], "mindist": spacing_of(east, north) * gen.log_uniform(rng, 1e-2, 1.0),
                    "force_coords": None if rng.random() < 0.5 else (east[:m] + 0.1 * spacing_of(east, north), north[:m].copy())}
        if kind == "vspline":
            m = max(2, east.size // 2)
            return {"damping": [None, 1e-2][int(rng.integers(0, 2))], "poisson": float(rng.uniform(-1, 1)), "mindist": spacing_of(east, north) * gen.log_uniform(rng, 1e-2, 2.0),
                    "force_coords": None if rng.random() < 0.5 else (east[:m] + 0.1 * spacing_of(east, north), north[:m].copy())}
        if kind == "knn":
            return {"k": int(rng.integers(1, 5)), "reduction": [np.mean, np.median, np.min][int(rng.integers(0, 3))]}
        if kind in ("linear", "cubic"):
            return {"rescale": bool(rng.random() < 0.5)}
        return {}

    def build(params, degree=None):
        with warnings.catch_warnings():
            warnings.simplefilter("ignore")
            if kind == "spline":
                est = verde.Spline(damping=params["damping"], force_coords=params["force_coords"])
                est.mindist = params["mindist"]
                return est
            if kind == "vspline":
                return verde.VectorSpline2D(**params)
            if kind == "knn":
                return verde.KNeighbors(**params)
            if kind == "linear":
                return verde.Linear(**params)
            if kind == "cubic":
                return verde.Cubic(**params)
            if kind == "trend":
                return verde.Trend(degree)
            if kind == "chain":
                return verde.Chain([("trend", verde.Trend(int(rng.integers(0, 3)))), ("interp", _exact_scalar(rng, verde, n, *first[:2]))])
            return verde.Vector([_exact_scalar(rng, verde, n, *first[:2]) for _ in range(ncomp)])

    def configure(est, params):
        if not params:
            return
        if rng.random() < 0.5:
            est.set_params(**params)
            run.count("history:via_set_params")
        else:
            for name, value in params.items():
                setattr(est, name, value)
            run.count("history:via_attribute_assignment")

    def fit(est, prob, same=None):
        east, north, comps, claim = prob
        if claim is not None:
            _S.polys[id(est)] = dict(claim, ref=weakref.ref(est))
        if same is None:
            layout, shaped = _shape(rng, (east, north) + comps)
            _count_layouts(run, layout)
        else:
            shaped = same
        data = tuple(shaped[2:]) if ncomp > 1 else shaped[2]
        with warnings.catch_warnings():
            warnings.simplefilter("ignore")
            est.fit((shaped[0], shaped[1]), data)
        return shaped

    def finish(est, prob, shaped):
        """predict at the fitted points (own copies) and somewhere else."""
        east, north = prob[0], prob[1]
        with warnings.catch_warnings():
            warnings.simplefilter("ignore")
            est.predict((np.array(np.asarray(shaped[0]), copy=True), np.array(np.asarray(shaped[1]), copy=True)))
            est.predict((rng.uniform(east.min(), east.max(), 12), rng.uniform(north.min(), north.max(), 12)))

    def use(est, prob, shaped):
        choice = str(rng.choice(["predict_data", "predict_elsewhere", "grid", "filter", "score", "nothing"]))
        run.count("history:use:" + choice)
        east, north = prob[0], prob[1]
        data = tuple(shaped[2:]) if ncomp > 1 else shaped[2]
        with warnings.catch_warnings():
            warnings.simplefilter("ignore")
            if choice == "predict_data":
                est.predict((shaped[0], shaped[1]))
            elif choice == "predict_elsewhere":
                est.predict((rng.uniform(east.min(), east.max(), 9), rng.uniform(north.min(), north.max(), 9)))
            elif choice == "grid":
                est.grid(shape=(int(rng.integers(3, 7)), int(rng.integers(3, 7))))
            elif choice == "filter":
                est.filter((shaped[0], shaped[1]), data)
            elif choice == "score":
                est.score((shaped[0], shaped[1]), data)

    degree1 = int(rng.integers(0, 5))
    degree2 = int(rng.choice([d for d in range(5) if d != degree1]))
    first = problem(n, degree1)
    how = str(rng.choice(["smaller", "equal", "larger"]))
    n2 = {"smaller": max(6, int(n * rng.uniform(0.3, 0.8))), "equal": n, "larger": int(n * rng.uniform(1.3, 2.2)) + 1}[how]
    if kind == "trend":
        n, n2 = max(n, 16), max(n2, 16)
        first = problem(n, degree1)
    second = problem(n2, degree2 if mode.startswith("reconfigure") else degree1)
    import scipy.spatial

    try:
        if mode in ("refit_after_use", "refit_directly"):
            est = build(exact_params(first[0], first[1]), degree1)
            shaped = fit(est, first)
            if mode == "refit_after_use":
                use(est, first, shaped)
            if kind == "vspline":
                if rng.random() < 0.75:
                    est.set_params(force_coords=None)  # forces at the data of the next fit again
                    run.count("history:vspline_forces_reset_before_refit")
                else:
                    run.count("history:vspline_refit_keeps_first_forces(not_exact,documented)")
            run.count("history:size_change:" + how)
            shaped = fit(est, second)
            finish(est, second, shaped)
        elif mode == "refit_same_arrays_new_contents":
            est = build(exact_params(first[0], first[1]), degree1)
            again = problem(n, degree1)
            shape = lay.logical_shape(rng, n)
            buffers = tuple(np.array(a.reshape(shape), order="C", copy=True) for a in (first[0], first[1]) + first[2])
            fit(est, first, same=buffers)
            use(est, first, buffers)
            for target, source in zip(buffers, (again[0], again[1]) + again[2]):
                target[...] = source.reshape(shape)  # the caller re-uses its buffers: same objects (same id), new contents
            if kind == "vspline":
                est.set_params(force_coords=None)
            fit(est, again, same=buffers)
            finish(est, again, buffers)
        elif mode in ("reconfigure_after_use", "reconfigure_before_use"):
            est = build(other_params(first[0], first[1]), degree1)
            if mode == "reconfigure_after_use":
                shaped = fit(est, (first[0], first[1], first[2], None) if kind == "trend" else first)
                use(est, first, shaped)
            elif kind in ("spline", "vspline", "trend") and rng.random() < 0.5:
                with warnings.catch_warnings():
                    warnings.simplefilter("ignore")
                    if kind == "trend":
                        est.jacobian((first[0], first[1]))
                    else:
                        est.jacobian((first[0], first[1]), (first[0], first[1]))
            target = second
            if kind == "trend":
                configure(est, {"degree": degree2})
                run.count("history:trend_degree_" + ("up" if degree2 > degree1 else "down"))
            elif kind in ("chain", "vector"):  # parameters changed through the held instances
                held = [s for _, s in est.steps] if kind == "chain" else list(est.components)
                for member in held:
                    if isinstance(member, verde.Trend):
                        member.set_params(degree=int(rng.choice([d for d in range(3) if d != member.degree])))
                    elif isinstance(member, verde.Spline):
                        member.mindist = spacing_of(target[0], target[1]) * gen.log_uniform(rng, 1e-3, 0.3)
                    elif isinstance(member, (verde.Linear, verde.Cubic)):
                        member.set_params(rescale=not member.rescale)
                    elif isinstance(member, verde.KNeighbors):
                        member.set_params(reduction=np.median)
                run.count("history:held_instances_reconfigured")
            else:
                configure(est, exact_params(target[0], target[1]))
            run.count("history:size_change:" + how)
            shaped = fit(est, target)
            finish(est, target, shaped)
        elif mode == "error_then_fit":
            est = build(exact_params(second[0], second[1]), degree1)
            east, north, comps, _ = first
            which = str(rng.choice(["data_shape", "coordinate_shape"]))
            if kind == "vspline" and (index // (len(HISTORY_KINDS) * len(HISTORY_MODES))) % 2 == 0:
                which = "components"
            bad_coords = (east, north[:-1]) if which == "coordinate_shape" else (east, north)
            bad = tuple(c[:-1] for c in comps) if which == "data_shape" else comps
            if which == "components":
                bad = (comps[0], comps[1], comps[0]) if rng.random() < 0.5 else (comps[0],)
            try:
                with warnings.catch_warnings():
                    warnings.simplefilter("ignore")
                    est.fit(bad_coords, bad if (ncomp > 1 or which == "components") else bad[0])
                run.count("history:error_path:%s:accepted" % which)
            except ValueError:
                run.count("history:error_path:%s:ValueError" % which)
            run.count("history:size_change:" + how)
            shaped = fit(est, second)
            finish(est, second, shaped)
    except scipy.spatial.QhullError:
        run.count("refused:qhull")
        return
    run.sample("history", {"mode": mode, "kind": kind, "estimator": _describe(est), "n_first": n, "n_second": n2})


ERRSTATE_BASES = ("spline", "vspline", "knn", "scipy", "chain", "vector", "trend_poly", "forces_order")
LARGE_KINDS = ("knn", "chain_knn", "vector_knn", "spline", "vspline", "linear", "cubic", "chain_spline")
LARGE_SHAPES = ((131073,), (200000,), (400, 400), (450, 600))   # more than 2**17 points in one predict call


CLOSE_KINDS = ("knn", "vector_knn", "chain_knn", "linear", "cubic", "spline")


def _close_pairs(run, rng, verde, index):
    """
    Distinct points whose mutual distance is far below the float32 resolution of their coordinates (repeated measurements next to each other in
    projected coordinates): float64 positions tell the members of a pair apart, so every datum must be reproduced at its own location.
    """
    kind = CLOSE_KINDS[index % len(CLOSE_KINDS)]
    regime = ["magnitude_1e9", "utm"][(index // len(CLOSE_KINDS)) % 2]
    if regime == "magnitude_1e9":
        extent = 1e6
        off_e, off_n = 1e9 * rng.choice([-1, 1]), 1e9 * rng.uniform(0.3, 1.0) * rng.choice([-1, 1])
        sep = float(rng.uniform(5, 25))          # float32 spacing at 1e9 is 64
    else:
        extent = gen.log_uniform(rng, 1e3, 1e5)
        off_e, off_n = 5e5 + rng.uniform(-2e5, 2e5), 7.5e6 + rng.uniform(-5e5, 5e5)
        sep = float(rng.uniform(0.01, 0.03))     # float32 spacing at 5e5 is 0.03 - 0.06, at 7.5e6 it is 0.5
    if kind == "spline":  # keep the Green's matrix informative: a smaller survey, the pair still inside one float32 cell of its coordinates
        if regime == "magnitude_1e9":
            extent = 1e5
        else:
            extent = gen.log_uniform(rng, 1e2, 1e3)
            sep = float(rng.uniform(0.1, 0.3))   # separated along northing only (float32 spacing 0.5 at 7.5e6)
    big = kind in ("knn", "vector_knn", "chain_knn")
    n_base = int(rng.integers(300, 640)) if big and rng.random() < 0.5 else int(rng.integers(20, 90))
    side = int(np.ceil(np.sqrt(n_base)))
    gx, gy = np.meshgrid(np.arange(side), np.arange(side))
    pick = rng.permutation(side * side)[:n_base]
    be = (gx.ravel()[pick] + 0.5 + rng.uniform(-0.3, 0.3, n_base)) / side * extent  # well separated base points
    bn = (gy.ravel()[pick] + 0.5 + rng.uniform(-0.3, 0.3, n_base)) / side * extent
    n_pairs = max(2, int(n_base * rng.uniform(0.1, 0.3)))
    who = rng.choice(n_base, n_pairs, replace=False)
    ang = rng.uniform(0, 2 * np.pi, n_pairs) if not (kind == "spline" and regime == "utm") else np.full(n_pairs, np.pi / 2)
    east = np.concatenate([be, be[who] + sep * np.cos(ang)]) + off_e
    north = np.concatenate([bn, bn[who] + sep * np.sin(ang)]) + off_n
    n = east.size
    order = rng.permutation(n)
    partner = np.full(n, -1)
    partner[who], partner[n_base:] = np.arange(n_base, n), who
    if np.unique(np.stack([east, north], axis=1), axis=0).shape[0] != n:
        run.count("skipped:close_pairs_not_distinct_in_float64")
        return
    merged32 = n - np.unique(np.stack([east.astype("float32"), north.astype("float32")], axis=1), axis=0).shape[0]
    ncomp = 2 if kind == "vector_knn" else 1
    comps = []
    for _ in range(ncomp):
        d = _field(run, rng, east, north)
        spread = float(np.ptp(d)) or 1.0
        d[n_base:] = d[who] + spread * rng.uniform(0.5, 1.5, n_pairs) * rng.choice([-1, 1], n_pairs)  # the two members of a pair clearly differ
        comps.append(d[order])
    east, north = east[order], north[order]
    with warnings.catch_warnings():
        warnings.simplefilter("ignore")
        knn = lambda: verde.KNeighbors(k=1, reduction=[np.mean, np.median][int(rng.integers(0, 2))])  # noqa: E731
        if kind == "knn":
            est = knn() if rng.random() < 0.5 else verde.KNeighbors()
            if est.k == 1:
                _S.expect[id(est)] = (weakref.ref(est), "KNeighbors() - the documented default is k=1")
        elif kind == "vector_knn":
            est = verde.Vector([knn(), knn()])
        elif kind == "chain_knn":
            est = verde.Chain([("trend", verde.Trend(int(rng.integers(0, 2)))), ("interp", knn())])
        elif kind == "linear":
            est = verde.Linear(rescale=bool(rng.random() < 0.5))
        elif kind == "cubic":
            est = verde.Cubic(rescale=bool(rng.random() < 0.5))
        else:
            est = verde.Spline()
    layout, shaped = _shape(rng, (east, north) + tuple(comps))
    _count_layouts(run, layout)
    data = tuple(shaped[2:]) if ncomp > 1 else shaped[2]
    import scipy.spatial

    try:
        _fit_predict(est, (shaped[0], shaped[1]), data, rng, run)
    except scipy.spatial.QhullError:
        run.count("refused:qhull")
        return
    run.count("close_pairs:%s:%s" % (regime, kind))
    run.count("close_pairs:points_merged_in_float32", int(merged32))
    rec = _lookup(est)
    if kind == "spline" and rec is not None and rec.info is not None and not rec.info.get("skip"):
        run.count("close_pairs:spline:" + ("informative" if rec.info.get("rel_tol", 1.0) < INFORMATIVE else "uninformative"))
    run.sample("close_pairs:" + regime, {"estimator": _describe(est), "regime": regime, "n": n, "pairs": n_pairs, "separation": sep,
                                         "points_merged_in_float32": int(merged32), "easting": east, "northing": north, "data": comps[0]})


GRID_GEOMETRIES = ("interior_jitter", "regular", "scattered_2d", "ij_meshgrid", "row_vector", "column_vector", "rotated", "sheared")
GRID_KINDS = ("spline", "knn", "linear", "cubic", "vspline", "trend", "chain_trend_spline", "vector")


def _grid_like(run, rng, verde, index):
    """
    Coordinates given as 2-D arrays that look like a regular grid on their border but are not one inside (and other 2-D point layouts): the
    estimators are documented for arbitrary point sets of any array shape, so the prediction at the fitted 2-D points must reproduce the
    data and equal the prediction for the same points passed raveled to 1-D.
    """
    geometry = GRID_GEOMETRIES[index % len(GRID_GEOMETRIES)]
    kind = GRID_KINDS[(index // len(GRID_GEOMETRIES) + index) % len(GRID_KINDS)]
    rows, cols = int(rng.integers(4, 13)), int(rng.integers(4, 15))
    if rows == cols:
        cols += 1
    if kind == "vspline":
        rows, cols = min(rows, 8), min(cols, 9)
    scale = gen.log_uniform(rng, 1e-2, 1e6)
    offset = float(rng.choice([0.0, 1.0, 30.0])) * scale
    xs = np.sort(rng.uniform(0, 1, cols)) * 0.5 + np.arange(cols)  # uneven but well separated grid lines
    ys = (np.sort(rng.uniform(0, 1, rows)) * 0.5 + np.arange(rows)) * rng.uniform(0.5, 2.0)
    gx, gy = np.meshgrid(xs, ys)
    if geometry == "interior_jitter":  # first / last row and column untouched, interior nodes moved off the grid lines by 10-40 % of the spacing
        jitter = rng.uniform(0.1, 0.4, (2,) + gx.shape) * rng.choice([-1, 1], (2,) + gx.shape)
        gx[1:-1, 1:-1] += jitter[0][1:-1, 1:-1]
        gy[1:-1, 1:-1] += jitter[1][1:-1, 1:-1] * (ys[1] - ys[0])
    elif geometry == "scattered_2d":
        e1, n1, _ = _cloud(rng, rows * cols, collinear_ok=False)
        gx, gy = (e1 - e1.min()).reshape(rows, cols) / (np.ptp(e1) or 1) * cols, (n1 - n1.min()).reshape(rows, cols) / (np.ptp(n1) or 1) * rows
    elif geometry == "ij_meshgrid":
        gx, gy = np.meshgrid(xs, ys, indexing="ij")
    elif geometry in ("row_vector", "column_vector"):  # a list of scattered points as (1, n) / (n, 1) arrays whose end points share a coordinate
        npts = rows * cols
        px, py = rng.uniform(0, cols, npts), rng.uniform(0, rows, npts)
        which = int(rng.integers(0, 3))
        if which in (0, 2):
            px[-1] = px[0]
        if which in (1, 2):
            py[-1] = py[0]
            if which == 2:
                py[-1] = py[0] + 1.0  # same easting, different northing: still distinct points
        shape = (1, npts) if geometry == "row_vector" else (npts, 1)
        gx, gy = px.reshape(shape), py.reshape(shape)
    elif geometry == "rotated":
        ang = rng.uniform(0.05, np.pi / 2 - 0.05)
        gx, gy = gx * np.cos(ang) - gy * np.sin(ang), gx * np.sin(ang) + gy * np.cos(ang)
    elif geometry == "sheared":
        gx = gx + rng.uniform(0.2, 0.9) * gy
    east = np.ascontiguousarray(gx * scale + offset)
    north = np.ascontiguousarray(gy * scale - offset)
    pts = np.stack([east.ravel(), north.ravel()], axis=1)
    if np.unique(pts, axis=0).shape[0] != pts.shape[0]:
        run.count("skipped:grid_like_duplicate_points")
        return
    vector = kind in ("vspline", "vector")
    flat_e, flat_n = east.ravel(), north.ravel()
    claim = None
    spacing = float(np.hypot(np.ptp(flat_e), np.ptp(flat_n)) / np.sqrt(flat_e.size))
    with warnings.catch_warnings():
        warnings.simplefilter("ignore")
        if kind == "trend":
            degree = int(rng.integers(1, 4))
            vp = ref.trend_jacobian(flat_e, flat_n, degree)
            mags = np.max(np.abs(vp), axis=0)
            coefs = gen.log_uniform(rng, 1e-3, 1e6) * rng.normal(size=vp.shape[1]) / np.where(mags > 0, mags, 1.0)
            comps = ((vp @ coefs).reshape(east.shape),)
            est = verde.Trend(degree)
            claim = {"degree": degree, "coefs": coefs, "ref": weakref.ref(est)}
            _S.polys[id(est)] = claim
        else:
            comps = tuple(_field(run, rng, flat_e, flat_n).reshape(east.shape) for _ in range(2 if vector else 1))
            if kind == "spline":
                est = verde.Spline() if rng.random() < 0.6 else verde.Spline(mindist=spacing * gen.log_uniform(rng, 1e-3, 0.3))
            elif kind == "knn":
                est = verde.KNeighbors(k=1, reduction=[np.mean, np.median][int(rng.integers(0, 2))])
            elif kind == "linear":
                est = verde.Linear(rescale=bool(rng.random() < 0.5))
            elif kind == "cubic":
                est = verde.Cubic(rescale=bool(rng.random() < 0.5))
            elif kind == "vspline":
                est = verde.VectorSpline2D(poisson=float(rng.uniform(-1, 1)), mindist=spacing * gen.log_uniform(rng, 0.1, 1.5))
            elif kind == "chain_trend_spline":
                est = verde.Chain([("trend", verde.Trend(int(rng.integers(0, 3)))), ("interp", verde.Spline())])
            else:
                est = verde.Vector([verde.Spline(), verde.KNeighbors(k=1)])
        data = comps if vector else comps[0]
        try:
            est.fit((east, north), data)
            pred_2d = est.predict((east.copy(), north.copy()))
            pred_1d = est.predict((flat_e.copy(), flat_n.copy()))
        except Exception as exc:  # noqa: BLE001
            import scipy.spatial

            if isinstance(exc, scipy.spatial.QhullError):
                run.count("refused:qhull")
                return
            raise
    run.count("grid_like:%s:%s" % (geometry, kind))
    run.count("grid_like:" + geometry)
    p2 = [np.asarray(c, dtype="float64") for c in (pred_2d if isinstance(pred_2d, tuple) else (pred_2d,))]
    p1 = [np.asarray(c, dtype="float64") for c in (pred_1d if isinstance(pred_1d, tuple) else (pred_1d,))]
    run.evaluated("shape_independence")
    problem = None
    if len(p2) != len(p1) or any(a.shape != east.shape for a in p2):
        problem = "prediction for 2-D coordinates of shape %s has shapes %s" % (east.shape, [a.shape for a in p2])
    else:
        scale_of = max(max(float(np.max(np.abs(c))) for c in comps), max(float(np.nanmax(np.abs(a))) if np.isfinite(a).any() else 0.0 for a in p1))
        tol = 1e-9 * scale_of  # same points, same element sequence: the container must not matter (the arithmetic is the same, so far below any fit tolerance)
        worst = 0.0
        for a, b in zip(p2, p1):
            same_nan = np.isnan(a.ravel()) == np.isnan(b)
            diff = np.abs(np.where(np.isnan(b), 0.0, a.ravel() - b))
            if not same_nan.all() or not float(diff.max()) <= tol:
                worst = float(np.nanmax(diff)) if same_nan.all() else np.inf
                problem = "prediction at the %s points given as %s arrays differs from the prediction at the same points raveled to 1-D by %.3g (tolerance %.3g)" % (
                    geometry, "x".join(str(v) for v in east.shape), worst, tol)
                break
    if problem:
        run.violation("shape_independence", "%s: %s" % (_describe(est), problem),
                      {"geometry": geometry, "estimator": _describe(est), "easting": east, "northing": north, "data": [c for c in comps],
                       "prediction_2d": p2, "prediction_1d": p1}, key="grid_like:%s:%s" % (geometry, kind))
    else:
        run.mark_nontrivial("grid_like", geometry, kind, east, north, [c for c in comps])
    run.sample("grid_like:" + geometry, {"geometry": geometry, "estimator": _describe(est), "shape": list(east.shape), "easting": east, "northing": north})


def _large_predict(run, rng, verde, index):
    """One predict call on more than 2**17 points; the fitted points sit at declared positions of the query and are judged there."""
    kind = LARGE_KINDS[index % len(LARGE_KINDS)]
    shape = LARGE_SHAPES[(index + index // len(LARGE_KINDS)) % len(LARGE_SHAPES)]
    total = int(np.prod(shape))
    vector = kind in ("vspline", "vector_knn")
    n = int(rng.integers(20, 60 if kind == "vspline" else 120))
    east, north, _ = _cloud(rng, n, collinear_ok=False)
    comps = tuple(_field(run, rng, east, north) for _ in range(2 if vector else 1))
    spacing = np.hypot(np.ptp(east), np.ptp(north)) / np.sqrt(n)
    with warnings.catch_warnings():
        warnings.simplefilter("ignore")
        knn = lambda: verde.KNeighbors(k=1, reduction=[np.mean, np.median][int(rng.integers(0, 2))])  # noqa: E731
        if kind == "knn":
            est = knn()
        elif kind == "chain_knn":
            est = verde.Chain([("trend", verde.Trend(int(rng.integers(0, 3)))), ("interp", knn())])
        elif kind == "vector_knn":
            est = verde.Vector([knn(), verde.Chain([("trend", verde.Trend(1)), ("interp", knn())])])
        elif kind == "spline":
            est = verde.Spline()
        elif kind == "vspline":
            est = verde.VectorSpline2D(poisson=float(rng.uniform(-1, 1)), mindist=float(spacing * gen.log_uniform(rng, 0.1, 1.5)))
        elif kind == "linear":
            est = verde.Linear(rescale=bool(rng.random() < 0.5))
        elif kind == "cubic":
            est = verde.Cubic(rescale=bool(rng.random() < 0.5))
        else:
            est = verde.Chain([("trend", verde.Trend(int(rng.integers(0, 3)))), ("interp", verde.Spline())])
        est.fit((east, north), comps if vector else comps[0])
        qe = rng.uniform(east.min(), east.max(), total)
        qn = rng.uniform(north.min(), north.max(), total)
        idx = rng.choice(total, n, replace=False)
        special = [p for p in dict.fromkeys((total - 1, 131072, 0, 131071, total - 2)) if p not in idx][:3]
        idx[:len(special)] = special  # fitted points in the very last positions and right at the 2**17 boundary
        qe[idx], qn[idx] = east, north
        _S.embed = {"size": total, "idx": idx}
        order = "F" if len(shape) == 2 and rng.random() < 0.3 else "C"
        query = (np.array(qe.reshape(shape), order=order), np.array(qn.reshape(shape), order=order))
        pred = est.predict(query)
    run.count("large_predict:%s:%s" % (kind, "x".join(str(v) for v in shape)))
    first = pred[0] if isinstance(pred, tuple) else pred
    run.sample("large_predict", {"estimator": _describe(est), "query_shape": list(shape), "n_data": n, "positions_of_the_data_in_the_query": idx,
                                 "data": comps[0], "prediction_there": np.asarray(first).ravel()[idx]})


def run_case(run, tap, stream, index, rng):
    import scipy.spatial
    import verde

    if stream == "errstate":
        # a caller that has numpy's floating-point errors set to raise: the same exact-interpolation workloads inside np.errstate(all="raise")
        base = ERRSTATE_BASES[index % len(ERRSTATE_BASES)]
        run.count("errstate_raise:" + base)
        _S.errstate_raise = True
        try:
            return run_case(run, tap, base, 7 + index // len(ERRSTATE_BASES), rng)
        finally:
            _S.errstate_raise = False

    _S.records.clear()
    _S.polys.clear()
    _S.expect.clear()
    _S.vforce.clear()
    _S.embed = None

    if stream == "spline":
        n = _composite_size(rng, 3, 400)
        if index % 10 == 0:
            n = int(rng.integers(1, 4))
        east, north, kind = _cloud(rng, n)
        data = _field(run, rng, east, north)
        mindist = None
        if rng.random() < 0.35:
            spacing = np.hypot(np.ptp(east), np.ptp(north)) / np.sqrt(n)
            mindist = float(spacing * gen.log_uniform(rng, 1e-3, 1.0))
        layout, (e, nn, d) = _shape(rng, (east, north, data))
        weights = None
        if rng.random() < 0.1:
            weights = lay.present(rng, gen.log_uniform(rng, 1e-1, 10.0) * 10 ** rng.uniform(-1, 1, n), np.shape(d))[1]
        with warnings.catch_warnings():
            warnings.simplefilter("ignore")
            est = verde.Spline(mindist=mindist) if mindist is not None else verde.Spline()
        pred = _fit_predict(est, (e, nn), d, rng, run, weights, overwrite=("coordinates", "data"))
        _count_layouts(run, layout)
        run.count("cloud:" + kind)
        run.sample("spline", {"n": n, "cloud": kind, "layout": list(layout.classes), "mindist": mindist, "easting": east, "northing": north, "data": data,
                              "prediction_at_the_data": np.asarray(pred), "kappa": (_lookup(est).info or {}).get("kappa")})
    elif stream == "vspline":
        n = _composite_size(rng, 2, 200, big_lo=60)
        east, north, kind = _cloud(rng, n)
        d_east = _field(run, rng, east, north)
        d_north = gen.smooth_field(rng, east, north, amplitude=float(np.abs(d_east).max()) * gen.log_uniform(rng, 0.1, 10))
        spacing = np.hypot(np.ptp(east), np.ptp(north)) / np.sqrt(n)
        mindist = float(spacing * gen.log_uniform(rng, 1e-2, 2.0))
        poisson = float(rng.choice([-1.0, 1.0, 0.5, 0.0])) if rng.random() < 0.3 else float(rng.uniform(-1, 1))
        layout, (e, nn, de, dn) = _shape(rng, (east, north, d_east, d_north))
        est = verde.VectorSpline2D(poisson=poisson, mindist=mindist)
        pred = _fit_predict(est, (e, nn), (de, dn), rng, run, overwrite=("coordinates", "data"))
        _count_layouts(run, layout)
        if index % 7 == 3:  # a refit keeps the first force locations: no longer in the exact class, must be classified so
            e2, n2, _ = _cloud(rng, n)
            with warnings.catch_warnings():
                warnings.simplefilter("ignore")
                est.fit((e2, n2), (d_east, d_north))
                est.predict((e2, n2))
        run.sample("vspline", {"n": n, "poisson": poisson, "mindist": mindist, "easting": east, "northing": north, "data": [d_east, d_north],
                               "prediction_at_the_data": [np.asarray(p) for p in pred]})
    elif stream == "knn":
        for _ in range(3):
            n = _composite_size(rng, 1, 400)
            east, north, kind = _cloud(rng, n)
            data = _field(run, rng, east, north) if rng.random() < 0.8 else rng.integers(-5, 5, n).astype("float64")
            layout, (e, nn, d) = _shape(rng, (east, north, data))
            choice = int(rng.integers(0, 4))
            if choice == 0:
                est = verde.KNeighbors()  # documented default: k=1
                _S.expect[id(est)] = (weakref.ref(est), "KNeighbors() - the documented default is k=1")
            else:
                est = verde.KNeighbors(k=1, reduction=[np.mean, np.median, np.max][choice - 1])
            pred = _fit_predict(est, (e, nn), d, rng, run, overwrite=("coordinates", "data"))
            _count_layouts(run, layout)
        run.sample("knn", {"n": n, "easting": east, "northing": north, "data": data, "prediction_at_the_data": np.asarray(pred)})
    elif stream == "scipy":
        for _ in range(4):
            n = _composite_size(rng, 3, 400)
            east, north, kind = _cloud(rng, n)
            data = _field(run, rng, east, north)
            layout, (e, nn, d) = _shape(rng, (east, north, data))
            choice = int(rng.integers(0, 7))
            with warnings.catch_warnings():
                warnings.simplefilter("ignore")
                if choice < 2:
                    est = verde.Linear(rescale=bool(choice))
                elif choice < 4:
                    est = verde.Cubic(rescale=bool(choice - 2))
                else:
                    method = ["linear", "nearest", "cubic"][choice - 4]
                    extra = None if rng.random() < 0.5 else {"rescale": bool(rng.random() < 0.5)}
                    est = verde.ScipyGridder(method=method, extra_args=extra)
            try:
                pred = _fit_predict(est, (e, nn), d, rng, run)
            except scipy.spatial.QhullError:
                run.count("refused:qhull")  # degenerate (collinear / too few points): the backend's documented refusal
                continue
            _count_layouts(run, layout)
            run.count("scipy:" + _describe(est))
        run.sample("scipy", {"estimator": _describe(est), "n": n, "easting": east, "northing": north, "data": data})
    elif stream == "chain":
        n = _composite_size(rng, 4, 300, big_share=0.25)
        east, north, kind = _cloud(rng, n, collinear_ok=False)
        data = _field(run, rng, east, north)
        if rng.random() < 0.5:  # a strong regional trend under the signal
            x, y = (east - east.mean()) / (np.ptp(east) or 1), (north - north.mean()) / (np.ptp(north) or 1)
            data = data + float(np.abs(data).max()) * gen.log_uniform(rng, 1, 1e3) * (rng.normal() + rng.normal() * x + rng.normal() * y + rng.normal() * x * y)
        layout, (e, nn, d) = _shape(rng, (east, north, data))
        with warnings.catch_warnings():
            warnings.simplefilter("ignore")
            last = _exact_scalar(rng, verde, n, east, north)
            kind_of = index % 4
            if kind_of in (0, 1):
                est = verde.Chain([("trend", verde.Trend(int(rng.integers(0, 3)))), ("interp", last)])
            elif kind_of == 2:  # nested chains
                inner = verde.Chain([("trend", verde.Trend(int(rng.integers(0, 2)))), ("interp", last)])
                est = verde.Chain([("mean", verde.Trend(0)), ("inner", inner)])
            else:  # an exact step followed by another exact step (the second fits a residual of round-off size)
                est = verde.Chain([("trend", verde.Trend(1)), ("first", _exact_scalar(rng, verde, n, east, north)), ("interp", last)])
        try:
            pred = _fit_predict(est, (e, nn), d, rng, run)
        except scipy.spatial.QhullError:
            run.count("refused:qhull")
            return
        _count_layouts(run, layout)
        run.sample("chain", {"estimator": _describe(est), "n": n, "easting": east, "northing": north, "data": data, "prediction_at_the_data": np.asarray(pred)})
    elif stream == "vector":
        n = _composite_size(rng, 4, 200, big_share=0.2, big_lo=80)
        east, north, kind = _cloud(rng, n, collinear_ok=False)
        ncomp = 2 if index % 3 else 3
        comps = tuple(_field(run, rng, east, north) for _ in range(ncomp))
        layout, shaped = _shape(rng, (east, north) + comps)
        e, nn, data = shaped[0], shaped[1], tuple(shaped[2:])
        with warnings.catch_warnings():
            warnings.simplefilter("ignore")
            kind_of = index % 4
            if kind_of == 0:
                est = verde.Vector([_exact_scalar(rng, verde, n, east, north) for _ in range(ncomp)])
            elif kind_of == 1:
                est = verde.Vector([verde.Chain([("trend", verde.Trend(int(rng.integers(0, 3)))), ("interp", _exact_scalar(rng, verde, n, east, north))])
                                    for _ in range(ncomp)])
            elif kind_of == 2:
                est = verde.Chain([("trend", verde.Vector([verde.Trend(1) for _ in range(ncomp)])),
                                   ("interp", verde.Vector([_exact_scalar(rng, verde, n, east, north) for _ in range(ncomp)]))])
            else:
                data = data[:2]
                spacing = np.hypot(np.ptp(east), np.ptp(north)) / np.sqrt(n)
                est = verde.Chain([("trend", verde.Vector([verde.Trend(int(rng.integers(0, 2))) for _ in range(2)])),
                                   ("interp", verde.VectorSpline2D(poisson=float(rng.uniform(-1, 1)), mindist=float(spacing * gen.log_uniform(rng, 1e-2, 1.0))))])
        try:
            pred = _fit_predict(est, (e, nn), data, rng, run)
        except scipy.spatial.QhullError:
            run.count("refused:qhull")
            return
        _count_layouts(run, layout)
        run.sample("vector", {"estimator": _describe(est), "n": n, "easting": east, "northing": north, "data": list(comps)[:len(data)],
                              "prediction_at_the_data": [np.asarray(p) for p in pred]})
    elif stream == "trend_poly":
        for _ in range(3):
            degree = int(rng.integers(0, 5))
            deg_p = degree if rng.random() < 0.6 else int(rng.integers(0, degree + 1))
            ncols = len(ref.trend_exponents(degree))
            n = max(_composite_size(rng, 3, 300, big_share=0.2), 1)
            if rng.random() < 0.85:
                n = max(n, ncols + int(rng.integers(0, 4)))
            east, north, kind = _cloud(rng, n)
            vp = ref.trend_jacobian(east, north, deg_p)
            mags = np.max(np.abs(vp), axis=0)
            factor = float(rng.choice(DATA_MAGNITUDES)) if rng.random() < 0.5 else 1.0
            run.count("data_magnitude:%.0e" % factor)
            coefs = factor * gen.log_uniform(rng, 1e-3, 1e6) * rng.normal(size=vp.shape[1]) / np.where(mags > 0, mags, 1.0)
            if deg_p and rng.random() < 0.2:
                coefs[: vp.shape[1] - deg_p - 1] = 0.0  # a homogeneous polynomial of the top degree
            data = vp @ coefs
            layout, (e, nn, d) = _shape(rng, (east, north, data))
            est = verde.Trend(degree)
            _S.polys[id(est)] = {"ref": weakref.ref(est), "degree": deg_p, "coefs": coefs}
            with warnings.catch_warnings(), _ctx():
                warnings.simplefilter("ignore")
                est.fit((e, nn), d)
                est.predict((e, nn))
                we, ws = np.ptp(east), np.ptp(north)
                nq = 30
                qe = rng.uniform(east.min() - 0.5 * we, east.max() + 0.5 * we, nq)
                qn = rng.uniform(north.min() - 0.5 * ws, north.max() + 0.5 * ws, nq)
                if rng.random() < 0.3:  # a few points beyond twice the box: not judged, counted
                    qe[:3] += 3 * (we or 1.0)
                pred = est.predict((qe.reshape(5, 6), qn.reshape(5, 6)))
            _count_layouts(run, layout)
        run.sample("trend_poly", {"degree": degree, "polynomial_degree": deg_p, "coefficients": coefs, "n": n, "easting": east, "northing": north,
                                  "data": data, "query_easting": qe, "query_northing": qn, "prediction": np.asarray(pred),
                                  "kappa_V": (_lookup(est).info or {}).get("kappa")})
    elif stream == "close_pairs":
        _close_pairs(run, rng, verde, index)
    elif stream == "defaults":
        defaults_case(run, rng, verde, index, ("Spline", "VectorSpline2D", "KNeighbors", "Linear", "Cubic", "ScipyGridder", "Trend"))
    elif stream == "grid_like":
        _grid_like(run, rng, verde, index)
    elif stream == "large_predict":
        _large_predict(run, rng, verde, index)
    elif stream == "history":
        _history(run, rng, verde, index)
    elif stream == "forces_order":
        _forces_order(run, rng, verde, index)
    elif stream == "spellings":
        _spellings(run, rng, verde, index)
    elif stream == "sizes":
        # point counts at and around multiples of 64/128/256 on well separated jittered grids (kappa stays moderate: informative, exact)
        kind_of = ["vspline", "spline", "knn", "linear"][index % 4]
        n = SIZES[(index // 4) % len(SIZES)]
        east, north = gen.cloud(rng, n, kind="jitter", offset_factor=float(rng.choice([0.0, 1.0, 30.0])))
        spacing = np.hypot(np.ptp(east), np.ptp(north)) / np.sqrt(n)
        with warnings.catch_warnings():
            warnings.simplefilter("ignore")
            if kind_of == "vspline":
                d_east = _field(run, rng, east, north)
                data = (d_east, _field(run, rng, east, north, amplitude=float(np.abs(d_east).max()) * gen.log_uniform(rng, 0.3, 3)))
                est = verde.VectorSpline2D(poisson=float(rng.uniform(-1, 1)), mindist=float(spacing * gen.log_uniform(rng, 0.3, 1.5)))
            else:
                data = _field(run, rng, east, north)
                if kind_of == "spline":
                    est = verde.Spline() if rng.random() < 0.6 else verde.Spline(mindist=float(spacing * gen.log_uniform(rng, 1e-2, 0.3)))
                elif kind_of == "knn":
                    est = verde.KNeighbors() if rng.random() < 0.5 else verde.KNeighbors(k=1, reduction=np.median)
                    if est.k == 1 and rng.random() < 0.5:
                        _S.expect[id(est)] = (weakref.ref(est), "KNeighbors() - the documented default is k=1")
                else:
                    est = verde.Linear(rescale=bool(rng.random() < 0.5))
        arrays = (east, north) + (data if isinstance(data, tuple) else (data,))
        layout, shaped = _shape(rng, arrays)
        shaped_data = tuple(shaped[2:]) if isinstance(data, tuple) else shaped[2]
        pred = _fit_predict(est, (shaped[0], shaped[1]), shaped_data, rng, run, overwrite=("coordinates",) if kind_of != "linear" else ())
        _count_layouts(run, layout)
        rec = _lookup(est)
        informative = rec is not None and (rec.kind not in ("spline", "vspline") or (rec.info is not None and not rec.info.get("skip")
                                                                                       and rec.info.get("rel_tol", 1.0) < INFORMATIVE))
        run.count("size_class%s:%s:%d" % ("" if informative else "_uninformative", kind_of, n))
        run.sample("sizes", {"estimator": _describe(est), "n": n, "layout": list(layout.classes), "kappa": None if rec is None or rec.info is None else rec.info.get("kappa")})
    else:
        raise ValueError(stream)


def _field(run, rng, east, north, amplitude=None):
    """A smooth non-separable field; half of the time (when no amplitude is imposed) all values are multiplied by one of DATA_MAGNITUDES."""
    if amplitude is not None:
        return gen.smooth_field(rng, east, north, amplitude=amplitude)
    factor = float(rng.choice(DATA_MAGNITUDES)) if rng.random() < 0.5 else 1.0
    run.count("data_magnitude:%.0e" % factor)
    return gen.smooth_field(rng, east, north) * factor


def _exact_scalar(rng, verde, n, east, north):
    """A freshly configured exact scalar interpolator."""
    choice = int(rng.integers(0, 6))
    if choice == 0:
        return verde.Spline()
    if choice == 1:
        spacing = np.hypot(np.ptp(east), np.ptp(north)) / np.sqrt(n)
        return verde.Spline(mindist=float(spacing * gen.log_uniform(rng, 1e-3, 0.5)))
    if choice == 2:
        est = verde.KNeighbors()
        _S.expect[id(est)] = (weakref.ref(est), "KNeighbors() - the documented default is k=1")
        return est
    if choice == 3:
        return verde.Linear(rescale=bool(rng.random() < 0.5))
    if choice == 4:
        return verde.Cubic(rescale=bool(rng.random() < 0.5))
    return verde.Spline()


def on_exception(run, stream, index, exc):  # noqa: U100
    """A step fitted on a residual that a scipy step upstream left NaN at a hull-boundary point is refused by scikit-learn: expected."""
    if isinstance(exc, ValueError) and ("NaN" in str(exc) or "infinity" in str(exc)):
        if any(rec.excused_nan for rec in _S.records.values()):
            run.count("refused:nan_residual_downstream_of_scipy_hull_boundary_point")
            return True
    return False


def finish(run, tap, shard):  # noqa: U100
    if run.counters.get("either_way:scipy_nan_on_hull_boundary") or run.counters.get("either_way:scipy_inaccurate_on_hull_boundary"):
        run.notes.append(
            "scipy's LinearNDInterpolator / CloughTocher2DInterpolator returned NaN or an inaccurate value at a data point on the boundary of the "
            "convex hull (directed-walk find_simplex next to a sliver hull triangle). Counted either-way, see ASSUMPTIONS."
        )


def _is_scipy_hull_boundary(vio):
    return vio.get("monitor") == "scipy_exact" and "hull" in str(vio.get("key"))


CLASSIFIERS = {"scipy_hull_boundary": _is_scipy_hull_boundary}

LEVEL_TEXT = (
    "Every predict() return of Spline, VectorSpline2D, KNeighbors, Linear, Cubic, ScipyGridder, Chain and Vector at the coordinates the object was "
    "fitted on (made by the workload or nested inside Chain/Vector/filter) is compared with the fitted data under a conditioning-aware tolerance "
    "from an independent Green's-matrix reference; every Trend.predict() of a Trend fitted to a declared polynomial is compared with that polynomial. "
    "Seeded random exploration of point sets, scales, offsets, shapes and compositions; held = no refutation among the monitored executions."
)
LEVEL_NOTE = (
    "Trusted: numpy SVD/lstsq for the reference condition numbers, float64 evaluation of the reference kernels. Ill-conditioned cases "
    "(100*kappa*eps >= 1e-3) are skipped and counted, not held."
)
TECHNIQUE = (
    "runtime postcondition monitors on fit/predict of the real estimators (object-identity side table pairs each predict with its fit), "
    "independent numpy reference for conditioning, seeded hostile workload incl. caller-side mutation between fit and predict"
)
