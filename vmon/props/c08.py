"""
C08 - block_split assigns every point to the one block that contains it.

The monitor sits on ``verde.coordinates.block_split`` (rebound in blockreduce,
model_selection, ...) and judges every return, direct or nested, against block
geometry computed by the C07 *reference* (never by verde).
"""
import collections
import warnings

import numpy as np

from .. import gen, ref

ID = "C08"
LEVEL = "exploration"
RULE = (
    "cases = block_split calls on seeded point clouds (1-500 points; uniform, clustered in one block, exactly on block edges and "
    "corners of dyadic lattices, outside the region on every side; 1-D, 2-D, Fortran-ordered and pandas inputs; extra coordinates) with "
    "region given or inferred, scalar / per-direction spacing (non-square blocks), both adjust modes, shapes incl. 1xk, kx1, 1x1, plus nested "
    "calls made by BlockReduce, BlockMean, BlockKFold, BlockShuffleSplit, train_test_split and project_grid. Non-trivial = at least two "
    "blocks along a used axis or non-square blocks, and at least one strictly interior point; distinct = hash of the arguments."
)
ASSUMPTIONS = [
    "block edges from the C07 reference model (exact-rational interval count, float64 node positions)",
    "points within max(1e-9, 64 eps |bound|/block size) block sizes of a block edge may belong to either neighbour",
    "float32 coordinates with an inferred region (or float32 region scalars): numpy builds the block grid in float32, so eps is float32's there",
    "events whose region has zero extent along an axis are skipped (no blocks to speak of) and counted",
]
LEVEL_TEXT = (
    "Every block_split return in the workload (direct or nested in reductions, cross-validators and project_grid) is compared with an "
    "independent floor-arithmetic labelling on reference block geometry: centres, row-major numbering from the south-west corner, label range, "
    "label of every strictly interior point, admissible labels for edge points, clamping of outside points, C-order of the labels. "
    "Held = no refutation among the monitored executions."
)
LEVEL_NOTE = "Trusted: numpy float64 arithmetic, the C07 reference model (vmon/ref.py); edge points within the stated margin are either-way."
TECHNIQUE = "runtime postcondition monitor on block_split (all aliases rebound) with an independent floor-arithmetic reference labelling; seeded hostile point clouds incl. exact edge/corner/outside points"
FLOORS = {
    "quick": {"eval:block_split": 1600, "eval:label": 120000, "distinct_nontrivial": 1200, "points:edge": 15000, "points:outside": 15000, "eval:layout_pair": 200, "class:dtype_int_east_float_north": 30, "class:dtype_float32_both": 30, "class:history_calls": 160, "class:nonfinite_ignored_coordinate": 250, "class:large_cloud": 2, "class:degenerate_geometry_call": 700, "class:zero_extent_region": 400, "class:concurrent_calls": 8},
    "thorough": {"eval:block_split": 25000, "eval:label": 2000000, "distinct_nontrivial": 20000, "points:edge": 200000, "points:outside": 200000},
}
JOBS = {"quick": 1, "thorough": 16}

CASE_TIMEOUT_S = 900
AMBIENT_FILES = ['test_blockreduce.py', 'test_model_selection.py', 'test_projections.py', 'test_coordinates.py']


def plan(tier):
    if tier == "quick":
        return collections.OrderedDict(random=240, edges=160, outside=120, layouts=100, dtypes=80, history=40, nested=40, large=4, threads=8, degenerate=20)
    return collections.OrderedDict(random=4000, edges=2500, outside=2000, layouts=1500, dtypes=1500, history=800, nested=600, large=48, threads=160, degenerate=300, ambient=4)


# ----------------------------------------------------------------------
def _axis_blocks(lo, hi, size, spacing, adjust):
    """(n_blocks, block_width, hi_effective, tie) along one axis, or None if undecidable."""
    lo, hi = float(lo), float(hi)
    if spacing is None:
        n = int(size)
        return n, (hi - lo) / n, hi, False
    q = ref.interval_ratio(lo, hi, spacing)
    n = max(int(np.floor(float(q) + 0.5)), 1)
    ok, tie = ref.intervals_ok(n, q)
    if adjust == "region":
        hi_eff = float(ref.frac(lo) + n * ref.frac(spacing))
        return n, float(spacing), hi_eff, tie
    return n, (hi - lo) / n, hi, tie


def _allowed_index(values, lo, width, n, bound_mag, feps=ref.EPS):
    """Per point: lower and upper admissible block index along one axis."""
    if width == 0:  # zero-extent axis with blocks of zero width: no point is strictly inside any of them, every index is admissible
        zero = np.zeros(np.shape(values), dtype=int)
        return zero, zero + (n - 1), np.ones(np.shape(values), dtype=bool), np.zeros(np.shape(values), dtype=bool)
    u = (values - lo) / width
    margin = max(1e-9, 64 * feps * bound_mag / width)
    nearest = np.round(u)
    on_edge = np.abs(u - nearest) < margin
    base = np.floor(u)
    low = np.where(on_edge, nearest - 1, base)
    high = np.where(on_edge, nearest, base)
    low = np.clip(low, 0, n - 1).astype(int)
    high = np.clip(high, 0, n - 1).astype(int)
    outside = (u < -margin) | (u > n + margin)
    return low, high, on_edge, outside


def install(tap, run):
    import verde.coordinates as vc

    def post(ev):
        a = ev.args
        coords = a["coordinates"]
        if ev.exc is not None:
            # a region that is valid (W <= E, S <= N; zero width or height included), given or inferred, must not be refused as invalid
            try:
                reg = a["region"]
                if reg is None:
                    e0, n0 = np.asarray(coords[0], dtype="float64"), np.asarray(coords[1], dtype="float64")
                    reg = (e0.min(), e0.max(), n0.min(), n0.max())
                w0, e0_, s0, n0_ = (float(v) for v in reg)
                valid = len(reg) == 4 and w0 <= e0_ and s0 <= n0_ and np.all(np.isfinite([w0, e0_, s0, n0_]))
            except Exception:  # noqa: BLE001
                valid = False
            if valid and isinstance(ev.exc, ValueError) and "Invalid region" in str(ev.exc):
                run.evaluated("block_split")
                run.violation("block_split", "the valid region %r was refused: %s" % ([w0, e0_, s0, n0_], ev.exc), {"region": a["region"], "shape": a["shape"], "spacing": a["spacing"]}, key="valid-region-refused")
            return
        east = np.asarray(coords[0], dtype="float64").ravel()
        north = np.asarray(coords[1], dtype="float64").ravel()
        if east.size == 0 or not (np.all(np.isfinite(east)) and np.all(np.isfinite(north))):
            run.count("skipped:empty_or_nonfinite")
            return
        region = a["region"]
        # single-precision inputs: a region inferred from float32 coordinates (or given as float32 scalars) makes numpy build the
        # block grid in float32, so positions are only defined to float32 round-off - the tolerance follows the input precision
        low_precision = any(getattr(np.asarray(c), "dtype", None) == np.float32 for c in coords[:2]) if region is None else \
            any(isinstance(v, np.float32) for v in region)
        feps = float(np.finfo("float32").eps) if low_precision else ref.EPS
        if low_precision:
            run.count("class:float32_geometry")
        if region is None:
            region = (east.min(), east.max(), north.min(), north.max())
        w, e, s, n = (float(v) for v in region[:4])
        if not (e >= w and n >= s):
            run.count("skipped:invalid_region")
            return
        if not (e > w and n > s):
            run.count("class:zero_extent_region")
        shape, spacing, adjust = a["shape"], a["spacing"], a["adjust"]
        if shape is not None:
            size_n, size_e, sp_n, sp_e = shape[0], shape[1], None, None
        else:
            sp = np.atleast_1d(spacing)
            sp_n, sp_e = (sp[0], sp[0]) if sp.size == 1 else (sp[0], sp[1])
            size_n = size_e = None
        ne, we, e_eff, tie_e = _axis_blocks(w, e, size_e, sp_e, adjust)
        nn, wn, n_eff, tie_n = _axis_blocks(s, n, size_n, sp_n, adjust)
        (cent_e, cent_n), labels = ev.result[0][:2], np.asarray(ev.result[1])
        cent_e, cent_n = np.asarray(cent_e), np.asarray(cent_n)
        witness = {"coordinates": [east, north], "region": a["region"], "shape": shape, "spacing": spacing, "adjust": adjust,
                   "centres": [cent_e, cent_n], "labels": labels}
        run.evaluated("block_split")

        def fail(msg, key):
            run.violation("block_split", msg, witness, key=key)

        # a tie in the interval count: accept the other neighbour too
        if cent_e.size != ne * nn and (tie_e or tie_n):
            run.count("either_way:tie_in_block_count")
            return
        if cent_e.ndim != 1 or cent_n.ndim != 1 or cent_e.size != ne * nn or cent_n.size != ne * nn:
            return fail("expected %d x %d = %d block centres (1-D), got %s and %s" % (nn, ne, ne * nn, cent_e.shape, cent_n.shape), "centre-count")
        want_e = ref.line_nodes(w, e_eff, ne, True)
        want_n = ref.line_nodes(s, n_eff, nn, True)
        grid_e = np.tile(want_e, nn)
        grid_n = np.repeat(want_n, ne)
        tol_e, tol_n = ref.line_tolerance(w, e_eff) * feps / ref.EPS, ref.line_tolerance(s, n_eff) * feps / ref.EPS
        if np.max(np.abs(cent_e - grid_e)) > tol_e or np.max(np.abs(cent_n - grid_n)) > tol_n:
            return fail("block centres are not the pixel-registered grid of the region numbered row-major from the south-west corner", "centres")
        if labels.shape != (east.size,):
            return fail("labels have shape %s for %d points" % (labels.shape, east.size), "label-shape")
        if labels.dtype.kind not in "iu" or labels.min() < 0 or labels.max() >= ne * nn:
            return fail("labels outside 0..%d" % (ne * nn - 1), "label-range")
        lo_c, hi_c, edge_c, out_c = _allowed_index(east, w, we, ne, max(abs(w), abs(e_eff)), feps)
        lo_r, hi_r, edge_r, out_r = _allowed_index(north, s, wn, nn, max(abs(s), abs(n_eff)), feps)
        col = labels % ne
        row = labels // ne
        good = (col >= lo_c) & (col <= hi_c) & (row >= lo_r) & (row <= hi_r)
        n_edge = int(np.count_nonzero(edge_c | edge_r))
        n_out = int(np.count_nonzero(out_c | out_r))
        interior = ~(edge_c | edge_r | out_c | out_r)
        run.evaluated("label", east.size)
        run.count("points:edge", n_edge)
        run.count("points:outside", n_out)
        run.count("points:interior", int(np.count_nonzero(interior)))
        if not good.all():
            k = int(np.flatnonzero(~good)[0])
            witness["first_bad_point"] = {"index": k, "east": east[k], "north": north[k], "label": int(labels[k]),
                                          "admissible_rows": [int(lo_r[k]), int(hi_r[k])], "admissible_cols": [int(lo_c[k]), int(hi_c[k])],
                                          "n_east": ne, "n_north": nn}
            kind = "outside" if (out_c[k] or out_r[k]) else ("edge" if (edge_c[k] or edge_r[k]) else "interior")
            return fail("%d of %d points carry the label of a block that does not contain them (first: point %d, %s)"
                        % (int(np.count_nonzero(~good)), east.size, k, kind), "label-" + kind)
        nonsquare = abs(we - wn) > 1e-6 * max(we, wn)
        if (ne >= 2 or nn >= 2 or nonsquare) and interior.any():
            run.mark_nontrivial("bs", east, north, a["region"], shape, spacing, adjust)
        if ne == 1 or nn == 1:
            run.count("class:single_row_or_column")
        if nonsquare:
            run.count("class:nonsquare_blocks")
        if a["region"] is None:
            run.count("class:region_inferred")
        if np.ndim(coords[0]) == 2:
            run.count("class:2d_input")
        if len(coords) > 2:
            run.count("class:extra_coordinates")

    tap.function(vc, "block_split", post=post, documented={"spacing": None, "adjust": "spacing", "region": None, "shape": None})


# ----------------------------------------------------------------------
def _block_args(rng, region, allow_single=True):
    w, e, s, n = region
    kwargs = {}
    mode = rng.integers(0, 3)
    if mode == 0:
        lo = 1 if allow_single else 2
        kwargs["shape"] = (int(rng.integers(lo, 9)), int(rng.integers(lo, 9)))
        if rng.random() < 0.15:
            kwargs["shape"] = (1, kwargs["shape"][1])
        elif rng.random() < 0.15:
            kwargs["shape"] = (kwargs["shape"][0], 1)
        elif rng.random() < 0.05:
            kwargs["shape"] = (1, 1)
    elif mode == 1:
        kwargs["spacing"] = float(min(e - w, n - s) / rng.uniform(0.4, 9))
        kwargs["adjust"] = str(rng.choice(["spacing", "region"]))
    else:
        kwargs["spacing"] = (float((n - s) / rng.uniform(0.4, 9)), float((e - w) / rng.uniform(0.4, 9)))
        kwargs["adjust"] = str(rng.choice(["spacing", "region"]))
    if "adjust" in kwargs and kwargs["adjust"] == "spacing" and rng.random() < 0.6:
        del kwargs["adjust"]  # rely on the documented default
    # the same values in other accepted spellings: list / ndarray / numpy scalars / Python ints
    spell = int(rng.integers(0, 6))
    if "shape" in kwargs:
        kwargs["shape"] = [kwargs["shape"], list(kwargs["shape"]), np.array(kwargs["shape"]), tuple(np.int64(v) for v in kwargs["shape"]),
                           kwargs["shape"], np.array(kwargs["shape"], dtype="int32")][spell]
    elif isinstance(kwargs["spacing"], tuple):
        kwargs["spacing"] = [kwargs["spacing"], list(kwargs["spacing"]), np.array(kwargs["spacing"]), tuple(np.float64(v) for v in kwargs["spacing"]),
                             kwargs["spacing"], kwargs["spacing"]][spell]
    else:
        if spell == 1 and min(e - w, n - s) > 4:  # a whole-number spacing given as a Python int / numpy integer
            kwargs["spacing"] = int(max(1, min(e - w, n - s) // 3))
        elif spell == 2 and min(e - w, n - s) > 4:
            kwargs["spacing"] = np.int64(max(1, min(e - w, n - s) // 3))
        elif spell == 3:
            kwargs["spacing"] = np.float64(kwargs["spacing"])
        elif spell == 4:
            kwargs["spacing"] = np.array(kwargs["spacing"])
    return kwargs


def _ignored_extra(run, rng, east):
    """A third/fourth coordinate (height, time): documented as ignored, so it may hold anything - gaps (NaN), +-inf, huge values."""
    extra = rng.normal(size=east.shape) * 10 ** rng.uniform(-3, 6)
    if rng.random() < 0.65:
        bad = rng.random(east.shape) < rng.choice([0.1, 0.5, 1.0])
        bad.flat[int(np.argmin(east))] = True  # a point on the border of the cloud (matters when the region is inferred)
        extra[bad] = rng.choice([np.nan, np.inf, -np.inf], size=int(bad.sum()))
        run.count("class:nonfinite_ignored_coordinate")
    return extra


def run_case(run, tap, stream, index, rng):
    if stream == "ambient":
        from .. import core as _core

        return _core.ambient_tests(run, AMBIENT_FILES[index])
    import pandas as pd
    import verde as vd

    with warnings.catch_warnings():
        warnings.simplefilter("ignore")
        if stream == "random":
            for _ in range(6):
                npts = int(rng.choice([1, 2, 3, 10, 60, 200, 500]))
                east, north = gen.cloud(rng, npts, offset_factor=float(rng.choice([0, 1, 30, 1e3])))
                if npts > 3 and rng.random() < 0.2:  # everything in one small clump
                    east = east.mean() + (east - east.mean()) * 1e-3
                    north = north.mean() + (north - north.mean()) * 1e-3
                given = rng.random() < 0.5 or npts < 3
                if given:
                    span_e = max(east.max() - east.min(), abs(east.mean()) * 1e-6, 1e-9)
                    span_n = max(north.max() - north.min(), abs(north.mean()) * 1e-6, 1e-9)
                    region = [float(east.min() - rng.uniform(0, 1) * span_e), float(east.max() + rng.uniform(0.01, 1) * span_e),
                              float(north.min() - rng.uniform(0, 1) * span_n), float(north.max() + rng.uniform(0.01, 1) * span_n)]
                else:
                    region = [float(east.min()), float(east.max()), float(north.min()), float(north.max())]
                kwargs = _block_args(rng, region)
                if given:
                    kwargs["region"] = region
                coords = (east, north)
                if rng.random() < 0.4:
                    coords = (east, north, _ignored_extra(run, rng, east))
                    if rng.random() < 0.3:
                        coords = coords + (_ignored_extra(run, rng, east),)
                vd.block_split(coords, **kwargs)
            run.sample("random", {"n_points": npts, "kwargs": kwargs})
        elif stream == "edges":
            # dyadic lattice: block edges, corners and centres are exactly representable
            for _ in range(6):
                ne, nn = int(rng.integers(1, 8)), int(rng.integers(1, 8))
                we, wn = float(2.0 ** rng.integers(-3, 4)), float(2.0 ** rng.integers(-3, 4))
                w = float(rng.integers(-40, 40)) * we
                s = float(rng.integers(-40, 40)) * wn
                region = [w, w + ne * we, s, s + nn * wn]
                k = int(rng.integers(5, 120))
                east = w + we * rng.integers(0, 2 * ne + 1, k) / 2.0   # edges and centres
                north = s + wn * rng.integers(0, 2 * nn + 1, k) / 2.0
                jitter = rng.random(k) < 0.3
                east = np.where(jitter, east + we * rng.uniform(-0.4, 0.4, k), east)
                east = np.clip(east, region[0], region[1])
                if rng.random() < 0.5:
                    vd.block_split((east, north), shape=(nn, ne), region=region)
                else:
                    adjust = str(rng.choice(["spacing", "region"]))
                    vd.block_split((east, north), spacing=(wn, we), region=region, adjust=adjust)
            run.sample("edges", {"region": region, "shape": (nn, ne), "east": east, "north": north})
        elif stream == "outside":
            for _ in range(6):
                region = [float(v) for v in np.sort(rng.normal(size=2) * 100)] + [float(v) for v in np.sort(rng.normal(size=2) * 100)]
                if region[1] - region[0] < 1e-3 or region[3] - region[2] < 1e-3:
                    continue
                w, e, s, n = region
                k = int(rng.integers(10, 150))
                east = rng.uniform(w - (e - w), e + (e - w), k)
                north = rng.uniform(s - (n - s), n + (n - s), k)
                kwargs = _block_args(rng, region)
                kwargs["region"] = region
                vd.block_split((east, north) if rng.random() < 0.7 else (east, north, _ignored_extra(run, rng, east)), **kwargs)
            run.sample("outside", {"region": region, "kwargs": kwargs, "n_points": k})
        elif stream == "layouts":
            npts = int(rng.choice([12, 24, 60, 120]))
            east, north = gen.cloud(rng, npts, offset_factor=float(rng.choice([0, 1, 30])))
            # values that distinguish C order from any other traversal: no symmetry
            region = [float(east.min()), float(east.max()), float(north.min()), float(north.max())]
            kwargs = _block_args(rng, region, allow_single=False)
            base = vd.block_split((east, north), **kwargs)[1]
            for name, (ve, vn) in gen.layouts((east, north), rng):
                labels = vd.block_split((ve, vn), **kwargs)[1]
                run.evaluated("layout_pair")
                run.count("class:layout_" + name)
                if not np.array_equal(np.asarray(labels), np.asarray(base)):
                    run.violation("layout_pair", "labels change when the same element sequence is passed as '%s'" % name,
                                  {"east": east, "north": north, "kwargs": kwargs, "base": base, "variant": labels}, key="layout:" + name)
            run.sample("layouts", {"n_points": npts, "kwargs": kwargs})
        elif stream == "dtypes":
            # the same points with integer / float32 / mixed coordinate dtypes: labels must not depend on the container dtype
            npts = int(rng.choice([8, 40, 200]))
            east, north = gen.cloud(rng, npts, scale=gen.log_uniform(rng, 20, 1e4), offset_factor=float(rng.choice([0, 1, 30])))
            combos = {
                "int_east_float_north": (np.round(east).astype("int64"), north),
                "float_east_int_north": (east, np.round(north).astype("int32")),
                "int_both": (np.round(east).astype("int32"), np.round(north).astype("int64")),
                "float32_both": (east.astype("float32"), north.astype("float32")),
                "float32_east": (east.astype("float32"), north),
            }
            for name, (ce, cn) in combos.items():
                ef, nf = np.asarray(ce, dtype="float64"), np.asarray(cn, dtype="float64")
                if np.ptp(ef) <= 0 or np.ptp(nf) <= 0:
                    continue
                region = [float(ef.min()), float(ef.max()), float(nf.min()), float(nf.max())]
                kwargs = _block_args(rng, region, allow_single=False)
                if rng.random() < 0.5:
                    kwargs["region"] = region
                got = vd.block_split((ce, cn), **kwargs)[1]
                if "region" in kwargs:  # same points as float64: identical labels (region fixed, so geometry is identical)
                    want = vd.block_split((ef, nf), **kwargs)[1]
                    run.evaluated("dtype_pair")
                    if not np.array_equal(got, want):
                        run.violation("dtype_pair", "labels change when the same coordinate values are passed as %s" % name,
                                      {"easting": ce, "northing": cn, "kwargs": kwargs, "labels": got, "labels_float64": want}, key="dtype:" + name)
                run.count("class:dtype_" + name)
            run.sample("dtypes", {"n_points": npts, "kwargs": kwargs})
        elif stream == "history":
            # call histories in one process: same region and block layout with another block size / adjust mode, twin clouds with
            # equal bounding box and size, the same ndarray objects modified in place, returned arrays edited by the caller
            npts = int(rng.choice([30, 120, 400]))
            east, north = gen.cloud(rng, npts, kind="uniform", offset_factor=float(rng.choice([0, 1])))
            region = [float(east.min()), float(east.max()), float(north.min()), float(north.max())]
            w, e, s_, n = region
            q = rng.uniform(2.2, 7.8)
            sp = float(min(e - w, n - s_) / q)
            steps = [
                dict(spacing=sp), dict(spacing=sp, adjust="region"), dict(spacing=sp * rng.uniform(0.9, 1.1), adjust="region"),
                dict(spacing=(sp, sp * 1.3), adjust="region"), dict(spacing=sp), dict(shape=(max(int(q), 1), max(int(q), 1))),
            ]
            for kw in steps:
                kw = dict(kw, region=region) if rng.random() < 0.7 else kw
                centres, labels = vd.block_split((east, north), **kw)
                for arr in list(centres) + [labels]:
                    if arr.flags.writeable:
                        arr[...] = 0  # the caller scribbles on what was returned
                run.count("class:history_calls")
            # twin cloud: same size, same bounding box, other interior points (reflection about the midrange)
            twin = (w + e - east, s_ + n - north)
            vd.block_split(twin, spacing=sp, adjust="region", region=region)
            vd.block_split((east, north), spacing=sp, adjust="region", region=region)
            # same objects modified in place
            east += 0.37 * (e - w)
            north *= 0.5
            vd.block_split((east, north), spacing=sp)
            vd.block_split((east, north), spacing=sp, adjust="region", region=region)
            run.count("class:history_calls", 4)
        elif stream == "degenerate":
            # degenerate geometry the statement still covers: a single N-S or W-E line of points, one point, a region of zero width or
            # height given explicitly - one column / row of blocks (or blocks of zero width), every label a valid index
            for _ in range(6):
                k = int(rng.choice([1, 2, 5, 40]))
                base_e, base_n = float(rng.normal() * 100), float(rng.normal() * 100)
                length = float(10 ** rng.uniform(-1, 3))
                kind = int(rng.integers(0, 3)) if k > 1 else 2
                east = np.full(k, base_e) if kind in (0, 2) else base_e + rng.uniform(0, length, k)
                north = np.full(k, base_n) if kind in (1, 2) else base_n + rng.uniform(0, length, k)
                if kind != 2:
                    (north if kind == 0 else east)[[0, -1]] = (base_n if kind == 0 else base_e), (base_n if kind == 0 else base_e) + length
                region = [float(east.min()), float(east.max()), float(north.min()), float(north.max())]
                sp = float(length / rng.uniform(1.5, 8))
                for kwargs in (dict(spacing=sp), dict(spacing=sp, adjust="region"), dict(spacing=(sp, sp * 0.7)), dict(shape=(int(rng.integers(1, 5)), int(rng.integers(1, 5)))), dict(shape=(1, 1))):
                    for reg in (None, region, tuple(region)):
                        try:
                            vd.block_split((east, north), region=reg, **kwargs)
                        except Exception:  # noqa: BLE001 - judged by the monitor
                            run.count("degenerate_call_raised")
                        run.count("class:degenerate_geometry_call")
                # points off a zero-width region go to the nearest (only) column
                off = (east + rng.normal(size=k) * length, north + rng.normal(size=k) * length)
                try:
                    vd.block_split(off, region=region, spacing=sp)
                except Exception:  # noqa: BLE001
                    run.count("degenerate_call_raised")
            run.sample("degenerate", {"region": region, "n_points": k, "kind": kind})
        elif stream == "large":
            # many points in one call: a chunked or 'fast' branch taken only above some size must label the first, the last and
            # every chunk-boundary point like the plain path (sizes around powers of two and of ten, and odd ones)
            npts = int(rng.choice([100001, 131073, 200000, 262145, 300001, 524288 + 3])) if index % 2 == 0 else int(rng.integers(100001, 400000))
            east = rng.uniform(-3.0, 11.0, npts)
            north = rng.uniform(50.0, 57.0, npts)
            if rng.random() < 0.5:  # the last points far from block 0 (a label left at its initial value would go unnoticed there)
                east[-5:], north[-5:] = 10.9, 56.9
            kwargs = [dict(spacing=0.7), dict(shape=(9, 13)), dict(spacing=(0.5, 1.1), adjust="region")][int(rng.integers(0, 3))]
            region = [-3.0, 11.0, 50.0, 57.0] if rng.random() < 0.5 else None
            vd.block_split((east, north), region=region, **kwargs)
            if index % 3 == 0:
                side = int(np.sqrt(npts))
                vd.block_split((east[: side * side].reshape(side, side), north[: side * side].reshape(side, side)), **kwargs)
            run.count("class:large_cloud")
            run.sample("large", {"n_points": npts, "kwargs": kwargs})
        elif stream == "threads":
            # concurrent calls in one process (thread pools, dask's threaded scheduler): every call, judged on its own by the
            # monitor, must label its own points - module-level scratch space shared between calls would mix them up
            from .. import core as _core

            nthreads = int(rng.choice([2, 3, 4]))
            npts = int(rng.choice([2000, 20000, 150000]))
            jobs = []
            for k in range(nthreads):
                sub = np.random.default_rng(int(rng.integers(0, 2 ** 31)))
                n_k = npts if rng.random() < 0.6 else int(npts * sub.uniform(0.3, 1.0))
                east, north = sub.uniform(-5, 5, n_k) + 3 * k, sub.uniform(0, 4, n_k) - k
                kw = [dict(spacing=0.5), dict(shape=(4, 7)), dict(spacing=(0.4, 0.9), adjust="region")][int(sub.integers(0, 3))]
                jobs.append((lambda e, n, kw: lambda: vd.block_split((e, n), **kw))(east, north, kw))
            results = _core.run_threads(jobs, rounds=int(3 if npts > 50000 else 12), yield_probability=0.25 if index % 2 == 0 else 0.0, seed=index)
            run.count("yields_injected", getattr(_core.run_threads, "yields_injected", 0) - run.counters.get("yields_injected", 0))
            for res, exc in results:
                if isinstance(exc, TimeoutError):
                    run.note_inconclusive("threads: %r" % (exc,))
                elif exc is not None:
                    run.violation("threads", "block_split raised %r when called concurrently from %d threads" % (exc, nthreads), {"n_points": npts}, key="threads-raised")
            run.count("class:concurrent_calls", len(jobs))
            run.sample("threads", {"threads": nthreads, "n_points": npts})
        elif stream == "nested":
            npts = int(rng.integers(30, 200))
            east, north = gen.cloud(rng, npts, offset_factor=float(rng.choice([0, 1, 30])))
            data = gen.smooth_field(rng, east, north, amplitude=10.0)
            span = min(east.max() - east.min(), north.max() - north.min())
            spacing = float(span / rng.uniform(1.5, 6))
            vd.BlockReduce(np.median, spacing=spacing).filter((east, north), data)
            vd.BlockReduce(np.mean, shape=(int(rng.integers(1, 6)), int(rng.integers(1, 6))), center_coordinates=True).filter((east, north), data)
            vd.BlockMean(spacing=(spacing, spacing * 1.5), adjust="region").filter((east, north), data)
            X = np.column_stack([east, north])
            try:
                list(vd.BlockKFold(spacing=spacing, n_splits=2, shuffle=True, random_state=int(rng.integers(0, 1000))).split(X))
                list(vd.BlockShuffleSplit(shape=(4, 3), n_splits=2, test_size=0.3, random_state=int(rng.integers(0, 1000))).split(X))
                vd.train_test_split((east, north), data, spacing=spacing, test_size=0.3, random_state=int(rng.integers(0, 1000)))
            except ValueError:
                run.count("refused:cross_validator")
            ser = (pd.Series(east, index=rng.permutation(npts) + 7), pd.Series(north, index=rng.permutation(npts) + 7))
            vd.block_split(ser, spacing=spacing)
            run.count("nested_batches")
