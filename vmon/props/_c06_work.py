"""
Workload of C06: seeded random compositions of verde estimators (the monitors live in c06.py).

Everything here only *drives* the real code; nothing is decided in this module.
"""
import numpy as np


# ----------------------------------------------------------------------
# inputs
# ----------------------------------------------------------------------
def _log_uniform(rng, lo, hi):
    return float(10 ** rng.uniform(np.log10(lo), np.log10(hi)))


def make_points(rng, gen, n, reducible=True):
    kinds = ["uniform", "jitter", "aniso"] if reducible else ["uniform", "jitter", "aniso", "clusters"]
    east, north = gen.cloud(rng, n, kind=str(rng.choice(kinds)), scale=_log_uniform(rng, 1e-1, 1e4),
                            offset_factor=float(rng.choice([0.0, 0.0, 1.0])))
    return east, north


def make_field(rng, gen, east, north, amplitude=None):
    """A smooth non-separable field plus ~20 % noise, different on every call (own coefficients and noise)."""
    if amplitude is None:
        amplitude = _log_uniform(rng, 1e-2, 1e3)
    base = gen.smooth_field(rng, east, north, amplitude=amplitude)
    return base + 0.2 * amplitude * rng.normal(size=east.shape) + amplitude * rng.normal()


def make_weights(rng, n):
    return 10 ** rng.uniform(-2, 1, n)


def layout(rng, arrays, two_d):
    """1-D arrays, or the same element sequences as (rows, cols) arrays."""
    n = arrays[0].size
    if not two_d:
        return tuple(arrays)
    rows = [r for r in range(2, 9) if n % r == 0 and n // r >= 2]
    if not rows:
        return tuple(arrays)
    r = int(rng.choice(rows))
    return tuple(a.reshape(r, n // r) for a in arrays)


def pick_size(rng, tier, two_d, lo=12, hi=None):
    hi = hi or (110 if tier == "quick" else 150)
    n = int(rng.integers(lo, hi + 1))
    if two_d:
        r = int(rng.integers(2, 9))
        n = max(2, n // r) * r
    return n


DTYPE_CLASSES = ["float64", "float64", "float64", "float64", "int16", "int32", "int64", "float32", "float32", "mixed"]


def lattice_points(rng, n):
    """``n`` pairwise different points with integer coordinates (a random subset of a lattice, random origin)."""
    side = int(max(12, np.ceil(3 * np.sqrt(n))))
    step = int(rng.choice([1, 1, 3, 10]))
    cells = rng.permutation(side * side)[:n]
    origin = rng.integers(-500, 500, 2) if rng.random() < 0.5 else np.zeros(2, dtype=int)
    east = (cells % side) * step + origin[0]
    north = (cells // side) * step + origin[1]
    kinds = [str(rng.choice(["int32", "int64"])) for _ in range(2)]
    return east.astype(kinds[0]), north.astype(kinds[1])


def cast_component(rng, values, kind):
    """The data component in the dtype class ``kind`` (integer classes hold integer values that no smooth model predicts exactly)."""
    if kind.startswith("int"):
        return np.round(values).astype(kind)
    return values.astype(kind)


class Problem:
    """coordinates, data (array or tuple), weights (None / array / tuple), as handed to verde."""

    def __init__(self, rng, gen, tier, ncomp=1, weighted=None, two_d=None, extra=None, n=None, reducible=True, hi=None,
                 dtype_class=None, int_coords=None):
        two_d = bool(rng.random() < 0.35) if two_d is None else two_d
        weighted = bool(rng.random() < 0.5) if weighted is None else weighted
        extra = bool(rng.random() < 0.2) if extra is None else extra
        int_coords = bool(rng.random() < 0.15) if int_coords is None else int_coords
        if dtype_class is None:
            dtype_class = "mixed" if (ncomp > 1 and rng.random() < 0.25) else str(rng.choice(DTYPE_CLASSES))
        if dtype_class == "mixed" and ncomp == 1:
            dtype_class = str(rng.choice(["int16", "int32", "int64", "float32"]))
        n = n or pick_size(rng, tier, two_d, hi=hi)
        if int_coords:
            east, north = lattice_points(rng, n)
        else:
            east, north = make_points(rng, gen, n, reducible=reducible)
        self.pts = (east.astype("float64"), north.astype("float64"))
        self.n = n
        if dtype_class == "float64":
            amplitude = _log_uniform(rng, 1e-2, 1e3)
        else:  # integer-valued data must stay inside int16 and must not round to a constant
            amplitude = _log_uniform(rng, 30.0, 800.0)
        comps = [make_field(rng, gen, self.pts[0], self.pts[1], amplitude * _log_uniform(rng, 0.3, 3.0)) for _ in range(ncomp)]
        if dtype_class == "mixed":
            kinds = [str(rng.choice(["int16", "int32", "int64"])), "float64"] + [str(rng.choice(["float32", "int32", "float64"]))] * (ncomp - 2)
            kinds = [kinds[i] for i in rng.permutation(ncomp)]
        else:
            kinds = [dtype_class] * ncomp
        comps = [cast_component(rng, c, k) for c, k in zip(comps, kinds)]
        self.kinds = kinds
        self.dtype_class = dtype_class
        self.int_coords = int_coords
        wts = [make_weights(rng, n) for _ in range(ncomp)] if weighted else None
        coords = [east, north] + ([rng.uniform(0, 100, n)] if extra else [])
        shaped = layout(rng, coords + comps + (wts or []), two_d)
        k = len(coords)
        self.coordinates = tuple(shaped[:k])
        data = tuple(shaped[k:k + ncomp])
        self.data = data[0] if ncomp == 1 else data
        if weighted:
            w = tuple(shaped[k + ncomp:])
            self.weights = w[0] if ncomp == 1 else w
        else:
            self.weights = None
        self.ncomp = ncomp
        self.weighted = weighted
        self.two_d = self.coordinates[0].ndim == 2
        self.extra = extra
        self.omit_default_weights = bool(rng.random() < 0.6)

    def args(self):
        if self.weights is None and self.omit_default_weights:
            return self.coordinates, self.data  # rely on the documented default ``weights=None``
        return self.coordinates, self.data, self.weights

    def elsewhere(self, rng, two_d=None):
        """Prediction coordinates that are not the data points (inside and slightly outside the data region)."""
        east, north = self.pts
        m = int(rng.integers(1, 40))
        pad = 0.1
        e = rng.uniform(east.min() - pad * np.ptp(east), east.max() + pad * np.ptp(east), m)
        nn = rng.uniform(north.min() - pad * np.ptp(north), north.max() + pad * np.ptp(north), m)
        if self.int_coords and rng.random() < 0.5:
            e, nn = np.round(e).astype("int64"), np.round(nn).astype("int32")
        arrays = [e, nn] + ([rng.uniform(0, 100, m)] if self.extra and rng.random() < 0.5 else [])
        return layout(rng, arrays, bool(rng.random() < 0.3) if two_d is None else two_d)


# ----------------------------------------------------------------------
# duck-typed steps: they follow the Chain protocol (filter / predict) but do NOT derive from verde.base.BaseGridder.
# Chain's criterion for "can predict" is having a ``predict`` method. They are harness classes, so the tap wraps their
# methods exactly like verde's and their calls appear in the same call trees.
# ----------------------------------------------------------------------
from sklearn.base import BaseEstimator as _SklearnBase  # noqa: E402  (clone / get_params only)


def _as_tuple(data):
    return data if isinstance(data, tuple) else (data,)


class LevelStep(_SklearnBase):
    """filter + predict, no fit: removes the median level of (every component of) the data."""

    def __init__(self, statistic="median"):
        self.statistic = statistic

    def filter(self, coordinates, data, weights=None):  # noqa: A003
        func = np.median if self.statistic == "median" else np.mean
        self.level_ = tuple(float(func(np.asarray(d, dtype="float64"))) for d in _as_tuple(data))
        pred = _as_tuple(self.predict(coordinates))
        resid = tuple(d - p.reshape(np.shape(d)) for d, p in zip(_as_tuple(data), pred))
        return coordinates, (resid if isinstance(data, tuple) and len(data) > 1 else resid[0]), weights

    def predict(self, coordinates):
        shape = np.broadcast(*coordinates[:2]).shape
        out = tuple(np.full(shape, level, dtype="float64") for level in self.level_)
        return out if len(out) > 1 else out[0]


class WarpedGridder(_SklearnBase):
    """fit / filter / predict around a verde estimator that works in sheared and rescaled coordinates; not a BaseGridder."""

    def __init__(self, inner, scale=1.0, shear=0.0):
        self.inner = inner
        self.scale = scale
        self.shear = shear

    def _warp(self, coordinates):
        east = np.asarray(coordinates[0], dtype="float64")
        north = np.asarray(coordinates[1], dtype="float64")
        return (self.scale * (east + self.shear * north), self.scale * north) + tuple(coordinates[2:])

    def fit(self, coordinates, data, weights=None):
        self.inner.fit(self._warp(coordinates), data, weights)
        return self

    def predict(self, coordinates):
        return self.inner.predict(self._warp(coordinates))

    def filter(self, coordinates, data, weights=None):  # noqa: A003
        self.fit(coordinates, data, weights)
        pred = _as_tuple(self.predict(coordinates))
        resid = tuple(d - p.reshape(np.shape(d)) for d, p in zip(_as_tuple(data), pred))
        return coordinates, (resid if isinstance(data, tuple) and len(data) > 1 else resid[0]), weights


class ThinStep(_SklearnBase):
    """filter only (like a block reduction): keeps every ``keep``-th point; keep=1 hands everything through untouched."""

    def __init__(self, keep=1):
        self.keep = keep

    def filter(self, coordinates, data, weights=None):  # noqa: A003
        if self.keep == 1:
            return coordinates, data, weights

        def thin(arr):
            return np.ravel(arr)[:: self.keep]

        coords = tuple(thin(c) for c in coordinates)
        new_data = tuple(thin(d) for d in data) if isinstance(data, tuple) else thin(data)
        if weights is None:
            return coords, new_data, None
        new_weights = tuple(thin(w) for w in weights) if isinstance(weights, tuple) else thin(weights)
        return coords, new_data, new_weights


DUCK_CLASSES = (LevelStep, WarpedGridder, ThinStep)


# ----------------------------------------------------------------------
# random compositions
# ----------------------------------------------------------------------
def _occupied(pts, shape, region=None):
    """Number of non-empty cells of a (n_north, n_east) partition of the region (own arithmetic, only to size later steps)."""
    east, north = pts
    if region is None:
        region = (east.min(), east.max(), north.min(), north.max())
    w, e, s, n = region
    ie = np.clip(np.floor((east - w) / ((e - w) or 1.0) * shape[1]).astype(int), 0, shape[1] - 1)
    jn = np.clip(np.floor((north - s) / ((n - s) or 1.0) * shape[0]).astype(int), 0, shape[0] - 1)
    return len(set(zip(jn.tolist(), ie.tolist())))


class Builder:
    def __init__(self, rng, verde, max_depth=2):
        self.rng = rng
        self.v = verde
        self.max_depth = max_depth
        self.counter = 0
        self.allow_uncertainty = True
        # Chain never required unique step names and fit/predict ignore them: repeat them, also across nesting levels
        self.naming = str(rng.choice(["unique", "unique", "unique", "pool", "pool", "same", "kind"]))
        self.duck_rate = 0.3

    def name(self, base, step=None):
        self.counter += 1
        if self.naming == "pool":
            return str(self.rng.choice(["spline", "trend", "step"]))
        if self.naming == "same":
            return "step"
        if self.naming == "kind" and step is not None:
            return type(step).__name__.lower()
        return "%s%d" % (base, self.counter)

    # -- scalar gridders ---------------------------------------------------
    def gridder(self, m, pts, last, depth, weighted):
        """A scalar estimator that can be fitted on about ``m`` points."""
        rng, v = self.rng, self.v
        kinds = ["trend", "trend", "spline", "spline", "knn"]
        if m >= 6:
            kinds.append("spline_forces")
        if last and m >= 12 and pts is not None:
            kinds += ["linear", "cubic"]
        if depth < self.max_depth and m >= 4:
            kinds += ["chain", "chain", "warped"]
        kind = str(rng.choice(kinds))
        if kind == "warped":
            return self.warped(self.gridder(m, None, False, self.max_depth, weighted))
        if kind == "trend":
            return v.Trend(degree=int(rng.integers(0, 4)))
        if kind == "spline":
            return v.Spline(damping=_log_uniform(rng, 1e-3, 10.0))
        if kind == "spline_forces":
            k = int(rng.integers(2, 7))
            if pts is not None:
                e, n = pts
                fe = rng.uniform(e.min(), e.max(), k)
                fn = rng.uniform(n.min(), n.max(), k)
            else:
                fe, fn = rng.normal(size=k), rng.normal(size=k)
            return v.Spline(damping=_log_uniform(rng, 1e-3, 10.0), force_coords=(fe, fn))
        if kind == "knn":
            kmax = max(1, min(5, m // 3))
            lo = 2 if (not last and kmax >= 2) else 1
            return v.KNeighbors(k=int(rng.integers(lo, kmax + 1)), reduction=(np.mean if rng.random() < 0.6 else np.median))
        if kind == "linear":
            return v.Linear(rescale=bool(rng.random() < 0.5))
        if kind == "cubic":
            return v.Cubic(rescale=bool(rng.random() < 0.5))
        length = int(rng.integers(1, 4))
        steps, _, _ = self.steps(length, m, pts, weighted, depth + 1, ncomp=1, allow_reduce=bool(rng.random() < 0.4), outer_last=last)
        return v.Chain(steps)

    def warped(self, inner):
        rng = self.rng
        return WarpedGridder(inner, scale=_log_uniform(rng, 0.1, 10.0), shear=float(rng.uniform(-0.5, 0.5)))

    def duck(self, ncomp, m, pts, weighted):
        """A duck-typed step for this position: (step, points afterwards, pts afterwards)."""
        rng = self.rng
        kind = str(rng.choice(["level", "level", "warped", "warped", "thin", "thin"]))
        if kind == "level":
            return LevelStep(statistic=str(rng.choice(["median", "mean"]))), m, pts
        if kind == "warped":
            if ncomp == 1:
                inner = self.gridder(m, None, False, self.max_depth, weighted)
            else:
                inner = self.v.Vector([self.gridder(m, None, False, self.max_depth, weighted) for _ in range(ncomp)])
            return self.warped(inner), m, pts
        keep = int(rng.choice([1, 2, 3])) if m >= 9 else 1
        if keep > 1:
            m = (m + keep - 1) // keep
            pts = None if pts is None else (pts[0][::keep], pts[1][::keep])
        return ThinStep(keep=keep), m, pts

    # -- multi-component estimators ----------------------------------------
    def vector_step(self, ncomp, m, pts, last, depth, weighted):
        rng, v = self.rng, self.v
        kinds = ["vector", "vector", "vector"]
        if ncomp == 2 and 4 <= m <= 60 and pts is not None:
            kinds.append("vspline")
        if depth < self.max_depth and m >= 4:
            kinds.append("chain")
        kind = str(rng.choice(kinds))
        if kind == "vector":
            return v.Vector([self.gridder(m, pts, last, max(depth, 1), weighted) for _ in range(ncomp)])
        if kind == "vspline":
            e, n = pts
            extent = max(np.ptp(e), np.ptp(n))
            with_forces = rng.random() < 0.3
            force = (rng.uniform(e.min(), e.max(), 5), rng.uniform(n.min(), n.max(), 5)) if with_forces else None
            return v.VectorSpline2D(poisson=float(rng.uniform(-0.5, 0.9)), mindist=float(extent * rng.uniform(0.05, 0.5)),
                                    damping=_log_uniform(rng, 1e-3, 1.0), force_coords=force)
        length = int(rng.integers(1, 3))
        steps, _, _ = self.steps(length, m, pts, weighted, depth + 1, ncomp=ncomp, allow_reduce=bool(rng.random() < 0.4), outer_last=last)
        return v.Chain(steps)

    # -- block reductions ----------------------------------------------------
    def reduction(self, m, pts, weighted, extra_ok=True):
        """Returns (step, points afterwards, weights afterwards?)."""
        rng, v = self.rng, self.v
        if pts is not None:
            shape = (int(rng.integers(2, 7)), int(rng.integers(2, 7)))
            east, north = pts
            region = None
            if rng.random() < 0.3:
                pad_e, pad_n = np.ptp(east) * rng.uniform(0, 0.2), np.ptp(north) * rng.uniform(0, 0.2)
                region = (float(east.min() - pad_e), float(east.max() + pad_e), float(north.min() - pad_n), float(north.max() + pad_n))
            m_out = _occupied(pts, shape, region)
            kwargs = {"region": region}
            if rng.random() < 0.35:
                w, e, s, n = region if region is not None else (east.min(), east.max(), north.min(), north.max())
                kwargs["spacing"] = (float((n - s) / shape[0]), float((e - w) / shape[1]))
                m_out = max(1, m_out - 2)  # the spacing may be re-rounded by verde: keep a margin
            else:
                kwargs["shape"] = shape
        else:  # coordinates unknown (already reduced once): a coarse partition, assume the worst afterwards
            kwargs = {"shape": (int(rng.integers(1, 3)), int(rng.integers(1, 3)))}
            m_out = 1
        kwargs["center_coordinates"] = bool(rng.random() < 0.4)
        kwargs["drop_coords"] = bool(rng.random() < 0.7)
        if rng.random() < 0.5:
            if weighted:
                reduction = np.average
            else:
                reduction = [np.mean, np.median, np.average][int(rng.integers(0, 3))]
            return v.BlockReduce(reduction, **kwargs), m_out, False
        uncertainty = bool(weighted and self.allow_uncertainty and rng.random() < 0.4)
        return v.BlockMean(uncertainty=uncertainty, **kwargs), m_out, True

    # -- step lists ------------------------------------------------------------
    def steps(self, length, m, pts, weighted, depth, ncomp=1, allow_reduce=True, outer_last=True):
        """``length`` steps for ``ncomp``-component data on about ``m`` points. Returns (steps, m_after, weighted_after)."""
        rng = self.rng
        out = []
        # positions of reductions: mostly one at the front, sometimes in the middle, rarely two
        red_at = set()
        if allow_reduce and length >= 2 and m >= 10:
            roll = rng.random()
            if roll < 0.45:
                red_at.add(0)
            elif roll < 0.6:
                red_at.add(int(rng.integers(0, length - 1)))
            elif roll < 0.7 and length >= 3:
                red_at.update([0, int(rng.integers(1, length - 1))])
        # duck-typed steps (not BaseGridder): at the first, a middle or the last position, also inside nested chains
        duck_at = set()
        if rng.random() < self.duck_rate:
            free = [k for k in range(length) if k not in red_at]
            if free:
                duck_at.add(int(rng.choice(free)))
                if len(free) > 2 and rng.random() < 0.3:
                    duck_at.add(int(rng.choice(free)))
        for k in range(length):
            last = outer_last and k == length - 1  # exact interpolators (NaN on the hull) only where nothing is fitted afterwards
            if k in red_at:
                step, m, weighted = self.reduction(m, pts, weighted)
                pts = None
                out.append((self.name("reduce", step), step))
                continue
            if k in duck_at:
                step, m, pts = self.duck(ncomp, m, pts, weighted)
                out.append((self.name("step", step), step))
                continue
            if ncomp == 1:
                step = self.gridder(m, pts, last, depth, weighted)
            else:
                step = self.vector_step(ncomp, m, pts, last, depth, weighted)
            out.append((self.name("step", step), step))
        if not any(hasattr(step, "predict") for _, step in out):
            # a chain must be able to predict (Chain.predict of a chain without predicting steps has nothing to sum)
            k = max(i for i, (_, step) in enumerate(out) if isinstance(step, ThinStep))
            out[k] = (out[k][0], LevelStep())
        return out, m, weighted


# ----------------------------------------------------------------------
# streams
# ----------------------------------------------------------------------
def predict_around(run, rng, est, problem, grid=False):
    est.predict(problem.coordinates)
    est.predict(problem.elsewhere(rng))
    if grid and not problem.extra:
        est.grid(shape=(int(rng.integers(2, 6)), int(rng.integers(2, 6))))
        run.count("workload:grid_calls")


def scalar_chain(run, verde, gen, rng, tier, batch):
    for _ in range(batch):
        problem = Problem(rng, gen, tier, ncomp=1)
        builder = Builder(rng, verde)
        length = int(rng.choice([1, 2, 2, 3, 3, 4]))
        steps, _, _ = builder.steps(length, problem.n, problem.pts, problem.weighted, depth=0)
        chain = verde.Chain(steps)
        chain.fit(*problem.args())
        predict_around(run, rng, chain, problem, grid=rng.random() < 0.15)
        run.count("workload:scalar_chains")


def vector(run, verde, gen, rng, tier, batch):
    for _ in range(batch):
        ncomp = int(rng.choice([2, 2, 3]))
        problem = Problem(rng, gen, tier, ncomp=ncomp, hi=90)
        builder = Builder(rng, verde)
        comps = [builder.gridder(problem.n, problem.pts, True, 1, problem.weighted) for _ in range(ncomp)]
        vec = verde.Vector(comps if rng.random() < 0.5 else tuple(comps))
        if rng.random() < 0.3:
            vec.filter(*problem.args())
        else:
            vec.fit(*problem.args())
        predict_around(run, rng, vec, problem, grid=rng.random() < 0.1)
        run.count("workload:vectors")


def vector_chain(run, verde, gen, rng, tier, batch):
    for _ in range(batch):
        ncomp = int(rng.choice([2, 2, 3]))
        problem = Problem(rng, gen, tier, ncomp=ncomp, hi=80)
        builder = Builder(rng, verde)
        length = int(rng.choice([1, 2, 2, 3, 3, 4]))
        steps, _, _ = builder.steps(length, problem.n, problem.pts, problem.weighted, depth=0, ncomp=ncomp)
        chain = verde.Chain(steps)
        chain.fit(*problem.args())
        predict_around(run, rng, chain, problem)
        run.count("workload:vector_chains")


def _compare(run, monitor, got, want, scale, witness):
    """A relation between two executions that only the workload can pair up (both sides are produced by monitored verde calls)."""
    got, want = (got if isinstance(got, tuple) else (got,)), (want if isinstance(want, tuple) else (want,))
    run.evaluated(monitor)
    bad = len(got) != len(want)
    for g, w in zip(got, want):
        g, w = np.asarray(g, dtype="float64"), np.asarray(w, dtype="float64")
        if g.shape != w.shape or (np.isnan(g) != np.isnan(w)).any():
            bad = True
            break
        fin = ~np.isnan(g)
        if fin.any() and np.max(np.abs(g[fin] - w[fin])) > 1e-9 * scale:
            bad = True
            break
    if bad:
        run.violation(monitor, witness["what"], dict(witness, got=got, expected=want), key=monitor)


def _scale(problem):
    data = problem.data if isinstance(problem.data, tuple) else (problem.data,)
    return max(float(np.max(np.abs(np.asarray(d, dtype="float64")))) for d in data) + 1e-300


def _describe_steps(est):
    return [(name, type(step).__name__) for name, step in est.steps]


def refit(run, verde, gen, rng, tier, batch):
    """
    Life-cycle histories: the same object fitted on A, then on other data B (other bounding box, size, weights); clones taken after a
    fit and fitted on B; set_params on a held step / a replaced step list between fits. Block reductions here have no explicit
    region, so every fit must lay its blocks on the bounding box of the data of THAT fit.
    """
    from sklearn.base import clone

    for _ in range(batch):
        ncomp = int(rng.choice([1, 1, 2]))
        problems = [Problem(rng, gen, tier, ncomp=ncomp, hi=80) for _ in range(int(rng.integers(2, 4)))]
        any_weighted = any(p.weighted for p in problems)
        builder = Builder(rng, verde)
        builder.allow_uncertainty = all(p.weighted for p in problems)
        length = int(rng.choice([1, 2, 3, 3, 4]))
        m = min(p.n for p in problems)
        front = []
        if length >= 2 and m >= 20 and rng.random() < 0.6:  # a region-less reduction sized on every point set of the history
            shape = (int(rng.integers(2, 5)), int(rng.integers(2, 5)))
            m = min(_occupied(p.pts, shape) for p in problems)
            kwargs = {"shape": shape, "center_coordinates": bool(rng.random() < 0.4)}
            if rng.random() < 0.5:
                reducer, any_weighted = verde.BlockReduce(np.average, **kwargs), False
            else:
                reducer, any_weighted = verde.BlockMean(**kwargs), True
            front = [(builder.name("reduce", reducer), reducer)]
            length -= 1
        # the coordinates differ from fit to fit: size the steps without knowing them
        steps, _, _ = builder.steps(length, m, None, any_weighted, depth=0, ncomp=ncomp, allow_reduce=False)
        est = verde.Chain(front + steps)
        pristine = clone(est)  # never fitted: what "a brand-new chain" means below
        for k, problem in enumerate(problems):
            est.fit(*problem.args())
            predict_around(run, rng, est, problem)
            if k >= 1 or rng.random() < 0.5:
                run.count("history:fit_number_%d" % min(k + 1, 3))
        # a clone taken AFTER fits, fitted on the last data set, must behave like a brand-new chain
        last = problems[-1]
        if not any(isinstance(s, verde.VectorSpline2D) for _, s in _flat_steps(est, verde)):
            after = clone(est)
            after.fit(*last.args())
            new = clone(pristine)
            new.fit(*last.args())
            _compare(run, "clone_after_fit_equals_new", after.predict(last.coordinates), new.predict(last.coordinates), _scale(last),
                     {"what": "a clone taken after fitting, fitted on other data, predicts differently from a brand-new chain fitted on that data",
                      "steps": _describe_steps(est), "coordinates": last.coordinates, "data": last.data, "weights": last.weights})
            run.count("history:clone_after_fit")
        # set_params on a held step between fits, then fit again (the blueprint of the refit monitor follows the new parameters)
        roll = rng.random()
        target = problems[0]
        if roll < 0.4:
            for name, step in est.steps:
                if isinstance(step, verde.Trend):
                    step.set_params(degree=(step.degree + 1) % 3)
                elif isinstance(step, verde.Spline):
                    step.set_params(damping=step.damping * 3.0)
                elif isinstance(step, verde.BlockReduce) and step.shape is not None:
                    step.set_params(shape=(step.shape[0] + 1, step.shape[1]))
                elif isinstance(step, verde.KNeighbors):
                    step.set_params(reduction=np.median if step.reduction is np.mean else np.mean)
            run.count("history:set_params_on_held_steps")
            est.fit(*target.args())
            predict_around(run, rng, est, target)
        elif roll < 0.9 and ncomp == 1:
            # replace the step list: drop / add / swap a predicting step (same names may stay in use)
            new_steps = list(est.steps)
            extra = verde.Trend(int(rng.integers(0, 3))) if rng.random() < 0.5 else verde.Spline(damping=_log_uniform(rng, 1e-2, 1.0))
            action = str(rng.choice(["append", "replace_last", "drop_last" if len(new_steps) > 1 and hasattr(new_steps[-2][1], "predict") else "append"]))
            if action == "append":
                new_steps.append((builder.name("step", extra), extra))
            elif action == "replace_last":
                new_steps[-1] = (new_steps[-1][0], extra)
            else:
                new_steps.pop()
            est.set_params(steps=new_steps)
            run.count("history:step_list_replaced:" + action)
            est.fit(*target.args())
            predict_around(run, rng, est, target)
        elif rng.random() < 0.5:  # and once more on the very first data
            est.fit(*target.args())
            est.predict(target.coordinates)
        run.count("workload:histories")


def _flat_steps(est, verde):
    out = []
    for name, step in est.steps:
        out.append((name, step))
        if isinstance(step, verde.Chain):
            out.extend(_flat_steps(step, verde))
        elif isinstance(step, verde.Vector):
            for comp in step.components:
                out.append((name, comp))
                if isinstance(comp, verde.Chain):
                    out.extend(_flat_steps(comp, verde))
    return out


def filters(run, verde, gen, rng, tier, batch):
    """Direct filter calls on single estimators, 2-D data and extra coordinates included, and a hand-made pipeline."""
    for done in range(batch):
        problem = Problem(rng, gen, tier, ncomp=1, two_d=bool(rng.random() < 0.6), hi=80)
        builder = Builder(rng, verde)
        for _ in range(3):
            est = builder.gridder(problem.n, problem.pts, True, 1, problem.weighted)
            est.filter(*problem.args())
        # the same pipeline Chain would run, by hand: BlockMean -> Trend -> Spline
        shape = (int(rng.integers(2, 6)), int(rng.integers(2, 6)))
        args = verde.BlockMean(shape=shape).filter(*problem.args())
        args = verde.Trend(int(rng.integers(0, 3))).filter(*args)
        verde.Spline(damping=_log_uniform(rng, 1e-3, 1.0)).filter(*args)
        # a reduction that cannot take weights refuses them (documented: the reduction must accept ``weights=``)
        if problem.weighted:
            try:
                verde.BlockReduce(np.median, shape=shape).filter(*problem.args())
            except TypeError:
                run.count("refused:weighted_reduction_without_weights_argument")
        multi = Problem(rng, gen, tier, ncomp=int(rng.choice([2, 3])), two_d=bool(rng.random() < 0.6), hi=60)
        vec = verde.Vector([builder.gridder(multi.n, multi.pts, True, 1, multi.weighted) for _ in range(multi.ncomp)])
        vec.filter(*multi.args())
        if multi.ncomp == 2 and multi.n <= 60:
            e, n = multi.pts
            verde.VectorSpline2D(mindist=float(0.2 * max(np.ptp(e), np.ptp(n))), damping=1e-2).filter(*multi.args())
        if done < 2:
            dtype_sweep(run, verde, gen, rng, tier)
            integer_first_prediction(run, verde, gen, rng, tier)
        run.count("workload:filter_batches")


def dtype_sweep(run, verde, gen, rng, tier):
    """Every data-dtype class through a direct filter and through a chain whose first predicting step is followed by another step."""
    for kind in ("int16", "int32", "int64", "float32"):
        problem = Problem(rng, gen, tier, ncomp=1, hi=60, dtype_class=kind, int_coords=bool(rng.random() < 0.3))
        builder = Builder(rng, verde)
        builder.gridder(problem.n, problem.pts, True, 2, problem.weighted).filter(*problem.args())
        first = builder.gridder(problem.n, problem.pts, False, 2, problem.weighted)
        second = builder.gridder(problem.n, problem.pts, True, 2, problem.weighted)
        chain = verde.Chain([("first", first), ("second", second)])
        chain.fit(*problem.args())
        chain.predict(problem.coordinates)
    for kind in ("mixed", str(rng.choice(["int16", "int32", "int64", "float32"]))):
        ncomp = int(rng.choice([2, 2, 3]))
        problem = Problem(rng, gen, tier, ncomp=ncomp, hi=50, dtype_class=kind, int_coords=bool(rng.random() < 0.3))
        builder = Builder(rng, verde)
        verde.Vector([builder.gridder(problem.n, problem.pts, True, 2, problem.weighted) for _ in range(ncomp)]).filter(*problem.args())
        steps = [("first", verde.Vector([builder.gridder(problem.n, problem.pts, False, 2, problem.weighted) for _ in range(ncomp)])),
                 ("second", verde.Vector([builder.gridder(problem.n, problem.pts, True, 2, problem.weighted) for _ in range(ncomp)]))]
        chain = verde.Chain(steps)
        chain.fit(*problem.args())
        chain.predict(problem.coordinates)
    run.count("workload:dtype_sweeps")


def integer_first_prediction(run, verde, gen, rng, tier):
    """
    A chain whose first prediction has an integer dtype (KNeighbors with a max/min reduction on integer data) followed by a trend.
    Chain.predict must return the float sum (it used to accumulate in place in the integer array of the first prediction and raise).
    """
    problem = Problem(rng, gen, tier, ncomp=1, hi=50, weighted=False, dtype_class=str(rng.choice(["int16", "int32", "int64"])))
    knn = verde.KNeighbors(k=int(rng.integers(2, 4)), reduction=(np.max if rng.random() < 0.5 else np.min))
    chain = verde.Chain([("neighbours", knn), ("trend", verde.Trend(int(rng.integers(1, 3))))])
    chain.fit(*problem.args())
    # since the F12 repair (Chain.predict sums out of place) this returns; a raise escapes run_case and is a violation
    chain.predict(problem.coordinates)
    run.count("integer_first_prediction:returned")


AMBIENT_FILES = ["test_chain.py", "test_vector.py", "test_base.py", "test_blockreduce.py"]


def ambient(run, verde, index):
    """The repository's own Chain / Vector / filter tests, in-process under the monitors (their verdicts are not ours)."""
    import contextlib
    import io
    import os

    import pytest

    path = os.path.join(os.path.dirname(os.path.abspath(verde.__file__)), "tests", AMBIENT_FILES[index])
    sink = io.StringIO()
    with contextlib.redirect_stdout(sink), contextlib.redirect_stderr(sink):
        code = pytest.main(["-q", "--no-header", "-p", "no:cacheprovider", "-p", "no:xdist", "-p", "no:timeout", "-W", "ignore", path])
    run.count("ambient:%s:pytest_exit_%s" % (AMBIENT_FILES[index], int(code)))
    tail = [ln for ln in sink.getvalue().strip().splitlines() if ln.strip()][-1:]
    run.notes.append("ambient %s: %s" % (AMBIENT_FILES[index], tail[0] if tail else ""))


# sizes above the thresholds at which chunked / blocked code paths could start (50 000, 100 000, 131 072); never a multiple of 50 000
LARGE_FIXED = [("scattered", 60000), ("grid", (300, 401)), ("scattered", 140003)]


def large_problem(rng, gen, index):
    """More than 50 000 points (scattered cloud or 2-D grid), every component with its own field, noise and weights."""
    if index < len(LARGE_FIXED):
        kind, size = LARGE_FIXED[index]
    elif rng.random() < 0.5:
        kind, size = "scattered", int(rng.choice([50001, 60000, 77777, 100001, 120300, 131073, 140003, 163841]))
    else:
        kind, size = "grid", (int(rng.integers(230, 420)), int(rng.integers(230, 420)))
    scale = _log_uniform(rng, 1.0, 1e4)
    if kind == "scattered":
        east, north = rng.uniform(0, scale, size), rng.uniform(0, 0.7 * scale, size)
    else:
        if size[0] * size[1] % 50000 == 0:
            size = (size[0], size[1] + 1)
        east, north = np.meshgrid(np.linspace(0, scale, size[1]), np.linspace(-0.3 * scale, 0.4 * scale, size[0]))
    ncomp = 2
    amplitude = _log_uniform(rng, 1e-1, 1e3)
    flat = (east.ravel(), north.ravel())
    data = tuple(make_field(rng, gen, flat[0], flat[1], amplitude * _log_uniform(rng, 0.3, 3.0)).reshape(east.shape) for _ in range(ncomp))
    weights = tuple(make_weights(rng, east.size).reshape(east.shape) for _ in range(ncomp))
    return kind, (east, north), data, weights


def _documented(verde):
    """(built with no optional argument, built with every documented default spelled out) for each class that has optional arguments."""
    return [
        ("BlockReduce", lambda **k: verde.BlockReduce(np.median, **k),
         dict(region=None, adjust="spacing", center_coordinates=False, shape=None, drop_coords=True)),
        ("BlockMean", lambda **k: verde.BlockMean(**k),
         dict(region=None, adjust="spacing", center_coordinates=False, uncertainty=False, shape=None, drop_coords=True)),
        ("KNeighbors", lambda **k: verde.KNeighbors(**k), dict(k=1, reduction=np.mean)),
        ("Linear", lambda **k: verde.Linear(**k), dict(rescale=False)),
        ("Cubic", lambda **k: verde.Cubic(**k), dict(rescale=False)),
        ("Spline", lambda **k: verde.Spline(**k), dict(mindist=None, damping=None, force_coords=None, engine="auto")),
        ("VectorSpline2D", lambda **k: verde.VectorSpline2D(**k), dict(poisson=0.5, mindist=10e3, damping=None, force_coords=None, engine="auto")),
    ]


def _equal_outputs(a, b):
    if isinstance(a, (tuple, list)) or isinstance(b, (tuple, list)):
        return isinstance(a, (tuple, list)) and isinstance(b, (tuple, list)) and len(a) == len(b) and all(_equal_outputs(x, y) for x, y in zip(a, b))
    if a is None or b is None:
        return a is None and b is None
    a, b = np.asarray(a), np.asarray(b)
    return a.shape == b.shape and bool(np.array_equal(a, b, equal_nan=True))


def defaults(run, verde, gen, rng, tier):
    """
    Documented defaults. The monitors read constructor parameters from the objects and the tap binds missing arguments, so a changed
    default would be followed silently: steps built with NO optional argument must behave exactly like steps built with the documented
    defaults spelled out (same filter outputs inside a chain, same chain prediction), and calls without ``weights`` like ``weights=None``.
    """
    problem = Problem(rng, gen, tier, ncomp=1, weighted=False, two_d=False, extra=True, hi=60, dtype_class="float64", int_coords=False)
    pair = Problem(rng, gen, tier, ncomp=2, weighted=False, two_d=False, extra=False, n=problem.n, hi=60, dtype_class="float64", int_coords=False)
    spacing = float(max(np.ptp(problem.pts[0]), np.ptp(problem.pts[1])) / int(rng.integers(3, 6)))
    for name, make, documented in _documented(verde):
        required = {"spacing": spacing} if name.startswith("Block") else {}
        bare, spelled = make(**required), make(**dict(documented, **required))
        prob = pair if name == "VectorSpline2D" else problem
        out = []
        for est in (bare, spelled):
            if name.startswith("Block"):
                steps = [("step", est), ("trend", verde.Trend(1))]
            else:
                steps = [("trend", verde.Trend(1) if prob.ncomp == 1 else verde.Vector([verde.Trend(1), verde.Trend(1)])), ("step", est)]
            chain = verde.Chain(steps)
            chain.fit(prob.coordinates, prob.data)  # weights left out on purpose
            out.append((est.filter(prob.coordinates, prob.data), chain.predict(prob.coordinates), chain.predict(prob.coordinates[:2])))
        run.evaluated("defaults_equal_documented")
        run.count("defaults:" + name)
        same_params = repr(sorted(bare.get_params(deep=False).items(), key=lambda kv: kv[0])) == repr(sorted(spelled.get_params(deep=False).items(), key=lambda kv: kv[0]))
        if not same_params or not _equal_outputs(out[0], out[1]):
            run.violation("defaults_equal_documented", "%s built without optional arguments differs from %s built with the documented defaults %s"
                          % (name, name, sorted(documented)),
                          {"class": name, "documented": {k: repr(v) for k, v in documented.items()}, "parameters_without_arguments": repr(bare.get_params(deep=False)),
                           "coordinates": prob.coordinates, "data": prob.data, "filter_without_arguments": out[0][0], "filter_documented": out[1][0]},
                          key="defaults:" + name)
    # weights threaded past steps that ignore them, into steps that use them, and weights that are live at a reduction
    weighted = Problem(rng, gen, tier, ncomp=1, weighted=True, hi=80, int_coords=False)
    shape = (int(rng.integers(2, 5)), int(rng.integers(2, 5)))
    m = _occupied(weighted.pts, shape)
    knn = lambda: verde.KNeighbors(k=int(rng.integers(2, 4)))  # noqa: E731
    lists = [
        [("neighbours", knn()), ("trend", verde.Trend(int(rng.integers(1, 3))))],
        [("neighbours", knn()), ("spline", verde.Spline(damping=_log_uniform(rng, 1e-3, 1.0)))],
        [("level", LevelStep()), ("neighbours", knn()), ("mean", verde.BlockMean(shape=shape, uncertainty=True)), ("trend", verde.Trend(1))],
        [("trend", verde.Trend(1)), ("neighbours", knn()), ("reduce", verde.BlockReduce(np.average, shape=shape)), ("trend2", verde.Trend(0 if m < 4 else 1))],
        [("neighbours", knn()), ("mean", verde.BlockMean(shape=shape)), ("neighbours2", verde.KNeighbors(k=1)), ("spline", verde.Spline(damping=1e-2))],
    ]
    for steps in lists:
        chain = verde.Chain(steps)
        chain.fit(*weighted.args())
        chain.predict(weighted.coordinates)
    mixed_weight_dtypes(run, verde, gen, rng, tier)
    run.count("workload:defaults_batches")


def mixed_weight_dtypes(run, verde, gen, rng, tier):
    """
    Vector (fit, filter, as a Chain step) with a weights tuple whose components differ in dtype: integer or bool first and fractional
    floats (values below 1) later, and the reverse; the same for the data components. Component i must get exactly weights[i], data[i].
    """
    for order in ("int_first", "float_first"):
        ncomp = int(rng.choice([2, 3]))
        prob = Problem(rng, gen, tier, ncomp=ncomp, weighted=False, hi=60, dtype_class="float64", int_coords=False, extra=False)
        shape = np.shape(prob.data[0])
        ints = [rng.integers(1, 6, shape).astype(str(rng.choice(["int64", "int32"]))), rng.random(shape) < 0.85]
        integer = ints[int(rng.integers(0, 2))]
        fractional = [rng.uniform(0.05, 0.95, shape) if rng.random() < 0.7 else rng.uniform(0.05, 3.0, shape) for _ in range(ncomp - 1)]
        weights = tuple([integer] + fractional) if order == "int_first" else tuple(fractional + [integer])
        rounded = np.round(prob.data[0] if order == "int_first" else prob.data[-1]).astype("int64")
        data = ((rounded,) + tuple(prob.data[1:])) if order == "int_first" else (tuple(prob.data[:-1]) + (rounded,))
        make = lambda: verde.Vector([verde.Trend(int(rng.integers(1, 3))) for _ in range(ncomp)])  # noqa: E731
        vec = make()
        vec.fit(prob.coordinates, data, weights)
        vec.predict(prob.coordinates)
        make().filter(prob.coordinates, data, weights)
        chain = verde.Chain([("level", LevelStep()), ("vector", make()), ("vector", make())])
        chain.fit(prob.coordinates, data, weights)
        chain.predict(prob.coordinates)


def large(run, verde, gen, rng, tier, index):
    """
    Large counts through filter / Chain.fit / Chain.filter / Vector.filter with cheap steps (no dense spline at this size): the
    residual must be data - prediction at EVERY point, the trailing ones included; the monitors decide, this only drives.
    """
    kind, coords, data, weights = large_problem(rng, gen, index)
    n = coords[0].size
    weighted = bool(rng.random() < 0.5)
    w0 = weights[0] if weighted else None
    k = int(rng.integers(2, 5))
    # direct BaseGridder.filter
    verde.Trend(int(rng.integers(1, 4))).filter(coords, data[0], w0)
    verde.KNeighbors(k=k).filter(coords, data[1])
    # Chain.fit: a later step fitted on the large residual of an earlier one; then the chain used as a filter
    chain = verde.Chain([("trend", verde.Trend(int(rng.integers(0, 3)))), ("level", LevelStep()), ("neighbours", verde.KNeighbors(k=k))])
    chain.fit(coords, data[0], w0)
    chain.predict(coords)
    # a reduction first (large input, small output), then cheap steps; Chain.filter evaluates the fitted chain at every input point
    shape = (int(rng.integers(6, 13)), int(rng.integers(6, 13)))
    reducer = verde.BlockMean(shape=shape) if rng.random() < 0.5 else verde.BlockReduce(np.median if not weighted else np.average, shape=shape)
    reduced = verde.Chain([("reduce", reducer), ("trend", verde.Trend(int(rng.integers(1, 3)))), ("neighbours", verde.KNeighbors(k=2))])
    reduced.filter(coords, data[1], weights[1] if weighted else None)
    # Vector.filter: two components, distinct data and weights
    vec = verde.Vector([verde.Trend(int(rng.integers(1, 3))), verde.Chain([("trend", verde.Trend(1)), ("neighbours", verde.KNeighbors(k=k))])])
    vec.filter(coords, data, weights if weighted else None)
    run.count("workload:large:%s" % kind)
    run.count("workload:large:points>%d" % (131072 if n > 131072 else 100000 if n > 100000 else 50000))


def drive(run, verde, gen, stream, index, rng):
    tier = run.tier
    if stream == "ambient":
        return ambient(run, verde, index)
    if stream == "large":
        return large(run, verde, gen, rng, tier, index)
    if stream == "defaults":
        for _ in range(3):
            defaults(run, verde, gen, rng, tier)
        return None
    if stream == "scalar_chain":
        scalar_chain(run, verde, gen, rng, tier, batch=10)
    elif stream == "vector":
        vector(run, verde, gen, rng, tier, batch=10)
    elif stream == "vector_chain":
        vector_chain(run, verde, gen, rng, tier, batch=10)
    elif stream == "refit":
        refit(run, verde, gen, rng, tier, batch=6)
    elif stream == "filter":
        filters(run, verde, gen, rng, tier, batch=5)
    else:
        raise ValueError(stream)
